#!/usr/bin/env python3
"""Regenerate MANIFEST.json from harness/props/*.py (META.level_text / META.level_note) + NOT_APPLICABLE below."""
import importlib, json, os, sys
sys.path.insert(0, "/verif/harness")
props = [json.loads(l) for l in open("/verif/properties.jsonl")]
NOT_BUILT = "check not built yet in this round (planned: Lean model + correspondence, see DESIGN.md section 3)"
claimed, na = [], []
for p in props:
    pid = p["id"]
    if os.path.exists("/verif/harness/props/%s.py" % pid) and os.path.exists("/verif/lean/Flumine/Props/%s.lean" % pid):
        meta = importlib.import_module("props." + pid).META
        claimed.append({"property_id": pid, "quick_cmd": "./check %s --tier quick" % pid,
                        "thorough_cmd": "./check %s --tier thorough" % pid, "evidence_file": "evidence/%s.json" % pid,
                        "replay_cmd_template": "./check %s --replay {path}" % pid, "engine": "lean-model",
                        "level_claimed": {"category": "proof", "text": meta["level_text"], "design_ref": "DESIGN.md section 3, " + pid},
                        "level_note": meta["level_note"],
                        "technique": meta.get("technique", "Lean 4 theorems over an executable model of the code; model tied to /repo by regenerated constants and a differential correspondence check; independent oracle searches the implementation for a failing input")})
    else:
        na.append({"property_id": pid, "reason": NOT_BUILT})
ids = [c["property_id"] for c in claimed]
man = {"version": 1, "setup_cmd": "cd lean && lake build driver Flumine",
       "hooks": {"guard": "FLUMINE_VERIF", "enable": "no hooks are needed: every observation point is reachable from outside the package (guard name reserved, unused)",
                 "baseline_off_cmd": "cd /repo && /venv/bin/python -m pytest -ra -q -p no:cacheprovider --timeout=900 --continue-on-collection-errors",
                 "source_commits": [], "add_only": True},
       "engines": [{"name": "lean-model", "path": "lean/", "serves_properties": ids, "kind_free_text": "Lean 4 model + theorems (lake), compiled line-protocol driver"},
                   {"name": "harness", "path": "harness/", "serves_properties": ids, "kind_free_text": "Python correspondence check driving the real flumine classes, independent oracles, constant extractor"}],
       "checks": claimed, "not_applicable": na,
       "notes": "See DESIGN.md. Every check: regenerate constants from /repo, build model + theorems, audit axioms, correspondence model vs implementation, oracle on implementation, known findings."}
json.dump(man, open("/verif/MANIFEST.json", "w"), indent=1)
print("claimed", ids)
