#!/usr/bin/env python3
"""tools/confirm_round.py <outdir> [Cnn ...] -- confirm the seeded changes a round of sub-agents left in <outdir>/<id>/out, each in
its own scratch git worktree of /repo (under /tmp/confirm, removed afterwards): the patch applies, the pinned test suite gives the
baseline result (976 passed, the same 5 offline failures), the demo exits non-zero with the change and 0 without it.
Writes <outdir>/<id>/out/confirmed.json; tools/import_round.py copies it into the seed's meta.json."""
import json, os, re, subprocess, sys
from concurrent.futures import ThreadPoolExecutor
out = sys.argv[1]
ids = sys.argv[2:] or sorted(d for d in os.listdir(out) if os.path.exists(os.path.join(out, d, "out", "meta.json")))
def sh(cmd, cwd=None, timeout=1200):
    p = subprocess.run(cmd, shell=True, cwd=cwd, stdout=subprocess.PIPE, stderr=subprocess.STDOUT, timeout=timeout)
    return p.returncode, p.stdout.decode(errors="replace")
def one(pid):
    src = os.path.join(out, pid, "out"); wt = "/tmp/confirm/%s" % pid
    if os.path.exists(os.path.join(src, "confirmed.json")):
        return pid, json.load(open(os.path.join(src, "confirmed.json")))
    sh("git -C /repo worktree remove --force %s" % wt); os.makedirs("/tmp/confirm", exist_ok=True)
    rc, o = sh("git -C /repo worktree add --detach %s HEAD" % wt)
    res = {"worktree": wt}
    try:
        assert rc == 0, o
        env = "PYTHONPATH=%s" % wt
        rc_clean, o_clean = sh("%s timeout 600 /venv/bin/python %s/demo.py %s" % (env, src, wt), cwd=wt)
        rc, o = sh("git apply %s/patch.diff" % src, cwd=wt); res["applies"] = rc == 0
        if rc == 0:
            _, t = sh("%s /venv/bin/python -m pytest -ra -q -p no:cacheprovider --timeout=900 --continue-on-collection-errors 2>&1 | tail -3" % env, cwd=wt)
            mm = re.search(r"(\d+) failed, (\d+) passed", t); res["tests_failed_passed"] = list(mm.groups()) if mm else t[-200:]
            rc_mut, o_mut = sh("%s timeout 600 /venv/bin/python %s/demo.py %s" % (env, src, wt), cwd=wt)
            res.update({"demo_rc_mutated": rc_mut, "demo_rc_clean": rc_clean, "demo_mutated_tail": o_mut[-400:], "demo_clean_tail": o_clean[-200:]})
            res["confirmed"] = res["tests_failed_passed"] == ["5", "976"] and rc_mut not in (0, 124) and rc_clean == 0
        else:
            res["confirmed"] = False; res["apply_output"] = o[-300:]
    except Exception as e:
        res["confirmed"] = False; res["error"] = repr(e)
    finally:
        sh("git -C /repo worktree remove --force %s" % wt)
    res["how"] = "tools/confirm_round.py: scratch worktree of /repo, pinned test command, demo on the clean and on the changed tree"
    json.dump(res, open(os.path.join(src, "confirmed.json"), "w"), indent=1)
    return pid, res
with ThreadPoolExecutor(6) as ex:
    for pid, r in ex.map(one, ids):
        print(pid, "CONFIRMED" if r.get("confirmed") else "REJECTED", {k: r.get(k) for k in ("applies", "tests_failed_passed", "demo_rc_mutated", "demo_rc_clean", "error")})
