#!/usr/bin/env python3
"""tools/gen_mutation_tasks.py <outdir> -- write one TASK.md per property for a fresh sub-agent that seeds a property-breaking
change: the property text, the setup, and what earlier rounds already tried (from seeded/*/meta.json).  The agent is told not to
read /verif; it works in a scratch clone under <outdir>/<id>/repo and leaves patch.diff, demo.py, meta.json in <outdir>/<id>/out."""
import glob, json, os, sys
out = sys.argv[1]
here = os.path.dirname(os.path.abspath(__file__))
props = [json.loads(l) for l in open(os.path.join(here, "..", "properties.jsonl"))]
for d in props:
    pid = d["id"]
    prev = []
    for m in sorted(glob.glob(os.path.join(here, "..", "seeded", "%s-*" % pid, "meta.json"))):
        try:
            j = json.load(open(m))
            prev.append("- (%s) files %s: %s" % (os.path.basename(os.path.dirname(m)), j.get("files"), " ".join(str(j.get("what", "")).split())[:450]))
        except Exception:
            pass
    os.makedirs(os.path.join(out, pid, "out"), exist_ok=True)
    base = "%s/%s" % (out, pid)
    t = f"""# Task: seed ONE property-breaking change into flumine (property {pid})

You are testing a verification harness you cannot see. Your job: make ONE small, realistic change to the flumine
source that BREAKS the semantic property below while the package still imports and its own test suite still gives the
same result as before. Do NOT read anything under /verif (that is the harness under test; reading it would spoil the test).

## Setup
- `git clone /repo {base}/repo` and work ONLY in that clone (never modify /repo itself).
- Python with all dependencies: `/venv/bin/python`. NOTE: /venv has flumine installed in editable mode pointing at /repo, so to run
  YOUR clone always put it first on the path: `cd {base}/repo && PYTHONPATH={base}/repo /venv/bin/python -m pytest ...`
  and in scripts `sys.path.insert(0, <checkout>)` before `import flumine` (print `flumine.__file__` to be sure).
- Baseline test command: `cd {base}/repo && PYTHONPATH={base}/repo /venv/bin/python -m pytest -ra -q -p no:cacheprovider --timeout=900 --continue-on-collection-errors`
  Baseline result on the unchanged tree: 976 passed, 5 failed (the 5 failures are pre-existing and unrelated). After your change the
  result must be the same: 976 passed and the same 5 failures (no new failure, no new error).
- No network. Put temporary files under {base} only and remove temporary directories your demo creates.

## The property ({pid}: {d['title']})
Statement: {d['statement']}

Quantified over: {d['quantifier']['text']}

Where it lives (anchors): files {d['anchors']['files']}; mechanisms: {json.dumps(d['anchors'].get('mechanism'), indent=1)}

## What has ALREADY been tried for this property (do something DIFFERENT: another function, another mechanism, another clause of the
## statement, another part of the quantifier - e.g. the live path instead of simulation, another order type, a boundary value, another exchange)
{chr(10).join(prev) if prev else '- nothing yet'}

## What to produce
1. A change a developer could plausibly commit by mistake or as a well-meant simplification / optimisation / refactoring (reordered
   statements, wrong comparison, dropped guard, stale cache, wrong default, off-by-one, wrong key, early return ...). One logical change,
   as few lines as possible, no syntax tricks, no test edits, no dead code. It must change behaviour on inputs the property quantifies
   over (not only on absurd inputs), and must not be caught by the existing test suite.
2. `{base}/out/patch.diff` : `git diff` of your clone (must apply with `git apply` on a clean checkout of /repo).
3. `{base}/out/demo.py` : a stand-alone script `demo.py <path-to-flumine-checkout>` that drives the REAL code of that checkout
   (no mocks of the logic under test) through a concrete input / history on which the property fails after your change; it must print what
   it observes and exit 0 on the unchanged tree and exit 1 on the changed tree. Run it on both and keep the outputs.
4. `{base}/out/meta.json` : {{"property": "{pid}", "files": [...], "what": "<what the change does and why it breaks the property, and how it
   differs from the earlier changes>", "needs": "<what an input must contain to expose it>", "tests": "<the pytest summary line after the change>",
   "demo_clean": "<output on the clean tree>", "demo_mutated": "<output on the changed tree>"}}
5. Finish with a short summary of the change (file, function, what breaks, what input exposes it).
"""
    open(os.path.join(out, pid, "TASK.md"), "w").write(t)
print("wrote", len(props), "tasks under", out)
