#!/bin/bash
# tools/sweep.sh [seeds...] -- every quick check on the unchanged tree for several seeds; prints the runs that alarmed
cd /verif
seeds="$@"; [ -z "$seeds" ] && seeds="1 2 3 4 5"
for sd in $seeds; do
  for i in $(seq -w 1 20); do
    p=C$i
    out=$(VERIF_SEED=$sd ./check $p 2>&1); rc=$?
    if [ $rc -ne 0 ]; then echo "ALARM seed=$sd $p rc=$rc"; echo "$out" | grep -E "VIOLATION|INTERNAL|tier=" | head -4; fi
  done
  echo "seed $sd done"
done
