#!/usr/bin/env python3
"""tools/gen_matrix_md.py -- render tools/mutation_matrix.tsv (+ seeded/*/meta.json) as the markdown table of DESIGN.md section 8.6"""
import json, os, sys
rows = []
for line in open(os.path.join(os.path.dirname(__file__), "mutation_matrix.tsv")):
    parts = line.rstrip("\n").split("\t")
    if len(parts) < 3:
        continue
    sid, own, res = parts[0], parts[1], parts[2].strip()
    other = parts[3] if len(parts) > 3 else "."
    meta = {}
    try:
        meta = json.load(open(os.path.join(os.path.dirname(__file__), "..", "seeded", sid, "meta.json")))
    except Exception:
        pass
    what = " ".join(str(meta.get("what", "")).split())
    what = what[:150] + ("..." if len(what) > 150 else "")
    verdict = []
    for tok in res.split():
        if ":" not in tok:
            verdict.append(tok); continue
        p, r = tok.split(":", 1)
        verdict.append("%s %s" % (p, {"caught": "catches it (failing input)", "caught(nfi)": "catches it (broken correspondence, no failing input found)"}.get(r, r)))
    if other not in (".", ""):
        verdict.append("caught by %s" % other)
    rows.append("| %s | %s | %s |" % (sid, what.replace("|", "/"), "; ".join(verdict)))
print("| seeded change | what it does | result |\n|---|---|---|")
print("\n".join(rows))
