#!/bin/bash
# tools/try_mutation.sh <patch.diff> <prop> [<prop>...]  -- apply a seeded change to /repo, run the quick checks, undo.
set -u
patch="$(realpath "$1")"; shift
cd /verif
git -C /repo apply "$patch" || { echo "patch does not apply"; exit 3; }
trap 'git -C /repo checkout -- .' EXIT
for p in "$@"; do
  out=$(VERIF_SEED=${VERIF_SEED:-0} ./check "$p" --tier ${TIER:-quick} 2>&1); rc=$?
  echo "== $p rc=$rc"; echo "$out" | grep -E "VIOLATION|KNOWN-FINDING|INTERNAL|tier=" | head -8
done
