#!/venv/bin/python
"""tools/simdiff.py PROP SEED N [search] -- print model/implementation disagreements and oracle violations of a sim-domain property"""
import sys, json
sys.path.insert(0, "/verif/harness")
import common, simcheck
res = common.Result()
prop, seed, n = sys.argv[1], int(sys.argv[2]), int(sys.argv[3])
outs = simcheck.run(res, prop, "quick", seed, True, False, n, n)
for o in outs:
    if o.get("error"): print("ERR", o["idx"], o["error"][-600:])
    if not o["ok"]: print("DIFF idx", o["idx"], json.dumps(o["diff"])[:1200])
    for v in o["violations"]: print("VIOL idx", o["idx"], v[0], "|", v[1][:300])
    if o.get("crash_sig"): print("CRASH idx", o["idx"], o["crash_sig"])
print("n", len(outs), "disagree", len(res.disagreements), "viol", len(res.violations), "ties", res.tie_truncated, "penny", res.extra.get("penny_tolerated"), dict(res.distribution))
