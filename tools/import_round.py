#!/usr/bin/env python3
"""tools/import_round.py <outdir> <suffix> -- copy the seeded changes that sub-agents left in <outdir>/<id>/out into seeded/<id>-<suffix>/
(patch.diff, demo.py, meta.json with an `origin` note); skips what is incomplete or already imported."""
import json, os, shutil, sys
out, suffix = sys.argv[1], sys.argv[2]
here = os.path.dirname(os.path.abspath(__file__))
for pid in sorted(os.listdir(out)):
    src = os.path.join(out, pid, "out")
    dst = os.path.join(here, "..", "seeded", "%s-%s" % (pid, suffix))
    need = [os.path.join(src, f) for f in ("patch.diff", "demo.py", "meta.json")]
    if not all(os.path.exists(f) and os.path.getsize(f) > 0 for f in need):
        print(pid, "incomplete"); continue
    if os.path.exists(dst):
        print(pid, "already imported"); continue
    os.makedirs(dst)
    for f in ("patch.diff", "demo.py"):
        shutil.copy(os.path.join(src, f), dst)
    m = json.load(open(os.path.join(src, "meta.json")))
    cf = os.path.join(src, "confirmed.json")
    if os.path.exists(cf):
        m["confirmed"] = json.load(open(cf))
        if not m["confirmed"].get("confirmed"):
            print(pid, "not confirmed - skipped"); shutil.rmtree(dst); continue
    m["property"] = m.get("property", pid)
    m["origin"] = "round %s: fresh sub-agent given only the property text, the list of earlier changes and a scratch clone" % suffix
    json.dump(m, open(os.path.join(dst, "meta.json"), "w"), indent=1)
    print(pid, "imported")
