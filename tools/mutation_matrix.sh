#!/bin/bash
# tools/mutation_matrix.sh [seed-dir...] -- for every seeded change: apply to /repo, run the check of its own property and,
# if that does not catch it, every other claimed check until one does; undo; write tools/mutation_matrix.tsv
cd /verif
CLAIMED=$(python3 -c "import json;print(' '.join(sorted({c['property_id'] if 'property_id' in c else c['property'] for c in json.load(open('MANIFEST.json'))['checks']})))")
out=tools/mutation_matrix.tsv
[ $# -eq 0 ] && : > $out
dirs="$@"; [ -z "$dirs" ] && dirs=$(ls -d seeded/*/)
for d in $dirs; do
  id=$(basename $d)
  own=$(python3 -c "
import json;m=json.load(open('$d/meta.json'));p=m['property'];print(' '.join(p) if isinstance(p,list) else p)")
  git -C /repo checkout -- . 2>/dev/null
  if ! git -C /repo apply /verif/$d/patch.diff 2>/dev/null; then echo -e "$id\t$own\tPATCH-DOES-NOT-APPLY" >> $out; continue; fi
  res=""
  caught=""
  for p in $own; do
    if echo " $CLAIMED " | grep -q " $p "; then
      o=$(./check $p 2>&1); rc=$?
      tag=$( [ $rc -eq 1 ] && (echo "$o" | grep -q "no-failing-input-found" && echo "caught(nfi)" || echo "caught") || echo "missed(rc=$rc)")
      res="$res $p:$tag"; [ $rc -eq 1 ] && caught=1
    else
      res="$res $p:not-claimed"
    fi
  done
  others=""
  if [ -z "$caught" ]; then
    for p in $CLAIMED; do
      echo " $own " | grep -q " $p " && continue
      o=$(./check $p 2>&1); rc=$?
      if [ $rc -eq 1 ]; then others="$p"; break; fi
    done
  fi
  git -C /repo checkout -- .
  echo -e "$id\t$own\t$res\t${others:-.}" >> $out
done
echo done
