#!/bin/bash
# tools/thorough_all.sh [props...] -- the thorough tier of every check on the unchanged tree, with wall times
cd /verif
props="$@"; [ -z "$props" ] && props=$(seq -f "C%02g" 1 20)
for p in $props; do
  s=$(date +%s)
  out=$(./check $p --tier thorough 2>&1); rc=$?
  e=$(date +%s)
  echo "$p rc=$rc wall=$((e-s))s"
  echo "$out" | grep -E "VIOLATION|INTERNAL|tier=" | head -5
done
