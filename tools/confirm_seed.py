#!/usr/bin/env python3
"""tools/confirm_seed.py Cnn mK  -- confirm a sub-agent's seeded change in its scratch worktree
(/tmp/mut/Cnn): patch applies, the 976 baseline tests still pass, the demo fails with the change and
passes without it.  On success store it as /verif/seeded/Cnn-mK/{patch.diff,demo.py,meta.json}."""
import json, os, re, shutil, subprocess, sys
prop, m = sys.argv[1], sys.argv[2]
wt = "/tmp/mut/%s" % prop
out = "/tmp/mut/%s.out" % prop
def sh(cmd, **kw):
    p = subprocess.run(cmd, shell=True, cwd=wt, stdout=subprocess.PIPE, stderr=subprocess.STDOUT, timeout=900, **kw)
    return p.returncode, p.stdout.decode(errors="replace")
env = "PYTHONPATH=%s" % wt
assert sh("git status --short")[1].strip() == "", "worktree not clean"
rc, o = sh("git apply %s/%s.diff" % (out, m)); assert rc == 0, o
try:
    rc, o = sh("%s /venv/bin/python -m pytest -q -p no:cacheprovider 2>&1 | tail -3" % env)
    mm = re.search(r"(\d+) failed, (\d+) passed", o); tests = mm.groups() if mm else o[-200:]
    rc_mut, o_mut = sh("%s timeout 300 /venv/bin/python %s/%s_demo.py" % (env, out, m))
finally:
    sh("git checkout -- . && git clean -fdq")
rc_clean, o_clean = sh("%s timeout 300 /venv/bin/python %s/%s_demo.py" % (env, out, m))
ok = tests == ("5", "976") and rc_mut != 0 and rc_clean == 0
print(prop, m, "tests", tests, "demo mutated rc", rc_mut, "clean rc", rc_clean, "=> CONFIRMED" if ok else "=> REJECTED")
if ok:
    d = "/verif/seeded/%s-%s" % (prop, m); os.makedirs(d, exist_ok=True)
    shutil.copy("%s/%s.diff" % (out, m), d + "/patch.diff"); shutil.copy("%s/%s_demo.py" % (out, m), d + "/demo.py")
    meta = json.load(open("%s/%s.json" % (out, m)))
    meta.update({"property": prop, "confirmed": {"tests_failed_passed": list(tests), "demo_rc_mutated": rc_mut, "demo_rc_clean": rc_clean,
                 "how": "tools/confirm_seed.py in scratch worktree /tmp/mut/%s" % prop,
                 "demo_mutated_tail": o_mut[-400:], "demo_clean_tail": o_clean[-200:]}})
    json.dump(meta, open(d + "/meta.json", "w"), indent=1)
