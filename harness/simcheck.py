"""Shared driver for the properties that are checked in the simulation domain.

For every scenario (seeded random + the property's directed ones):
  * the Lean world model and the REAL FlumineSimulation are run on it and their canonical observation
    lines are compared under the property's projection;
  * the property's independent oracle (plain Python, no model code) watches the real run through
    hooks (inside strategy callbacks / after every update / at the end).
Scenarios run in a multiprocessing pool; every worker derives everything from the scenario seed.
"""
import importlib
import multiprocessing as mp
import os
import random
import re
import traceback

import common

# crash signatures of the unchanged tree that are consequences of recorded findings
KNOWN_CRASHES = {}      # (the TypeError of a size-0 replacement order was repaired by fix 369e08f: a recurrence is a violation)

# field indices of an order item in the canonical line (DriverWorld.showOrder)
OF = dict(id=0, status=1, complete=2, log=3, betid=4, sm=5, avg=6, canc=7, laps=8, void=9, rem=10, piq=11, pers=12, frags=13,
          placed=14, created=15, inblotter=16, price=17, size=18, liab=19, completed=20, client=21)


def project(line, spec):
    """spec: {"R":bool, "O":[field names] or None, "T":bool, "C":bool, "M":bool, "K":bool, "Q":bool, "E":regex or True/False}"""
    if spec is None:
        return line
    t = line.split(" ")
    # layout: R <r> O <o> T <t> C <c> M <m> K <k> Q <q> E <e>
    d = {t[i]: t[i + 1] for i in range(0, len(t) - 1, 2)}
    out = []
    for key in ("R", "O", "T", "C", "M", "K", "Q", "E", "F"):
        sel = spec.get(key)
        if not sel:
            continue
        v = d.get(key, ".")
        if key == "O" and isinstance(sel, (list, tuple)) and v != ".":
            idx = [OF[f] for f in sel]
            v = ",".join(":".join(item.split(":")[i] for i in idx) for item in v.split(","))
        if key == "E" and isinstance(sel, str) and v != ".":
            v = ",".join(e for e in v.split(",") if re.match(sel, e)) or "."
        out += [key, v]
    return " ".join(out)


def _worker(args):
    prop, seed, idx, gen_opts, directed_sc = args
    try:
        import simgen
        import simworld
        mod = importlib.import_module("props." + prop)
        rng = random.Random((seed * 1000003 + idx) & 0xFFFFFFFF)
        if directed_sc is not None:
            sc = directed_sc
        else:
            opts = dict(gen_opts)
            if callable(getattr(mod, "gen_opts", None)):
                opts.update(mod.gen_opts(rng))
            sc = simgen.gen_scenario(rng, **opts)
        oracle = mod.make_oracle(sc) if hasattr(mod, "make_oracle") else None
        lines, expect = simworld.model_lines(sc)
        model = [l for l in common.run_driver(lines, strict=False) if l != ""]
        r = simworld.Run(sc, hooks=oracle.hooks() if oracle else None).run()
        impl = [l for _, l in r.out]
        spec = getattr(mod, "PROJECTION", None)
        out = {"idx": idx, "ok": True, "tie": False, "penny": False, "crash": r.crash, "crash_sig": None, "diff": None,
               "violations": [], "tags": [], "n_updates": len(expect), "clock_ok": r.clock_ok, "directed": directed_sc is not None}
        for i, (a, b) in enumerate(zip(model, impl)):
            pa, pb = project(a, spec), project(b, spec)
            if simworld.tokens_close(pa, pb):
                continue
            if simworld.tie_explains(sc, a, b, r):
                out["tie"] = True
                break
            if simworld.penny_close(pa, pb):
                out["penny"] = True
                break
            out["ok"] = False
            out["diff"] = {"update": i, "fields": simworld.diff_fields(pa, pb)}
            break
        if r.crash:
            out["crash_sig"] = simworld.crash_signature(r)
        elif out["ok"] and not out["tie"] and not out["penny"] and len(model) != len(impl):
            out["ok"] = False
            out["diff"] = {"update": min(len(model), len(impl)), "fields": ["model produced %d lines, implementation %d" % (len(model), len(impl))]}
        if oracle:
            out["violations"] = oracle.finish(r)
            out["tags"] = sorted(oracle.tags(r))
        if not out["ok"] or out["violations"] or (out["crash_sig"] and out["crash_sig"] not in KNOWN_CRASHES):
            out["scenario"] = sc
        if idx < 3:
            out["sample"] = {"seed_index": idx, "markets": len(sc["markets"]), "updates": [len(m["updates"]) for m in sc["markets"]],
                             "strategies": len(sc["strategies"]), "first_actions": next((u["acts"] for m in sc["markets"] for u in m["updates"] if u["acts"]), {}),
                             "last_line": impl[-1][:400] if impl else ""}
        return out
    except Exception:
        return {"idx": idx, "ok": False, "error": traceback.format_exc()[-1500:], "violations": [], "tags": [], "tie": False, "penny": False,
                "crash": None, "crash_sig": None, "diff": {"update": -1, "fields": ["harness error"]}, "n_updates": 0, "clock_ok": True, "directed": False}


def run(res, prop, tier, seed, model_ok, search, n_quick, n_thorough, gen_opts=None, directed=()):
    n = n_thorough if (tier == "thorough" or search) else n_quick
    import directed as directed_lib
    directed = list(directed_lib.all_scenarios()) + list(directed)
    jobs = [(prop, seed, -1 - i, gen_opts or {}, sc) for i, sc in enumerate(directed)]
    jobs += [(prop, seed, i, gen_opts or {}, None) for i in range(n)]
    if not model_ok:
        res.notes.append("model driver did not build: correspondence skipped, oracle only")
    outs = common.pmap(_worker, jobs, chunksize=8)
    penny = 0
    for o in outs:
        res.evaluations += 1
        if o.get("error"):
            res.disagree({"scenario_index": o["idx"], "harness_error": o["error"]})
            continue
        for t in o["tags"]:
            res.distribution[t] += 1
        if o["tags"]:
            res.nontrivial.add(o["idx"])
        if o["tie"]:
            res.tie_truncated += 1
        if o["penny"]:
            penny += 1
        if not o["clock_ok"]:
            res.runtime_observations["clock_not_publish_time_in_callback"] = res.runtime_observations.get("clock_not_publish_time_in_callback", 0) + 1
        if o["crash_sig"]:
            if o["crash_sig"] in KNOWN_CRASHES:
                res.known_hits["crash:" + o["crash_sig"]] += 1
            else:
                res.violate("crash:" + o["crash_sig"], "the real simulation run died: %s" % o["crash"],
                            {"seed": seed, "scenario_index": o["idx"], "scenario": o.get("scenario")})
        if not o["ok"] and model_ok:
            res.disagree({"scenario_index": o["idx"], "seed": seed, "first_difference": o["diff"], "scenario": o.get("scenario")})
        for sig, what in o["violations"]:
            res.violate(sig, what, {"seed": seed, "scenario_index": o["idx"], "scenario": o.get("scenario")})
        if "sample" in o:
            res.sample(o["sample"])
    res.extra["penny_tolerated"] = penny
    if penny > max(3, len(outs) // 40):
        res.disagree({"systematic_penny_differences": penny, "of": len(outs),
                      "note": "more scenarios differ by a penny than exact half-penny ties explain"})
    return outs


class BaseOracle:
    """independent checks on the real run; subclasses override in_callback / after_update / finish_checks / tags"""

    def __init__(self, sc):
        self.sc = sc
        self.v = []
        self.seen = set()

    def hooks(self):
        return {"in_callback": self.in_callback, "after_update": self.after_update, "on_action": self.on_action,
                "before_action": self.before_action, "on_start": self.on_start, "on_end": self.on_end, "in_closed": self.in_closed}

    def in_closed(self, run, strategy, market, market_book):
        """inside a strategy's process_closed_market callback"""
        pass

    def before_action(self, run, sidx, market, action, order, state):
        pass

    def on_start(self, run):
        pass

    def on_end(self, run):
        pass

    def add(self, sig, what):
        if sig not in self.seen:
            self.seen.add(sig)
            self.v.append((sig, what))

    def in_callback(self, run, strategy, market, market_book):
        pass

    def on_action(self, run, sidx, market, action, result, order):
        pass

    def after_update(self, run, market_book):
        pass

    def finish_checks(self, run):
        pass

    def finish(self, run):
        if not run.crash:
            self.finish_checks(run)
        return self.v

    def tags(self, run):
        return {"run"}


def generic_replay(prop, payload):
    """re-run one stored scenario on model + implementation + the property's oracle"""
    import simworld
    mod = importlib.import_module("props." + prop)
    sc = (payload.get("replay") or {}).get("scenario")
    if not sc:
        print("no scenario stored in this replay file (kind=%s): %s" % (payload.get("kind"), str(payload.get("no_longer_checks"))[:1500]))
        return 1
    o = mod.make_oracle(sc)
    lines, expect = simworld.model_lines(sc)
    model = [l for l in common.run_driver(lines, strict=False) if l != ""]
    r = simworld.Run(sc, hooks=o.hooks()).run()
    impl = [l for _, l in r.out]
    spec = getattr(mod, "PROJECTION", None)
    agree = all(simworld.tokens_close(project(a, spec), project(b, spec)) for a, b in zip(model, impl)) and (len(model) == len(impl) or r.crash)
    print("model/implementation agree under the projection:", agree, "| crash:", r.crash)
    vs = o.finish(r)
    for sig, what in vs:
        print("ORACLE %s: %s" % (sig, what))
    return 1 if (vs or not agree) else 0
