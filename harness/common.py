"""Shared helpers for the checks: exact numbers, the Lean driver, results."""
import collections
import hashlib
import json
import os
import subprocess
import sys
import tempfile
from decimal import Decimal
from fractions import Fraction

VERIF = os.path.dirname(os.path.dirname(os.path.abspath(__file__)))
REPO = os.environ.get("VERIF_REPO", "/repo")
LEAN_DIR = os.path.join(VERIF, "lean")
DRIVER = os.path.join(LEAN_DIR, ".lake", "build", "bin", "driver")


def use_repo():
    """Make `import flumine` resolve to the working tree under test."""
    if sys.path[0] != REPO:
        sys.path.insert(0, REPO)
    import flumine

    real = os.path.realpath(flumine.__file__)
    assert real.startswith(os.path.realpath(REPO) + os.sep), (real, REPO)
    import logging

    logging.disable(logging.CRITICAL)
    return flumine


def frac(x):
    """Exact value of the decimal repr of a python number (None stays None)."""
    if x is None:
        return None
    if isinstance(x, Fraction):
        return x
    if isinstance(x, bool):
        return Fraction(int(x))
    if isinstance(x, int):
        return Fraction(x)
    if isinstance(x, Decimal):
        return Fraction(x)
    if isinstance(x, float):
        if x != x or x in (float("inf"), float("-inf")):
            raise ValueError("non-finite")
        return Fraction(Decimal(repr(x)))
    if isinstance(x, str):
        return Fraction(x)
    raise TypeError(type(x))


def tok(x) -> str:
    """Protocol token of a number."""
    if x is None:
        return "-"
    f = frac(x)
    return str(f.numerator) if f.denominator == 1 else "%d/%d" % (f.numerator, f.denominator)


def tokb(b) -> str:
    return "T" if b else "F"


def toklist(xs, f=tok) -> str:
    xs = list(xs)
    return ",".join(f(x) for x in xs) if xs else "."


def untok(s):
    if s == "-":
        return None
    return Fraction(s)


def untoklist(s, f=untok):
    if s in (".", ""):
        return []
    return [f(x) for x in s.split(",")]


def close(a, b, tol=Fraction(1, 10**9)) -> bool:
    """model value (Fraction/None) against implementation value (float/None)."""
    if a is None or b is None:
        return a is None and b is None
    return abs(frac(a) - frac(b)) <= tol


def is_tie2(x: Fraction) -> bool:
    y = x * 100
    return y - (y.numerator // y.denominator) == Fraction(1, 2)


def round2(x: Fraction) -> Fraction:
    """round half even to 2dp, exact"""
    y = x * 100
    f = y.numerator // y.denominator
    r = y - f
    if r < Fraction(1, 2):
        n = f
    elif r > Fraction(1, 2):
        n = f + 1
    else:
        n = f if f % 2 == 0 else f + 1
    return Fraction(n, 100)


class DriverError(Exception):
    pass


def run_driver(lines, strict=True):
    """Pipe request lines to the compiled Lean model driver; one answer per line."""
    if not os.path.exists(DRIVER):
        raise DriverError("driver binary missing (model did not build)")
    data = "\n".join(lines) + "\n"
    p = subprocess.run([DRIVER], input=data.encode(), stdout=subprocess.PIPE, stderr=subprocess.PIPE)
    if p.returncode != 0:
        raise DriverError("driver exited %d: %s" % (p.returncode, p.stderr.decode()[-500:]))
    out = p.stdout.decode().split("\n")
    if out and out[-1] == "":
        out.pop()
    if strict and len(out) != len(lines):
        raise DriverError("driver answered %d lines for %d requests" % (len(out), len(lines)))
    return out


class Result:
    """What a property module reports back to run_check."""

    def __init__(self):
        self.evaluations = 0
        self.nontrivial = set()  # keys of distinct non-trivial cases
        self.rule = ""
        self.samples = []
        self.distribution = collections.Counter()
        self.disagreements = []  # model vs implementation (dicts, json-able)
        self.violations = []  # oracle on implementation: {"signature","what","replay"}
        self.known_hits = collections.Counter()  # signature -> count (random scenarios that hit a listed defect)
        self.tie_truncated = 0
        self.notes = []
        self.runtime_observations = {}
        self.extra = {}

    def sample(self, s, limit=5):
        if len(self.samples) < limit:
            self.samples.append(s)

    def disagree(self, d, limit=50):
        if len(self.disagreements) < limit:
            self.disagreements.append(d)
        else:
            self.extra["disagreements_dropped"] = self.extra.get("disagreements_dropped", 0) + 1

    def violate(self, signature, what, replay, per_signature=3, limit=400):
        """keep a few examples per signature so that a frequent (e.g. known) signature cannot crowd out a new one"""
        self.extra.setdefault("violation_counts", {})
        self.extra["violation_counts"][signature] = self.extra["violation_counts"].get(signature, 0) + 1
        if self.extra["violation_counts"][signature] <= per_signature and len(self.violations) < limit:
            self.violations.append({"signature": signature, "what": what, "replay": replay})


def stable_hash(obj) -> str:
    return hashlib.sha1(json.dumps(obj, sort_keys=True, default=str).encode()).hexdigest()[:12]


def pmap(func, jobs, chunksize=1):
    """map over the jobs with a process pool (all cores), or in this process when VERIF_PROCS=1 (coverage measurement, debugging)"""
    import multiprocessing as mp
    procs = int(os.environ.get("VERIF_PROCS", "0") or 0) or min(16, os.cpu_count() or 4)
    if procs <= 1:
        return [func(j) for j in jobs]
    with mp.Pool(procs) as pool:
        return pool.map(func, jobs, chunksize=chunksize)
