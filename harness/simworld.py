"""Simulation-world correspondence: scenario -> (a) protocol lines for the Lean model driver,
(b) a run of the REAL FlumineSimulation with scripted strategies, dumping the same canonical
observation line after every market update.

Scenario (plain dict, json-able):
  cfg:      {isolation, latency:{place,cancel,update,replace}}
  clients:  [{bpe, full, mbv, txlimit, commission}]
  strategies: [{markets:[market index..], max_order, max_sel, max_market, max_trade, max_live, multi}]
  markets:  [{id:"1.101", event:"100", type:"WIN", winners:1, ew:None,
              updates:[{pt, status, version, inplay, bsp_rec, bsp_market, bet_delay,
                        runners:[{id, hc, status, af, sp, atb:[[p,s]..], atl, trd}],
                        acts:{strategy_index(str): [action..]}}]}]
  actions:  ["create", okey, tkey, new_trade, sel, hc, side, kind, price, size, liab, pers, fok, minfill, ladder, place_reset, reset]
            ["place", okey, ver, force] ["cancel", okey, red, force] ["update", okey, pers, force]
            ["replace", okey, price, ver, force] ["bbegin", client] ["bexec"] ["bend"]
  target = "o<creation index>" or "t<tkey>" (= the latest order of that trade, trade.orders[-1]).
"""
import datetime
import json
import os
import shutil
import tempfile
from fractions import Fraction

import common
from common import frac, tok, tokb

EPOCH = datetime.datetime(1970, 1, 1)


def ms(dt):
    if dt is None:
        return "-"
    d = dt - EPOCH
    return str(d.days * 86400000 + d.seconds * 1000 + d.microseconds // 1000)


def num(x):
    return tok(round(x, 6)) if isinstance(x, float) else tok(x)


def lv(levels):
    return "+".join("%s@%s" % (tok(p), tok(s)) for p, s in levels) if levels else "."


def nats(l):
    l = list(l)
    return "+".join(str(x) for x in l) if l else "."


# ------------------------------------------------------------------------------- model lines

def action_line(sidx, mid_num, a, markets_of_order):
    k = a[0]
    if k == "create":
        _, okey, tkey, new, sel, hc, side, kind, price, size, liab, pers, fok, minfill, ladder, prs, rs = a
        if kind == "L":
            liab = 0
        elif kind == "LOC":
            size = 0
        else:
            price, size = 0, 0
        if kind != "L":
            pers = "LAPSE"
        return "w.act %d create %d %s %d %d %d %s %s %s %s %s %s %s %s %s %s %s %s" % (
            sidx, tkey, tokb(new), sidx, mid_num, sel, tok(hc), side, kind, tok(price), tok(size), tok(liab), pers, tokb(fok),
            tok(minfill), ladder, tok(prs), tok(rs))
    if k == "place":
        return "w.act %d place %s %s %s" % (sidx, a[1], "-" if a[2] is None else str(a[2]), tokb(a[3]))
    if k == "cancel":
        return "w.act %d cancel %s %s %s" % (sidx, a[1], tok(a[2]), tokb(a[3]))
    if k == "update":
        return "w.act %d update %s %s %s" % (sidx, a[1], a[2], tokb(a[3]))
    if k == "replace":
        return "w.act %d replace %s %s %s %s" % (sidx, a[1], tok(a[2]), "-" if a[3] is None else str(a[3]), tokb(a[4]))
    if k == "bbegin":
        return "w.act %d bbegin %d" % (sidx, a[1])
    if k == "bexec":
        return "w.act %d bexec" % sidx
    if k == "bend":
        return "w.act %d bend" % sidx
    raise ValueError(a)


def market_num(mid: str) -> int:
    return int(mid.split(".")[1])


def runner_tok(r):
    return "~".join([str(r["id"]), tok(r.get("hc", 0)), r.get("status", "ACTIVE"), tok(r.get("af")), tok(r.get("sp")),
                     lv(r.get("atb", [])), lv(r.get("atl", [])), lv(r.get("trd", []))])


def stream_order(sc):
    """market indices in the order their streams are created (strategy registration order, each strategy's files sorted by name)"""
    order = []
    for s_ in sc["strategies"]:
        for mi in sorted(s_["markets"], key=lambda i: sc["markets"][i]["id"]):
            if mi not in order:
                order.append(mi)
    return order


def merged_updates(sc):
    """the order in which the framework processes updates: streams sequentially in creation order (no event groups) or
    merged by publish time within an event group (stable, pop-head/append-back as simulation.run does)"""
    ms_ = sc["markets"]
    so = stream_order(sc)
    if not sc.get("event_processing"):
        out = []
        for mi in so:
            out += [(mi, ui) for ui in range(len(ms_[mi]["updates"]))]
        return out
    groups = {}
    for mi in so:
        groups.setdefault(ms_[mi]["event"], []).append(mi)
    out = []
    for ev, mis in groups.items():
        if len(mis) == 1:
            out += [(mis[0], ui) for ui in range(len(ms_[mis[0]]["updates"]))]
            continue
        cycles = [[ms_[mi]["updates"][0]["pt"], mi, 0] for mi in mis if ms_[mi]["updates"]]
        while cycles:
            cycles.sort(key=lambda x: x[0])
            pt, mi, ui = cycles.pop(0)
            out.append((mi, ui))
            if ui + 1 < len(ms_[mi]["updates"]):
                cycles.append([ms_[mi]["updates"][ui + 1]["pt"], mi, ui + 1])
    return out


def stream_ids(sc):
    """stream id of each market file (streams are created per distinct file in strategy order)"""
    ids, nxt = {}, 0
    for s in sc["strategies"]:
        for mi in sorted(s["markets"], key=lambda i: sc["markets"][i]["id"]):
            if mi not in ids:
                nxt += 10000
                ids[mi] = nxt
    return ids


def seen_runners(sc):
    """the runner ladders as the framework sees them: every update is fed through a real
    betfairlightweight MarketBookCache (which sorts the ladders) and read back"""
    import bflw_build as bb
    out = {}
    for mi, m in enumerate(sc["markets"]):
        b = bb.BookBuilder(m["id"])
        for ui, u in enumerate(m["updates"]):
            book = b.feed(update_mcm(m, u))
            rs = []
            for r in book.runners:
                sp = None
                if r.sp is not None and not isinstance(r.sp, list):
                    sp = r.sp.actual_sp
                    if sp in ("NaN", "Infinity"):
                        sp = None
                rs.append({"id": r.selection_id, "hc": r.handicap or 0, "status": r.status, "af": r.adjustment_factor, "sp": sp,
                           "atb": [[x["price"], x["size"]] for x in r.ex.available_to_back],
                           "atl": [[x["price"], x["size"]] for x in r.ex.available_to_lay],
                           "trd": [[x["price"], x["size"]] for x in r.ex.traded_volume]})
            out[(mi, ui)] = rs
    return out


def update_mcm(m, u):
    import bflw_build as bb
    md = bb.market_definition(status=u["status"], inplay=u["inplay"], version=u["version"], bsp_market=u.get("bsp_market", True),
                              bsp_reconciled=u["bsp_rec"], market_type=m.get("type", "WIN"), number_of_winners=m.get("winners", 1),
                              bet_delay=u.get("bet_delay", 0), persistence_enabled=u.get("persistence_enabled", True),
                              each_way_divisor=m.get("ew"), event_id=m.get("event", "100"),
                              **({"market_time": iso_ms(u.get("market_time", m["market_time"]))} if m.get("market_time") is not None else {}),
                              runners=[{"id": r["id"], "status": r.get("status", "ACTIVE"), "af": r.get("af"), "hc": r.get("hc") or None,
                                        "bsp": r.get("sp")} for r in u["runners"]])
    rcs = [bb.rc(r["id"], atb=r.get("atb", []), atl=r.get("atl", []), trd=r.get("trd", []), hc=r.get("hc") or None)
           for r in u["runners"] if r.get("status", "ACTIVE") == "ACTIVE" or r.get("atb") or r.get("trd")]
    # C14 scenarios send an image first and deltas afterwards (the listener filter keeps state in the cache)
    return bb.mcm(m["id"], u["pt"], md, rcs, img=(not m.get("delta_updates")) or u is m["updates"][0])


def iso_ms(ms_epoch):
    return datetime.datetime.utcfromtimestamp(ms_epoch / 1000).strftime("%Y-%m-%dT%H:%M:%S.") + "%03dZ" % (ms_epoch % 1000)


def model_lines(sc):
    L = []
    seen = seen_runners(sc)
    lat = sc["cfg"]["latency"]
    L.append("w.begin %s %s %s %s %s" % (tokb(sc["cfg"]["isolation"]), tok(lat["place"]), tok(lat["cancel"]), tok(lat["update"]), tok(lat["replace"])))
    for i, c in enumerate(sc["clients"]):
        L.append("w.client %d %s %s %s %s %s" % (i, tokb(c["bpe"]), tokb(c["full"]), tokb(c["mbv"]),
                                               "-" if c["txlimit"] is None else str(c["txlimit"]), tok(c["commission"])))
    sids = stream_ids(sc)
    for i, s in enumerate(sc["strategies"]):
        L.append("w.strategy %d %s F %s %s %s %d %d %s" % (i, ",".join(str(sids[mi]) for mi in s["markets"]) or ".",
                                                          tok(s["max_order"]), tok(s["max_sel"]), tok(s["max_market"]),
                                                          s["max_trade"], s["max_live"], tokb(s["multi"])))
    expect = []  # (mi, ui) per output line
    order = merged_updates(sc)
    for k, (mi, ui) in enumerate(order):
        m = sc["markets"][mi]
        u = m["updates"][ui]
        if mi not in sids:
            continue
        for sidx_s, acts in sorted(u.get("acts", {}).items(), key=lambda kv: int(kv[0])):
            for a in acts:
                L.append(action_line(int(sidx_s), market_num(m["id"]), a, None))
        L.append("w.book %d %d %d %s %d %s %s %s %s %s %d %s %s %s" % (
            market_num(m["id"]), sids[mi], u["pt"], u["status"], u["version"], tokb(u["inplay"]), tokb(u["bsp_rec"]),
            tokb(u.get("bsp_market", True)), tokb(u.get("persistence_enabled", True)), tok(u.get("bet_delay", 0)), m.get("winners", 1),
            m.get("type", "WIN"), tok(m.get("ew")), ",".join(runner_tok(r) for r in seen[(mi, ui)]) or "."))
        expect.append((mi, ui))
        # `self.handler_queue.clear()` when a market (or an event group) has been played
        nxt = order[k + 1][0] if k + 1 < len(order) else None
        if nxt is None or (nxt != mi and (not sc.get("event_processing") or sc["markets"][nxt]["event"] != m["event"])):
            L.append("w.endstream")
    L.append("w.end")
    return L, expect


# ------------------------------------------------------------------------------- implementation

EXC_CODES = [
    ("does not currently have a betId", "OrderUpdateError:no-bet-id"),
    ("Size reduction too large", "OrderUpdateError:size-reduction"),
    ("Current status", "OrderUpdateError:status"),
    ("Only LIMIT orders can be", "OrderUpdateError:only-limit"),
    ("Persistence types match", "OrderUpdateError:persistence-match"),
    ("Prices match", "OrderUpdateError:prices-match"),
    ("Only LIMIT or LIMIT_ON_CLOSE", "OrderUpdateError:only-limit-or-loc"),
    ("does not match transaction client", "OrderError:client"),
    ("has already been placed", "OrderError:already-placed"),
]


def refusal_code(order, msg=None):
    msg = msg or order.violation_msg or ""
    if "ORDER_VALIDATION" in msg:
        return "ORDER_VALIDATION"
    if "MARKET_VALIDATION" in msg:
        return "MARKET_VALIDATION"
    if "MAX_TRANSACTION_COUNT" in msg:
        return "MAX_TRANSACTION_COUNT"
    if "STRATEGY_EXPOSURE" in msg:
        if "validate_order" in msg:
            return "STRATEGY_EXPOSURE:validate_order"
        if "Order exposure" in msg:
            return "STRATEGY_EXPOSURE:order"
        if "selection exposure" in msg:
            return "STRATEGY_EXPOSURE:selection"
        if "market exposure" in msg:
            return "STRATEGY_EXPOSURE:market"
        if "priceLadderDefinition" in msg:
            return "STRATEGY_EXPOSURE:unknown_ladder"
        return "STRATEGY_EXPOSURE:?"
    return "CUSTOM"


class Run:
    """one run of the real FlumineSimulation for a scenario"""

    def __init__(self, sc, hooks=None):
        self.sc = sc
        self.hooks = hooks or {}
        self.orders = []       # real orders by creation index
        self.trades = {}       # tkey -> Trade
        self.trade_order = []
        self.replaced = {}       # id(replacement order) -> the order it replaces (noted when the framework creates the replacement)
        self.events = []
        self.lines = {}        # (market id str, pt) -> line
        self.out = []          # list of ((mid, pt), line)
        self.results = []
        self.crash = None
        self.control_errors = []      # (order, message) of every refusal by a control
        self.settled_with = {}        # id(order) -> {(dead-heat count, runner status)} it was settled with, per close
        self._last_error = None
        self.foreign = 0              # requests made through a market other than the order's own
        self.clock_ok = True
        self.clock_notes = []

    def clock_probe(self, where, pt, created=None, closed=None):
        """the framework clock inside a callback is the publish time of the update being processed - also in the callbacks that run
        before the book is handed to the strategies (new market, closed market) - and what the framework stamps there carries it"""
        now = ms(datetime.datetime.utcnow())
        if now != str(pt):
            self.clock_ok = False
            self.clock_notes.append("%s: clock %s while processing the update published at %s" % (where, now, pt))
        for name, stamp in (("market.date_time_created", created), ("market.date_time_closed", closed)):
            if stamp is not None and ms(stamp) != str(pt) and where == "new-market" and name.endswith("created"):
                self.clock_ok = False
                self.clock_notes.append("%s = %s, the market was created by the update published at %s" % (name, ms(stamp), pt))

    # ---- canonical dump
    def show_order(self, o):
        from flumine.execution.baseexecution import BET_ID_START
        s = o.simulated
        frs = {}
        order = []
        for pt, p, z in s.matched:
            if frac(z) == 0:
                continue
            k = (int(pt), frac(p))
            if k not in frs:
                frs[k] = Fraction(0)
                order.append(k)
            frs[k] += frac(z)
        ftxt = "+".join("%d@%s@%s" % (k[0], tok(k[1]), tok(frs[k])) for k in order) if order else "."
        ot = o.order_type
        return ":".join([
            str(o._vidx), o.status.name if o.status else "-", tokb(o.complete),
            "+".join(x.name for x in o.status_log) if o.status_log else ".",
            str(int(o.bet_id) - BET_ID_START) if o.bet_id else "-",
            num(s.size_matched), num(s.average_price_matched), num(s.size_cancelled), num(s.size_lapsed), num(s.size_voided),
            num(s.size_remaining), num(s._piq), str(getattr(ot, "persistence_type", "LAPSE")), ftxt,
            ms(o.responses._date_time_placed), ms(o.date_time_created), tokb(self.in_blotter(o)),
            num(getattr(ot, "price", 0) or 0), num(getattr(ot, "size", 0) or 0), num(getattr(ot, "liability", 0) or 0),
            ms(o.date_time_execution_complete), str(self.client_index(o.client))])

    def client_index(self, c):
        try:
            return self.clients.index(c)
        except ValueError:
            return "-"

    def in_blotter(self, o):
        m = self.framework.markets.markets.get(o.market_id)
        return bool(m and o.id in m.blotter)

    def dump(self):
        fw = self.framework
        O = ",".join(self.show_order(o) for o in self.orders) or "."
        T = ",".join(":".join([str(t._vidx), t.status.name, "+".join(x.name for x in t.status_log) if t.status_log else ".",
                                nats(o._vidx for o in t.orders)]) for t in self.trade_order) or "."
        ctxs = []
        for si, s in enumerate(self.strategies):
            for (mid, sel, hc), c in s._invested.items():
                ctxs.append(":".join([str(si), str(market_num(mid)), str(sel), tok(hc), nats(self.tidx(x) for x in c.trades),
                                      nats(self.tidx(x) for x in c.live_trades), ms(c.datetime_last_placed), ms(c.datetime_last_reset)]))
        C = ",".join(ctxs) or "."
        mw = [m for m in fw._market_middleware if type(m).__name__ == "SimulatedMiddleware"][0]
        M = ",".join(":".join([str(market_num(m.market_id)), tokb(m.closed), nats(o._vidx for o in m.blotter),
                                nats(o._vidx for o in m.blotter._live_orders), tokb(m.blotter.active),
                                tokb(m.market_id in mw.markets),
                                # the market's own list of applied runner removals (selection / handicap / adjustment factor)
                                "+".join("%d@%s@%s" % (k[0], tok(k[1]), tok(k[2])) for k in mw._market_runner_removals.get(m.market_id, [])) or "."])
                      for m in fw.markets) or "."
        K = ",".join(":".join([str(i)] + [str(getattr(self.txc(c), a)) for a in
                                          ("transaction_count", "failed_transaction_count", "current_transaction_count", "current_failed_transaction_count")])
                     for i, c in enumerate(self.clients)) or "."
        Q = "+".join("%s/%d/%s/%s/%s" % (p.package_type.name, market_num(p.market_id), nats(o._vidx for o in p._orders),
                                         ms(p._time_created), num(p.simulated_delay)) for p in fw.handler_queue) or "."
        E = ",".join(self.events) or "."
        self.events = []
        # F: requests made through a market other than the order's own (the model's ghost counter `World.foreign`)
        return "O %s T %s C %s M %s K %s Q %s E %s F %d" % (O, T, C, M, K, Q, E, self.foreign)

    def txc(self, client):
        return [c for c in client.trading_controls if c.NAME == "MAX_TRANSACTION_COUNT"][0]

    def tidx(self, trade_id):
        for t in self.trade_order:
            if t.id == trade_id:
                return t._vidx
        return 999999

    # ---- scripted actions
    def resolve_target(self, a):
        if a[0] not in ("place", "cancel", "update", "replace"):
            return None
        tg = a[1]
        try:
            return self.orders[int(tg[1:])] if tg[0] == "o" else self.trades[int(tg[1:])].orders[-1]
        except (IndexError, KeyError):
            return None

    def do_action(self, sidx, strategy, market, a, state):
        self._last_order = None
        hb = self.hooks.get("before_action")
        if hb:
            hb(self, sidx, market, a, self.resolve_target(a), state)
        r = self._do_action(sidx, strategy, market, a, state)
        h = self.hooks.get("on_action")
        if h:
            h(self, sidx, market, a, r, self._last_order)
        return r

    def _do_action(self, sidx, strategy, market, a, state):
        from flumine.order.trade import Trade
        from flumine.order import ordertype as ot
        from flumine.exceptions import OrderError, OrderUpdateError
        k = a[0]
        try:
            if k == "create":
                _, okey, tkey, new, sel, hc, side, kind, price, size, liab, pers, fok, minfill, ladder, prs, rs = a
                if new:
                    t = Trade(market.market_id, sel, hc, strategy, place_reset_seconds=prs, reset_seconds=rs)
                    t._vidx = tkey
                    self.trades[tkey] = t

                    def noting(order, *args, _orig=t.create_order_replacement, _run=self, **kw):
                        r = _orig(order, *args, **kw)
                        _run.replaced[id(r)] = order
                        return r
                    t.create_order_replacement = noting
                    self.trade_order.append(t)
                t = self.trades.get(tkey)
                if t is None:
                    return "no-such-trade"      # the update that created it was filtered out by the listener (C14 scenarios)
                if kind == "L":
                    otype = ot.LimitOrder(price=price, size=size, persistence_type=pers, time_in_force="FILL_OR_KILL" if fok else None,
                                          min_fill_size=minfill, price_ladder_definition={"C": "CLASSIC", "F": "FINEST", "L": "LINE_RANGE"}[ladder])
                elif kind == "LOC":
                    otype = ot.LimitOnCloseOrder(liability=liab, price=price)
                else:
                    otype = ot.MarketOnCloseOrder(liability=liab)
                o = t.create_order(side, otype)
                o._vidx = len(self.orders)
                self.orders.append(o)
                self._last_order = o
                return "created"
            if k == "bbegin":
                if state.get("t") is not None:
                    # a script that opens a block while one is open leaves the first one first (as nested `with` blocks would
                    # on the way out; the model does the same)
                    state.pop("t").__exit__(None, None, None)
                state["t"] = market.transaction(client=self.clients[a[1]])
                state["t"].__enter__()
                return "begin"
            if k == "bexec":
                if state.get("t") is None:
                    return "no-batch"
                state["t"].execute()
                return "executed"
            if k == "bend":
                if state.get("t") is None:
                    return "no-batch"
                t = state.pop("t")
                t.__exit__(None, None, None)
                return "end"
            tg = a[1]
            try:
                o = self.orders[int(tg[1:])] if tg[0] == "o" else self.trades[int(tg[1:])].orders[-1]
            except (IndexError, KeyError):
                return "no-such-order"
            self._last_order = o
            self._last_error = None
            if o.market_id != market.market_id:
                self.foreign += 1
            t = state.get("t")
            if k == "place":
                r = (t.place_order(o, a[2], True, a[3]) if t else market.place_order(o, market_version=a[2], force=a[3]))
            elif k == "cancel":
                r = (t.cancel_order(o, a[2], a[3]) if t else market.cancel_order(o, a[2], a[3]))
            elif k == "update":
                r = (t.update_order(o, a[2], force=a[3]) if t else market.update_order(o, a[2], force=a[3]))
            elif k == "replace":
                r = (t.replace_order(o, a[2], a[3], a[4]) if t else market.replace_order(o, a[2], a[3], a[4]))
            else:
                raise ValueError(a)
            if r:
                return "True"
            return "False:" + refusal_code(o, self._last_error)
        except (OrderError, OrderUpdateError) as e:
            msg = str(e)
            for frag, code in EXC_CODES:
                if frag in msg:
                    return "EXC:" + code
            return "EXC:" + type(e).__name__ + ":" + msg[:40]

    # ---- run
    def run(self):
        common.use_repo()
        from flumine import FlumineSimulation, BaseStrategy, clients, config
        from flumine.order import trade as trade_mod
        import bflw_build as bb

        sc = self.sc
        tmp = tempfile.mkdtemp(prefix="vsim", dir="/var/tmp")
        run = self
        saved = {k: getattr(config, k) for k in ("simulated_strategy_isolation", "place_latency", "cancel_latency", "update_latency",
                                                   "replace_latency", "raise_errors", "simulated")}
        orig_repl = trade_mod.Trade.create_order_replacement
        from flumine.controls import BaseControl
        orig_on_error = BaseControl._on_error

        def on_error(control, order, error):
            # the reason of a refusal, as the control words it (an order at the exchange no longer carries it)
            run._last_error = "Order has violated: %s Error: %s" % (control.NAME, error)
            run.control_errors.append((order, str(error)))
            return orig_on_error(control, order, error)

        BaseControl._on_error = on_error
        try:
            config.simulated_strategy_isolation = sc["cfg"]["isolation"]
            config.place_latency = sc["cfg"]["latency"]["place"]
            config.cancel_latency = sc["cfg"]["latency"]["cancel"]
            config.update_latency = sc["cfg"]["latency"]["update"]
            config.replace_latency = sc["cfg"]["latency"]["replace"]
            config.raise_errors = sc.get("raise_errors", True)
            paths = []
            for m in sc["markets"]:
                p = os.path.join(tmp, m["id"])
                lines = [update_mcm(m, u) for u in m["updates"]]
                bb.write_stream(p, lines)
                paths.append(p)
            self.clients = []
            for c in sc["clients"]:
                cl = clients.SimulatedClient(username="c%d" % len(self.clients), best_price_execution=c["bpe"], simulated_full_match=c["full"],
                                             min_bet_validation=c["mbv"], transaction_limit=c["txlimit"], commission_base=c["commission"])
                self.clients.append(cl)
            fw = FlumineSimulation(client=self.clients[0])
            for cl in self.clients[1:]:
                fw.add_client(cl)
            self.framework = fw

            def log_control(event):
                n = type(event).__name__
                if n == "MarketEvent":
                    run.events.append("marketEvent/%d" % market_num(event.event.market_id))
                elif n == "TradeEvent":
                    run.events.append("tradeEvent/%d" % event.event._vidx)
                elif n == "OrderEvent":
                    run.events.append("orderEvent/%d" % event.event._vidx)
                elif n == "ClearedOrdersMetaEvent":
                    run.events.append("clearedOrders/%d/%d" % (market_num(event.event[0].market_id), len(event.event)))
                elif n == "ClearedMarketsEvent":
                    co = event.event.orders[0]
                    run.events.append("clearedMarket/%d/%d/%s/%s/%d" % (market_num(co.market_id), run._cleared_client, num(co.profit), num(co.commission), co.bet_count))
                    run._cleared_client += 1
                elif n == "CloseMarketEvent":
                    run.events.append("closeEvent/%d" % market_num(event.event.market_id))

            fw.log_control = log_control
            self._cleared_client = 0

            def repl(self_trade, order, new_price, size, date_time_created):
                r = orig_repl(self_trade, order, new_price, size, date_time_created)
                r._vidx = len(run.orders)
                run.orders.append(r)
                return r

            trade_mod.Trade.create_order_replacement = repl

            inj = sc.get("inject")
            run.calls = []

            def hit(who, kind, market_id, pt):
                """C13: log the callback invocation; at the injected one either raise or behave as a no-op"""
                run.calls.append((who, kind, market_id, pt))
                if inj and inj["who"] == who and inj["kind"] == kind and inj["market"] == market_id and inj["pt"] == pt:
                    if inj["mode"] == "raise":
                        if inj.get("exc") == "flumine":
                            from flumine.exceptions import FlumineException
                            raise FlumineException("injected by the checker")      # the framework's own exception family: logged, never re-raised
                        raise RuntimeError("injected by the checker")
                    return True
                return False

            class Script(BaseStrategy):
                def check_market_book(self, market, market_book):
                    if hit("s%d" % self.sidx, "check", market.market_id, market_book.publish_time_epoch):
                        return False
                    return True

                def process_new_market(self, market, market_book):
                    if hit("s%d" % self.sidx, "newMarket", market.market_id, market_book.publish_time_epoch):
                        return
                    run.events.append("newMarket/%d/%d" % (self.sidx, market_num(market.market_id)))
                    run.clock_probe("new-market", market_book.publish_time_epoch, created=market.date_time_created)

                def process_market_book(self, market, market_book):
                    pt = market_book.publish_time_epoch
                    if hit("s%d" % self.sidx, "book", market.market_id, pt):
                        return
                    run.events.append("book/%d/%d/%d" % (self.sidx, market_num(market.market_id), pt))
                    if ms(datetime.datetime.utcnow()) != str(pt):
                        run.clock_ok = False
                    acts = run.acts.get((market.market_id, pt), {}).get(str(self.sidx), [])
                    state = {}
                    res = []
                    mid_inj = inj if (inj and inj.get("kind") == "action" and inj["who"] == "s%d" % self.sidx
                                      and inj["market"] == market.market_id and inj["pt"] == pt) else None
                    try:
                        for ai, a in enumerate(acts):
                            if mid_inj and mid_inj["index"] == ai:
                                if mid_inj["mode"] == "raise":
                                    raise RuntimeError("injected inside the callback")
                                break
                            res.append(run.do_action(self.sidx, self, market, a, state))
                    except RuntimeError as e:
                        # what `with market.transaction() as t:` does when its body raises
                        if state.get("t") is not None:
                            state.pop("t").__exit__(type(e), e, e.__traceback__)
                        run.results.append((self.sidx, res))
                        raise
                    if state.get("t") is not None:
                        state["t"].__exit__(None, None, None)
                    run.results.append((self.sidx, res))
                    h = run.hooks.get("in_callback")
                    if h:
                        h(run, self, market, market_book)

                def process_orders(self, market, orders):
                    if hit("s%d" % self.sidx, "orders", market.market_id, market.market_book.publish_time_epoch):
                        return
                    run.events.append("processOrders/%d/%d/%d" % (self.sidx, market_num(market.market_id), len(orders)))
                    run.clock_probe("orders", market.market_book.publish_time_epoch)

                def process_closed_market(self, market, market_book):
                    if hit("s%d" % self.sidx, "closed", market.market_id, market_book.publish_time_epoch):
                        return
                    run.events.append("closed/%d/%d/%d" % (self.sidx, market_num(market.market_id), market_book.publish_time_epoch))
                    run.clock_probe("closed", market_book.publish_time_epoch, closed=market.date_time_closed if market.closed else None)
                    h = run.hooks.get("in_closed")
                    if h:
                        h(run, self, market, market_book)

            from flumine.markets.middleware import Middleware

            class Probe(Middleware):
                def __init__(self, idx):
                    self.idx = idx

                def __call__(self, market):
                    hit("m%d" % self.idx, "mw", market.market_id, market.market_book.publish_time_epoch)

            for k in range(sc.get("middlewares", 0)):
                fw.add_market_middleware(Probe(k + 1))

            self.acts = {}
            for m in sc["markets"]:
                for u in m["updates"]:
                    if u.get("acts"):
                        self.acts[(m["id"], u["pt"])] = u["acts"]
            self.strategies = []
            for i, s in enumerate(sc["strategies"]):
                mf = {"markets": [paths[mi] for mi in s["markets"]]}
                if sc.get("event_processing"):
                    mf["event_processing"] = True
                if sc.get("event_groups"):
                    mf["event_groups"] = dict(sc["event_groups"])
                if sc.get("listener_kwargs"):
                    mf["listener_kwargs"] = dict(sc["listener_kwargs"])
                st = Script(market_filter=mf, name="s%d" % i, max_order_exposure=s["max_order"], max_selection_exposure=s["max_sel"],
                            max_market_exposure=s["max_market"], max_trade_count=s["max_trade"], max_live_trade_count=s["max_live"],
                            multi_order_trades=s["multi"])
                st.sidx = i
                fw.add_strategy(st)
                self.strategies.append(st)
            orig_pmb = fw._process_market_books

            def pmb(event):
                run.results = []
                run._cleared_client = 0
                orig_pmb(event)
                for mb in event.event:
                    rtxt = ";".join("%d=%s" % (sidx, ",".join(rs) if rs else ".") for sidx, rs in run.results) or "."
                    run.out.append(((mb.market_id, mb.publish_time_epoch), "R %s %s" % (rtxt, run.dump())))
                    if mb.status == "CLOSED":
                        # the settlement inputs every order was given at THIS close (a market may be closed again)
                        for o in run.orders:
                            if o.market_id == mb.market_id:
                                run.settled_with.setdefault(id(o), set()).add((o.number_of_dead_heat_winners or 1, o.runner_status))
                    h = run.hooks.get("after_update")
                    if h:
                        h(run, mb)

            fw._process_market_books = pmb
            hs = self.hooks.get("on_start")
            if hs:
                hs(self)
            try:
                fw.run()
            except Exception as e:  # noqa
                import traceback
                self.crash = "%s: %s" % (type(e).__name__, str(e)[:200])
                self.crash_tb = traceback.format_exc()[-1500:]
            self.real_clock_restored = datetime.datetime is datetime.datetime.__mro__[0] and datetime.datetime.__name__ == "datetime"
        finally:
            he = self.hooks.get("on_end")
            if he:
                he(self)
            trade_mod.Trade.create_order_replacement = orig_repl
            BaseControl._on_error = orig_on_error
            for k, v in saved.items():
                setattr(config, k, v)
            shutil.rmtree(tmp, ignore_errors=True)
        return self


import re
_NUM = re.compile(r"^-?\d+(/\d+)?$")


def tokens_close(a, b, tol=Fraction(2, 10**6)):
    """canonical lines are equal up to `tol` on numeric atoms (unrounded float products such as a
    scaled SP liability are printed by the implementation side after round(x, 6))"""
    if a == b:
        return True
    xs, ys = re.split(r"([ ,:+@;=])", a), re.split(r"([ ,:+@;=])", b)
    if len(xs) != len(ys):
        return False
    for x, y in zip(xs, ys):
        if x == y:
            continue
        if _NUM.match(x) and _NUM.match(y) and abs(Fraction(x) - Fraction(y)) <= tol:
            continue
        return False
    return True


def profit_preimage(o, n=None, status=None):
    """exact value that SimulatedOrder.profit rounds (None when nothing is rounded); `n` / `status` override the settlement
    inputs the order carries now (a market closed more than once was settled on other inputs at the earlier close)"""
    s = o.simulated
    sm, ap = frac(s.size_matched), frac(s.average_price_matched)
    n = n or o.number_of_dead_heat_winners or 1
    side = 1 if o.side == "BACK" else -1
    if status is not None:
        class _O:       # the same order under the other result
            pass
        o2 = _O()
        o2.market_type, o2.each_way_divisor, o2.runner_status = o.market_type, o.each_way_divisor, status
        o = o2
    if o.market_type == "EACH_WAY":
        d = frac(o.each_way_divisor or 1)
        win, place = sm * (ap - 1), sm * ((ap - 1) / d)
        if o.runner_status == "WINNER":
            return win + place
        if o.runner_status == "PLACED":
            return side * (place - sm)
        if o.runner_status == "LOSER":
            return sm * 2
        return None
    if o.runner_status == "WINNER":
        p = (sm / n) * (ap - 1)
        if n == 2:
            p -= sm / n
        elif n > 2:
            p -= sm * (n - 1) / n
        return side * p
    return None


def reduction_tie_possible(sc):
    import simgen
    afs = {frac(r["af"]) for m in sc["markets"] for u in m["updates"] for r in u["runners"] if r.get("status") == "REMOVED" and r.get("af")}
    for af in afs:
        for p in simgen.LADDER + simgen.DEC_LADDER:
            if common.is_tie2(frac(p) * (1 - af / 100)):
                return True
    return False


def tie_explains(sc, a, b, run=None):
    """Are the two canonical lines equal except for penny differences that an exact half-penny tie
    explains?  (float `round` vs exact half-even).  Only two places are accepted:
      * the commission of a cleared-market summary when profit x rate is an exact tie;
      * in decimal (non-dyadic) scenarios, 2dp quantities derived from products of 2dp numbers
        (average prices, profits) - the caller then stops comparing this scenario (tie_truncated)."""
    if run is not None:
        # float noise: a market-on-close liability scaled by a non-dyadic non-runner multiplier (never rounded by the
        # code) that is a 2dp amount in exact arithmetic but not as a double; OrderValidation then refuses it
        for o, msg in [(o, o.violation_msg or "") for o in run.orders] + list(getattr(run, "control_errors", [])):
            liab = getattr(o.order_type, "liability", None)
            if liab is not None and "liability has more than 2dp" in msg and round(liab, 2) != liab \
                    and abs(round(liab, 2) - liab) < 1e-9:
                return True
    if run is not None:
        # an exposure that equals its limit exactly: the control adds an UNROUNDED float product ((price - 1) x size) to rounded
        # figures and compares with `>`; 5.91 - 0.91 is 5.000000000000001 and the order is refused where exact arithmetic
        # accepts it (a refusal at equality is on the safe side of C01). Witness: the control's own message reports a potential
        # exposure that, to the penny, IS the limit
        for o, msg in getattr(run, "control_errors", []):
            m = re.search(r"exposure \((-?[0-9.]+)\) is greater than strategy\.max_\w+ \((-?[0-9.]+)\)", msg or "")
            if m and abs(float(m.group(1)) - float(m.group(2))) < 0.005:
                return True
    if run is not None:
        # a starting-price LAY is sized liability / (sp - 1), rounded to 2dp by the code: at an exact half-penny tie the
        # binary value decides (round(1.425, 2) == 1.43) where exact half-even gives 1.42
        for o in run.orders:
            ot = o.order_type
            if ot.ORDER_TYPE.name in ("MARKET_ON_CLOSE", "LIMIT_ON_CLOSE") and o.side == "LAY" and o.simulated.matched:
                sp = frac(o.simulated.matched[0][1])
                if sp != 1 and common.is_tie2(frac(ot.liability) / (sp - 1)):
                    return True
            # ... and so is the rest of a LIMIT LAY with MARKET_ON_CLOSE persistence: (price - 1) x remaining / (sp - 1)
            if ot.ORDER_TYPE.name == "LIMIT" and o.side == "LAY" and getattr(ot, "persistence_type", None) == "MARKET_ON_CLOSE" \
                    and o.simulated.matched and o.simulated._bsp_reconciled:
                last = o.simulated.matched[-1]
                spx = frac(last[1])
                before = sum((frac(f[2]) for f in o.simulated.matched[:-1]), Fraction(0))
                cands = {frac(ot.size) - before, frac(last[2]) + frac(o.simulated.size_cancelled)}
                cands |= {c + Fraction(k, 100) for c in list(cands) for k in (-1, 1)}
                if spx != 1 and any(common.is_tie2((frac(ot.price) - 1) * c / (spx - 1)) for c in cands if c > 0):
                    return True
    xs, ys = re.split(r"([ ,])", a), re.split(r"([ ,])", b)
    if len(xs) != len(ys):
        return False
    for x, y in zip(xs, ys):
        if x == y or tokens_close(x, y):
            continue
        if x.startswith("clearedMarket/") and y.startswith("clearedMarket/"):
            fx, fy = x.split("/"), y.split("/")
            # clearedMarket/m/c/profit.../commission.../betcount ; fractions contain "/" themselves -> re-parse
            def parse(f):
                vals, i = [], 3
                rest = f[3:]
                nums = []
                j = 0
                while j < len(rest):
                    if j + 1 < len(rest) and re.match(r"^\d+$", rest[j + 1] or "") and len(nums) < 2 and False:
                        pass
                    nums.append(rest[j])
                    j += 1
                return f[1], f[2], rest
            # simple route: numeric atoms of both must be pairwise within 0.0101 and ids equal
            if fx[1:3] != fy[1:3] or fx[-1] != fy[-1]:
                return False
            rate = Fraction(str(sc["clients"][int(fx[2])]["commission"]))
            nt = 0
            if run is not None:
                for o in run.orders:
                    if market_num(o.market_id) == int(fx[1]) and frac(o.simulated.size_matched) > 0:
                        # (every result the market may have been closed with: a market can be closed again with an amended result)
                        pres = [profit_preimage(o)] + [profit_preimage(o, n=k, status=st) for (k, st) in getattr(run, "settled_with", {}).get(id(o), ())]
                        if any(pre is not None and common.is_tie2(pre) for pre in pres):
                            nt += 1
            prof_ok = com_ok = False
            for (pa, ca) in _fracs(fx[3:-1]):
                for (pb, cb) in _fracs(fy[3:-1]):
                    p_ok = pa == pb or abs(pa - pb) <= Fraction(nt, 100)
                    c_ok = ca == cb or (abs(ca - cb) <= Fraction(1, 100) and (common.is_tie2(pa * rate) or common.is_tie2(pb * rate))) \
                        or (pa != pb and abs(ca - cb) <= Fraction(1, 100))
                    if p_ok and c_ok:
                        prof_ok = com_ok = True
            if prof_ok and com_ok:
                continue
            return False
        fx, fy = x.split(":"), y.split(":")
        if len(fx) == len(fy) == 22 and fx[0] == fy[0] and all(
                p == q or tokens_close(p, q) for i, (p, q) in enumerate(zip(fx, fy)) if i not in (6, 13)) \
                and tokens_close(fx[6], fy[6], Fraction(101, 10000)) and reduction_tie_possible(sc):
            return True     # a reduced fragment price at an exact half-penny tie (p x (1 - af/100))
        if run is not None and len(fx) == len(fy) == 22 and fx[0] == fy[0] and all(
                p == q or tokens_close(p, q) for i, (p, q) in enumerate(zip(fx, fy)) if i != 6):
            # an order whose only difference is the average price: accept a penny at an exact tie
            o = run.orders[int(fx[0])]
            a_ = sum(frac(p) * frac(z) for _, p, z in o.simulated.matched)
            b_ = sum(frac(z) for _, p, z in o.simulated.matched)
            if b_ and common.is_tie2(a_ / b_) and tokens_close(fx[6], fy[6], Fraction(101, 10000)):
                return True     # later items (profit computed from the average ...) may differ as a consequence
        return False
    return True


def _fracs(parts):
    """['12059','100','603','100'] or ['49','10','6','25'] or ['5','1','4'] -> candidate (profit, commission) pairs;
    integers appear as a single atom, so the split is ambiguous: all readings are returned"""
    out = []
    for k in (1, 2):
        a, b = parts[:k], parts[k:]
        if len(b) in (1, 2) and all(re.match(r"^-?\d+$", t) for t in a + b):
            try:
                out.append((Fraction("/".join(a)), Fraction("/".join(b))))
            except (ValueError, ZeroDivisionError):
                continue
    return out


def penny_close(a, b):
    xs, ys = re.split(r"([ ,:+@;=])", a), re.split(r"([ ,:+@;=])", b)
    if len(xs) != len(ys):
        return False
    ndiff = 0
    for x, y in zip(xs, ys):
        if x == y:
            continue
        if _NUM.match(x) and _NUM.match(y):
            fx, fy = Fraction(x), Fraction(y)
            if abs(fx - fy) <= Fraction(101, 10000) + abs(fx) * Fraction(1, 100):
                ndiff += 1
                continue
        return False
    return ndiff <= 12


def compare(sc):
    """run both sides; returns dict(ok, first_diff, n_updates, crash, impl_lines, model_lines)"""
    lines, expect = model_lines(sc)
    model = [l for l in common.run_driver(lines, strict=False) if l != ""]
    # driver prints one line per w.book only
    r = Run(sc).run()
    impl = [l for _, l in r.out]
    res = {"crash": r.crash, "n": len(expect), "impl": impl, "model": model, "ok": True, "first_diff": None, "run": r, "tie": False,
           "penny": False}
    for i, (a, b) in enumerate(zip(model, impl)):
        if not tokens_close(a, b):
            if tie_explains(sc, a, b, r):
                res["tie"] = True      # stop comparing this scenario: later state may legitimately differ by the penny
                return res
            if penny_close(a, b):
                # same structure, every number within a penny (relative for big numbers): what an exact half-penny tie
                # in traded/2, an SP size, a reduced price or a profit produces.  Accepted only within a small budget of
                # scenarios (the caller checks the rate), so a systematic rounding change is still reported.
                res["penny"] = True
                return res
            res["ok"] = False
            res["first_diff"] = i
            break
    if r.crash:
        res["crash_sig"] = crash_signature(r)
    if res["ok"] and len(model) != len(impl) and not r.crash:
        res["ok"] = False
        res["first_diff"] = min(len(model), len(impl))
    return res


def crash_signature(r):
    """where the real simulation died: exception type @ innermost flumine frames"""
    frames = re.findall(r'File "[^"]*/flumine/([^"]+)", line \d+, in (\w+)', getattr(r, "crash_tb", "") or "")
    tail = "<-".join("%s:%s" % (f.split("/")[-1], fn) for f, fn in frames[-2:][::-1])
    return "%s@%s" % ((r.crash or "").split(":")[0], tail)


def diff_fields(a, b):
    """human-readable difference of two canonical lines"""
    out = []
    ta, tb = a.split(" "), b.split(" ")
    for i, (x, y) in enumerate(zip(ta, tb)):
        if x != y:
            xs, ys = x.split(","), y.split(",")
            for j, (p, q) in enumerate(zip(xs, ys)):
                if p != q:
                    out.append("token %d (%s) item %d: model=%s impl=%s" % (i, ta[i - 1] if i else "", j, p, q))
            if len(xs) != len(ys):
                out.append("token %d (%s): model has %d items, impl %d" % (i, ta[i - 1] if i else "", len(xs), len(ys)))
    if len(ta) != len(tb):
        out.append("token count %d vs %d" % (len(ta), len(tb)))
    return out[:6]
