"""./check Cnn --tier quick|thorough [--replay file]

Orchestrates one property check (DESIGN.md 2.4): regenerate constants, build the Lean
model driver and the property's theorems, audit axioms, run the correspondence between
the model driver and the real implementation, run the independent oracle on the
implementation, handle known findings, write the evidence file, print VIOLATION lines.
Exit 0 = held on everything explored, 1 = violation, 2 = internal error.
"""
import argparse
import fcntl
import importlib
import json
import os
import re
import subprocess
import sys
import time
import traceback

HERE = os.path.dirname(os.path.abspath(__file__))
sys.path.insert(0, HERE)
import common  # noqa: E402

VERIF = common.VERIF
LEAN = common.LEAN_DIR
ALLOWED_AXIOMS = {"propext", "Classical.choice", "Quot.sound"}
FORBIDDEN = re.compile(r"\bsorry\b|\badmit\b|^\s*axiom\s|native_decide|bv_decide|implemented_by|\bunsafe\s|maxHeartbeats\s+0\b")


def sh(cmd, cwd=None, timeout=None):
    p = subprocess.run(cmd, cwd=cwd, stdout=subprocess.PIPE, stderr=subprocess.STDOUT, timeout=timeout)
    return p.returncode, p.stdout.decode(errors="replace")


class Lock:
    def __init__(self, path):
        self.path = path

    def __enter__(self):
        self.f = open(self.path, "w")
        fcntl.flock(self.f, fcntl.LOCK_EX)

    def __exit__(self, *a):
        fcntl.flock(self.f, fcntl.LOCK_UN)
        self.f.close()


def strip_comments(text):
    # remove /- ... -/ (nested not handled beyond one level) and -- comments
    out, i, depth = [], 0, 0
    while i < len(text):
        if text.startswith("/-", i):
            depth += 1
            i += 2
        elif text.startswith("-/", i) and depth:
            depth -= 1
            i += 2
        elif depth:
            if text[i] == "\n":
                out.append("\n")
            i += 1
        elif text.startswith("--", i):
            while i < len(text) and text[i] != "\n":
                i += 1
        else:
            out.append(text[i])
            i += 1
    return "".join(out)


def grep_forbidden():
    hits = []
    for root, _, files in os.walk(LEAN):
        if ".lake" in root:
            continue
        for fn in files:
            if fn.endswith(".lean"):
                p = os.path.join(root, fn)
                with open(p) as f:
                    txt = strip_comments(f.read())
                for n, line in enumerate(txt.split("\n"), 1):
                    if FORBIDDEN.search(line):
                        hits.append("%s:%d: %s" % (os.path.relpath(p, VERIF), n, line.strip()[:120]))
    return hits


def modules_of(prop):
    """Props/Cnn.lean and its companions Props/Cnn_*.lean (theorems that need lemma layers which themselves import Cnn.lean)"""
    import glob
    d = os.path.join(LEAN, "Flumine", "Props")
    files = [os.path.join(d, prop + ".lean")] + sorted(glob.glob(os.path.join(d, prop + "_*.lean")))
    return [os.path.splitext(os.path.basename(f))[0] for f in files if os.path.exists(f)]


def theorems_of(prop):
    names = []
    for mod in modules_of(prop):
        with open(os.path.join(LEAN, "Flumine", "Props", mod + ".lean")) as f:
            txt = strip_comments(f.read())
        ns = re.search(r"^namespace\s+(\S+)", txt, re.M)
        prefix = (ns.group(1) + ".") if ns else ""
        names += [prefix + m for m in re.findall(r"^\s*(?:protected\s+)?theorem\s+([^\s:({\[]+)", txt, re.M)]
    return names


def build_and_audit(prop, thorough):
    """returns dict(model_ok, proofs_ok, log, theorems, audited{name:[axioms]}, bad_axioms, forbidden)"""
    info = {"model_ok": False, "proofs_ok": False, "log": "", "theorems": [], "audited": {}, "bad": [],
            "forbidden": [], "leanchecker": None, "extract_problems": []}
    with Lock(os.path.join(LEAN, ".build.lock")):
        rc, out = sh([sys.executable, os.path.join(HERE, "extract_constants.py")],
                     cwd=VERIF, timeout=300)
        info["extract_problems"] = [l for l in out.split("\n") if l.startswith("EXTRACT-PROBLEM")]
        if rc != 0:
            info["log"] += "extract_constants failed:\n" + out[-3000:]
            info["extract_problems"].append("extractor crashed: " + out.strip().split("\n")[-1][:300])
        rc, out = sh(["lake", "build", "driver"], cwd=LEAN, timeout=1800)
        info["model_ok"] = rc == 0
        if rc != 0:
            info["log"] += "model/driver build failed:\n" + out[-4000:]
        mods = ["Flumine.Props." + m for m in modules_of(prop)] or ["Flumine.Props." + prop]
        rc, out = sh(["lake", "build"] + mods, cwd=LEAN, timeout=3000)
        info["proofs_ok"] = rc == 0
        if rc != 0:
            info["log"] += "proof build failed:\n" + out[-6000:]
        info["theorems"] = theorems_of(prop)
        if info["proofs_ok"] and info["theorems"]:
            audit = os.path.join(LEAN, ".lake", "audit_%s.lean" % prop)
            with open(audit, "w") as f:
                for m in mods:
                    f.write("import %s\n" % m)
                for t in info["theorems"]:
                    f.write("#print axioms %s\n" % t)
            rc, out = sh(["lake", "env", "lean", audit], cwd=LEAN, timeout=1200)
            cur = None
            text = out.replace("\n  ", " ")
            for m in re.finditer(r"'([^']+)' (depends on axioms: \[([^\]]*)\]|does not depend on any axioms)", text):
                name = m.group(1)
                axs = [a.strip() for a in (m.group(3) or "").split(",") if a.strip()]
                info["audited"][name] = axs
            for t in info["theorems"]:
                if t not in info["audited"]:
                    info["bad"].append("%s: no axiom report (%s)" % (t, out.strip()[-200:]))
                else:
                    extra = [a for a in info["audited"][t] if a not in ALLOWED_AXIOMS]
                    if extra:
                        info["bad"].append("%s depends on %s" % (t, extra))
            if thorough:
                rc, out = sh(["lake", "env", "leanchecker"] + mods, cwd=LEAN, timeout=3000)
                info["leanchecker"] = "ok" if rc == 0 else "FAILED: " + out[-500:]
                if rc != 0:
                    info["bad"].append("leanchecker rejected Flumine.Props." + prop)
    info["forbidden"] = grep_forbidden()
    return info


def load_known():
    p = os.path.join(VERIF, "known_findings.json")
    if not os.path.exists(p):
        return []
    with open(p) as f:
        return json.load(f).get("findings", [])


def write_replay(prop, payload):
    d = os.path.join(VERIF, "replays")
    os.makedirs(d, exist_ok=True)
    path = os.path.join(d, "%s-%s.json" % (prop, common.stable_hash(payload)))
    with open(path, "w") as f:
        json.dump(payload, f, indent=1, default=str)
    return path


def main():
    ap = argparse.ArgumentParser()
    ap.add_argument("prop")
    ap.add_argument("--tier", default=os.environ.get("VERIF_TIER", "quick"))
    ap.add_argument("--replay")
    args = ap.parse_args()
    prop = args.prop
    tier = args.tier if args.tier in ("quick", "thorough") else "quick"
    seed = int(os.environ.get("VERIF_SEED", "0") or 0)
    t0 = time.time()
    mod = importlib.import_module("props." + prop)

    if args.replay:
        with open(args.replay) as f:
            payload = json.load(f)
        build_and_audit(prop, False)
        rc = mod.replay(payload)
        sys.exit(rc)

    info = build_and_audit(prop, tier == "thorough")
    proof_broken = []
    if not info["proofs_ok"]:
        errs = re.findall(r"error: ([^\n]*)", info["log"])
        proof_broken.append("lake build Flumine.Props.%s failed: %s" % (prop, "; ".join(errs[:4])[:600]))
    proof_broken += info["bad"]
    proof_broken += ["forbidden token: " + h for h in info["forbidden"]]
    proof_broken += info["extract_problems"]
    model_broken = not info["model_ok"]

    # correspondence + oracle
    res = common.Result()
    crashed = None
    try:
        mod.run(res, tier=tier, seed=seed, model_ok=not model_broken,
                search=bool(proof_broken or model_broken))
    except Exception:
        crashed = traceback.format_exc()
    # the correspondence broke but the oracle saw no failing input yet: search the implementation harder
    # (thorough-size exploration with other seeds) before reporting "no-failing-input-found"
    if res.disagreements and not res.violations and not crashed and not (proof_broken or model_broken):
        res2 = common.Result()
        try:
            mod.run(res2, tier=tier, seed=seed + 7919, model_ok=not model_broken, search=True)
            res.violations += res2.violations
            res.extra["failing_input_search"] = {"evaluations": res2.evaluations, "oracle_violations": len(res2.violations)}
            for k, v in res2.known_hits.items():
                res.known_hits[k] += v
        except Exception:
            res.notes.append("failing-input search crashed: " + traceback.format_exc()[-300:])

    known = [k for k in load_known() if k.get("property") == prop]
    known_sigs = {k["signature"]: k for k in known if k.get("status") == "known"}
    lines = []
    exit_code = 0
    new_violations = []
    seen_known = {}
    for v in res.violations:
        if v["signature"] in known_sigs:
            seen_known[v["signature"]] = known_sigs[v["signature"]]
        else:
            new_violations.append(v)
    for sig in res.known_hits:
        if sig in known_sigs:
            seen_known[sig] = known_sigs[sig]
    for sig, k in sorted(seen_known.items()):
        lines.append("KNOWN-FINDING: property=%s %s [%s]" % (prop, k["what"], sig))

    reported = set()
    for v in new_violations:
        if v["signature"] in reported:
            continue
        reported.add(v["signature"])
        path = write_replay(prop, {"property": prop, "kind": "failing-input", "signature": v["signature"],
                                   "what": v["what"], "replay": v["replay"], "seed": seed, "tier": tier})
        lines.append("VIOLATION property=%s replay=%s" % (prop, os.path.relpath(path, VERIF)))
        exit_code = 1
    broken = []
    if proof_broken:
        broken.append({"kind": "proof", "detail": proof_broken})
    if model_broken:
        broken.append({"kind": "model-build", "detail": info["log"][-2000:]})
    if res.disagreements:
        broken.append({"kind": "correspondence", "detail": res.disagreements[:10]})
    if broken and not new_violations:
        path = write_replay(prop, {"property": prop, "kind": "no-failing-input-found",
                                   "no_longer_checks": broken, "seed": seed, "tier": tier,
                                   "note": "theorem / correspondence stream that no longer checks; the oracle search on the implementation found no failing input"})
        lines.append("VIOLATION property=%s replay=%s no-failing-input-found" % (prop, os.path.relpath(path, VERIF)))
        exit_code = 1
    if crashed:
        print(crashed, file=sys.stderr)
        lines.append("INTERNAL-ERROR property=%s harness crashed (see stderr)" % prop)
        if exit_code == 0:
            exit_code = 2

    theorems = info["theorems"]
    discharged = [t for t in theorems if t in info["audited"]
                  and all(a in ALLOWED_AXIOMS for a in info["audited"][t])] if info["proofs_ok"] else []
    meta = getattr(mod, "META", {})
    evidence = {
        "property_id": prop,
        "tier": tier,
        "seed": seed,
        "level": "proof",
        "coverage": {
            "obligations": max(len(theorems), 1),
            "discharged": len(discharged),
            "checker_cmd": "cd lean && lake build Flumine.Props.%s && lake env lean .lake/audit_%s.lean  (#print axioms)%s" % (
                prop, prop, " && lake env leanchecker Flumine.Props.%s" % prop if tier == "thorough" else ""),
            "trusted_base": meta.get("trusted_base", []) + [
                "Lean 4.33 kernel; axioms allowed: propext, Classical.choice, Quot.sound",
                "hand-written Lean model validated against the implementation by the correspondence run below",
                "harness/extract_constants.py (reads constants from the working tree)",
            ],
            "theorems": theorems,
            "axioms": info["audited"],
            "partial_theorems": [t for t in theorems if t.endswith("_partial")],
            "leanchecker": info["leanchecker"],
            "evaluations": res.evaluations,
            "distinct_nontrivial": len(res.nontrivial),
            "rule": res.rule,
            "samples": res.samples[:5] or ["(none)"],
            "correspondence": {
                "evaluations": res.evaluations,
                "distinct_nontrivial": len(res.nontrivial),
                "disagreements": len(res.disagreements),
                "tie_truncated": res.tie_truncated,
                "distribution": dict(res.distribution.most_common(60)),
            },
            "oracle_violations": len(res.violations),
            "known_findings_seen": sorted(seen_known),
            "runtime_observations": res.runtime_observations,
            "notes": res.notes,
            **res.extra,
        },
        "assumptions": meta.get("assumptions", []),
        "wall_s": round(time.time() - t0, 2),
        "violations": len(reported) + (1 if (broken and not new_violations) else 0),
    }
    os.makedirs(os.path.join(VERIF, "evidence"), exist_ok=True)
    with open(os.path.join(VERIF, "evidence", prop + ".json"), "w") as f:
        json.dump(evidence, f, indent=1, default=str)
    for l in lines:
        print(l)
    print("%s tier=%s seed=%d theorems=%d/%d correspondence=%d (nontrivial %d, disagreements %d) oracle_violations=%d wall=%.1fs exit=%d" % (
        prop, tier, seed, len(discharged), len(theorems), res.evaluations, len(res.nontrivial),
        len(res.disagreements), len(res.violations), time.time() - t0, exit_code))
    sys.exit(exit_code)


if __name__ == "__main__":
    main()
