"""Hand-built scenarios for specific interleavings (run before the random ones): the shapes of the
repaired defects (regression), of the recorded findings, and of timing windows that random
generation reaches rarely.  Each returns a scenario dict for simworld."""
import copy

T0 = 1_700_000_000_000


def runner(rid, status="ACTIVE", af=20.0, atb=(), atl=(), trd=(), sp=None):
    return {"id": rid, "hc": 0, "status": status, "af": af, "sp": sp, "atb": [list(x) for x in atb], "atl": [list(x) for x in atl],
            "trd": [list(x) for x in trd]}


def update(pt, runners, status="OPEN", version=1, inplay=False, bsp_rec=False, bet_delay=0, acts=None):
    return {"pt": pt, "status": status, "version": version, "inplay": inplay, "bsp_rec": bsp_rec, "bsp_market": True,
            "bet_delay": bet_delay, "runners": runners, "acts": acts or {}}


def scenario(markets, strategies=1, isolation=True, clients=None, event_processing=False, **skw):
    st = {"markets": list(range(len(markets))), "max_order": 1000, "max_sel": 10000, "max_market": None, "max_trade": 1000000, "max_live": 50,
          "multi": True}
    st.update(skw)
    return {"cfg": {"isolation": isolation, "latency": {"place": 0.12, "cancel": 0.17, "update": 0.15, "replace": 0.28}},
            "event_processing": event_processing, "dyadic": True,
            "clients": clients or [{"bpe": True, "full": False, "mbv": True, "txlimit": None, "commission": 0.05}],
            "strategies": [copy.deepcopy(st) for _ in range(strategies)], "markets": markets}


def market(mnum, updates, mtype="WIN", event="100", winners=1):
    return {"id": "1.%d" % mnum, "event": event, "type": mtype, "winners": winners, "ew": None, "updates": updates}


def create(okey, tkey, sel, side, price, size, new=True, kind="L", pers="LAPSE", liab=0, fok=False, minfill=None, prs=0, rs=0):
    return ["create", okey, tkey, new, sel, 0, side, kind, price, size, liab, pers, fok, minfill, "C", prs, rs]


BOOK = dict(atb=[(2.0, 50.0), (1.75, 50.0)], atl=[(2.5, 50.0), (3.0, 2.0)])


def two(**kw1):
    r1 = runner(1, **{**BOOK, **kw1})
    r2 = runner(2, **BOOK)
    return [r1, r2]


def f4_cancel_failure_after_lapse():
    """order rests; cancel requested; market suspends (version change, LAPSE) before the cancel latency has elapsed: the
    order lapses and completes; the late cancel fails on the suspended book (ERROR_IN_ORDER) and must not re-open it"""
    ups = [
        update(T0, two(), acts={"0": [create(0, 0, 1, "BACK", 3.0, 10.0), ["place", "t0", None, False]]}),
        update(T0 + 200, two()),
        update(T0 + 400, two(), acts={"0": [["cancel", "t0", None, False]]}),
        update(T0 + 500, two(atb=[], atl=[]), status="SUSPENDED", version=2),
        update(T0 + 700, two(atb=[], atl=[]), status="SUSPENDED", version=2),
        update(T0 + 1700, two(), version=3),
        update(T0 + 2700, two(), version=3),
    ]
    return scenario([market(101, ups)])


def f4_update_failure_after_fill():
    """update requested; the order is fully matched by traded volume within the update latency; the market is then
    suspended so that the update fails: the completed order must stay complete (and a later replace must be refused)"""
    ups = [
        update(T0, two(), acts={"0": [create(0, 0, 1, "BACK", 3.0, 4.0), ["place", "t0", None, False]]}),
        update(T0 + 200, two()),
        update(T0 + 300, two(), acts={"0": [["update", "t0", "PERSIST", False]]}),
        update(T0 + 400, two(trd=[(3.0, 40.0)])),
        update(T0 + 440, two(atb=[], atl=[], trd=[(3.0, 40.0)]), status="SUSPENDED", version=2),
        update(T0 + 600, two(atb=[], atl=[], trd=[(3.0, 40.0)]), status="SUSPENDED", version=2,
               acts={"0": [["replace", "t0", 3.5, None, False]]}),
        update(T0 + 1600, two(trd=[(3.0, 40.0)]), version=3),
        update(T0 + 2600, two(trd=[(3.0, 40.0)]), version=3),
    ]
    return scenario([market(101, ups)])


def f5_void_after_partial_cancel():
    """partial cancel, then the runner is removed: nothing may remain (and the order completes)"""
    ups = [
        update(T0, two(), acts={"0": [create(0, 0, 1, "BACK", 3.0, 10.0), ["place", "t0", None, False]]}),
        update(T0 + 200, two(), acts={"0": [["cancel", "t0", 4.0, False]]}),
        update(T0 + 500, two()),
        update(T0 + 700, [runner(1, status="REMOVED", af=20.0), runner(2, **BOOK)], version=2),
        update(T0 + 900, [runner(1, status="REMOVED", af=20.0), runner(2, **BOOK)], version=2),
    ]
    return scenario([market(101, ups)])


def f11_sp_order_on_removed_runner():
    ups = [
        update(T0, two(), acts={"0": [create(0, 0, 1, "LAY", 0, 0, kind="MOC", liab=20.0), ["place", "t0", None, False],
                                      create(1, 1, 2, "LAY", 0, 0, kind="MOC", liab=30.0), ["place", "t1", None, False],
                                      create(2, 2, 1, "BACK", 5.0, 0, kind="LOC", liab=12.0), ["place", "t2", None, False]]}),
        update(T0 + 200, two()),
        update(T0 + 700, [runner(1, status="REMOVED", af=20.0), runner(2, **BOOK)], version=2),
        update(T0 + 900, [runner(1, status="REMOVED", af=20.0), runner(2, **BOOK)], version=2,
               acts={"0": [create(3, 3, 2, "BACK", 2.0, 5.0), ["place", "t3", None, False]]}),
        update(T0 + 1900, [runner(1, status="REMOVED", af=20.0), runner(2, **BOOK)], version=2),
    ]
    return scenario([market(101, ups)])


def f6_same_removal_in_two_markets(event_processing=False):
    def mk(mnum, t):
        return market(mnum, [
            update(t, two(), acts={"0": [create(0, mnum, 2, "BACK", 2.0, 10.0), ["place", "t%d" % mnum, None, False],
                                         create(1, mnum + 50, 1, "BACK", 3.0, 6.0), ["place", "t%d" % (mnum + 50), None, False]]}),
            update(t + 200, two()),
            update(t + 700, [runner(1, status="REMOVED", af=20.0), runner(2, **BOOK)], version=2),
            update(t + 900, [runner(1, status="REMOVED", af=20.0), runner(2, **BOOK)], version=2),
            update(t + 5000, [runner(1, status="REMOVED", af=20.0), runner(2, status="WINNER")], status="CLOSED", version=3),
        ])
    if event_processing:
        return scenario([mk(101, T0), mk(102, T0 + 50)], event_processing=True)
    return scenario([mk(101, T0), mk(102, T0 + 100_000)])


def f15_replace_with_failed_replacement():
    """replace whose cancel succeeds and whose re-placement fails (package market version no longer current)"""
    ups = [
        update(T0, two(), acts={"0": [create(0, 0, 1, "BACK", 3.0, 10.0), ["place", "t0", None, False]]}),
        update(T0 + 200, two()),
        update(T0 + 300, two(), acts={"0": [["replace", "t0", 3.5, 1, False]]}),
        update(T0 + 400, two(), version=2),
        update(T0 + 700, two(), version=2),
        update(T0 + 1700, two(), version=2, acts={"0": [create(1, 1, 1, "BACK", 3.0, 2.0), ["place", "t1", None, False]]}),
        update(T0 + 2700, two(), version=2),
    ]
    return scenario([market(101, ups)], max_live=1, multi=False)


def f3_place_twice():
    ups = [
        update(T0, two(), acts={"0": [create(0, 0, 1, "BACK", 3.0, 10.0), ["place", "t0", None, False]]}),
        update(T0 + 200, two(), acts={"0": [["place", "t0", None, False]]}),
        update(T0 + 500, two(), acts={"0": [["place", "t0", None, True]]}),
        update(T0 + 900, two()),
    ]
    return scenario([market(101, ups)])


def f2_refused_cancel():
    """a cancel refused by the transaction-count control on an acknowledged order (known finding F2)"""
    ups = [
        update(T0, two(), acts={"0": [create(0, 0, 1, "LAY", 1.75, 10.0), ["place", "t0", None, False]]}),
        update(T0 + 200, two()),
        update(T0 + 400, two(), acts={"0": [["cancel", "t0", None, False]]}),
        update(T0 + 900, two()),
    ]
    return scenario([market(101, ups)], clients=[{"bpe": True, "full": False, "mbv": True, "txlimit": 0, "commission": 0.05}])


def completes_during_cancel_latency():
    """two resting orders on different runners filled by one update while a cancel is in flight (C04-m2 / C15-m2 shape)"""
    ups = [
        update(T0, two(), acts={"0": [create(0, 0, 1, "BACK", 3.0, 4.0), ["place", "t0", None, False],
                                      create(1, 1, 2, "BACK", 3.0, 4.0), ["place", "t1", None, False]]}),
        update(T0 + 200, two()),
        update(T0 + 300, two(), acts={"0": [["cancel", "t0", None, False]]}),
        update(T0 + 400, [runner(1, **BOOK, trd=[(3.0, 40.0)]), runner(2, **BOOK, trd=[(3.0, 40.0)])]),
        update(T0 + 450, [runner(1, **BOOK, trd=[(3.0, 40.0)]), runner(2, **BOOK, trd=[(3.0, 40.0)])]),
        update(T0 + 1400, [runner(1, **BOOK, trd=[(3.0, 40.0)]), runner(2, **BOOK, trd=[(3.0, 40.0)])]),
    ]
    return scenario([market(101, ups)])


def trade_reuse_after_complete():
    """trade A's only order completes, a second order is placed on the same trade, then another trade is placed with
    max_live_trade_count = 1 (C10-m1 shape)"""
    ups = [
        update(T0, two(), acts={"0": [create(0, 0, 1, "BACK", 2.0, 4.0), ["place", "t0", None, False]]}),
        update(T0 + 200, two()),
        update(T0 + 400, two(), acts={"0": [create(1, 0, 1, "LAY", 1.75, 4.0, new=False), ["place", "t0", None, False]]}),
        update(T0 + 700, two()),
        update(T0 + 900, two(), acts={"0": [create(2, 1, 1, "BACK", 3.0, 2.0), ["place", "t1", None, False]]}),
        update(T0 + 1400, two()),
    ]
    return scenario([market(101, ups)], max_live=1, multi=False)


def second_order_within_place_latency():
    """multi-order trade: second order placed within the place latency of the first, the first completes while the second
    is still pending; then another trade (C10-m2 shape)"""
    ups = [
        update(T0, two(), acts={"0": [create(0, 0, 1, "BACK", 2.0, 4.0), ["place", "t0", None, False]]}),
        update(T0 + 50, two(), acts={"0": [create(1, 0, 1, "BACK", 3.0, 4.0, new=False), ["place", "t0", None, False]]}),
        update(T0 + 130, two(), acts={"0": [create(2, 1, 1, "BACK", 3.0, 2.0), ["place", "t1", None, False]]}),
        update(T0 + 400, two()),
        update(T0 + 900, two()),
    ]
    return scenario([market(101, ups)], max_live=1, multi=True)


def replace_after_inplay_bet_delay():
    """replace on a market with a bet delay, an update inside the (latency, latency + bet delay] window (C07-m2 shape)"""
    ip = dict(inplay=True, bsp_rec=False, bet_delay=5, version=2)
    ups = [
        update(T0, two(), acts={"0": [create(0, 0, 1, "BACK", 3.0, 10.0, pers="PERSIST"), ["place", "t0", None, False]]}),
        update(T0 + 200, two()),
        update(T0 + 1000, two(), **ip),
        update(T0 + 2000, two(), acts={"0": [["replace", "t0", 3.5, None, False]]}, **ip),
        update(T0 + 3000, two(trd=[(3.0, 4.0)]), **ip),
        update(T0 + 6000, two(trd=[(3.0, 4.0)]), **ip),
        update(T0 + 7500, two(trd=[(3.0, 4.0)]), **ip),
        update(T0 + 9000, two(trd=[(3.0, 4.0)]), **ip),
    ]
    return scenario([market(101, ups)])


def cancel_then_place_mixed_delays():
    """a cancel and a place pending at once, next update 150 ms later: between the two latencies (C07-m1 shape)"""
    ups = [
        update(T0, two(), acts={"0": [create(0, 0, 1, "BACK", 3.0, 10.0), ["place", "t0", None, False]]}),
        update(T0 + 200, two()),
        update(T0 + 2000, two(), acts={"0": [["cancel", "t0", None, False], create(1, 1, 2, "BACK", 3.0, 5.0), ["place", "t1", None, False]]}),
        update(T0 + 2150, two()),
        update(T0 + 2300, two()),
        update(T0 + 3000, two()),
    ]
    return scenario([market(101, ups)])

def f24_place_the_closed_replacement():
    """the replacement order of a replace whose re-placement failed stays in trade.orders (complete, size lapsed, never in the
    blotter); the strategy then places trade.orders[-1] - must be refused, not matched a second time"""
    ups = [
        update(T0, two(), acts={"0": [create(0, 0, 1, "BACK", 3.0, 10.0), ["place", "t0", None, False]]}),
        update(T0 + 200, two()),
        update(T0 + 300, two(), acts={"0": [["replace", "t0", 3.5, 1, False]]}),
        update(T0 + 400, two(), version=2),
        update(T0 + 700, two(), version=2),
        update(T0 + 1700, two(), version=2, acts={"0": [["place", "t0", None, False]]}),
        update(T0 + 2700, two(), version=2, acts={"0": [["place", "t0", 2, True]]}),
        update(T0 + 3700, two(), version=2),
    ]
    return scenario([market(101, ups)], max_live=5, multi=True)


def f23_replace_package_with_a_completed_order():
    """two orders replaced in one package; the first is fully matched while the request waits out its latency: it has no
    instruction, the second must still be replaced (and only one instruction is counted)"""
    r1 = runner(1, atb=[(2.0, 50.0)], atl=[(2.5, 50.0)])
    r1b = runner(1, atb=[(2.0, 50.0)], atl=[(2.5, 50.0)], trd=[(3.0, 20.0)])
    r2 = runner(2, atb=[(4.0, 50.0)], atl=[(5.0, 50.0)])
    ups = [
        update(T0, [r1, r2], acts={"0": [create(0, 0, 1, "BACK", 3.0, 4.0), ["place", "t0", None, False],
                                           create(1, 1, 1, "BACK", 3.0, 50.0), ["place", "t1", None, False]]}),
        update(T0 + 200, [r1, r2]),
        update(T0 + 300, [r1, r2], acts={"0": [["bbegin", 0], ["replace", "t0", 3.5, None, False], ["replace", "t1", 3.5, None, False], ["bend"]]}),
        update(T0 + 400, [r1b, r2]),
        update(T0 + 700, [r1b, r2]),
        update(T0 + 1700, [r1b, r2]),
    ]
    return scenario([market(101, ups)], max_live=5, multi=True)


def f22_amended_result_after_dead_heat():
    """the market is closed with a dead heat (two winners, one place) and then closed again with an amended result (one
    winner): the dead-heat reduction must not survive into the settlement on the final book"""
    ra = runner(1, atb=[(3.0, 50.0)], atl=[(3.5, 50.0)])
    rb = runner(2, atb=[(4.0, 50.0)], atl=[(5.0, 50.0)])
    ups = [
        update(T0, [ra, rb], acts={"0": [create(0, 0, 1, "BACK", 3.0, 4.0), ["place", "t0", None, False],
                                           create(1, 1, 2, "LAY", 5.0, 2.0), ["place", "t1", None, False]]}),
        update(T0 + 200, [ra, rb]),
        update(T0 + 1200, [ra, rb]),
        update(T0 + 2200, [runner(1, status="WINNER"), runner(2, status="WINNER")], status="CLOSED", version=2),
        update(T0 + 2700, [runner(1, status="WINNER"), runner(2, status="LOSER")], status="CLOSED", version=3),
    ]
    return scenario([market(101, ups)])



ALL = [f4_cancel_failure_after_lapse, f4_update_failure_after_fill, f5_void_after_partial_cancel, f11_sp_order_on_removed_runner,
       f6_same_removal_in_two_markets, lambda: f6_same_removal_in_two_markets(True), f15_replace_with_failed_replacement, f3_place_twice,
       f2_refused_cancel, completes_during_cancel_latency, trade_reuse_after_complete, second_order_within_place_latency,
       replace_after_inplay_bet_delay, cancel_then_place_mixed_delays,
       f24_place_the_closed_replacement, f23_replace_package_with_a_completed_order,
       f22_amended_result_after_dead_heat]


def nested_batch_begin():
    """a script opens a transaction block while one is open: the first block is left (and its requests are sent) first -
    a request accepted in a block is never dropped (the assumption-free form of C12's whole-run theorem)"""
    ups = [
        update(T0, two(), acts={"0": [["bbegin", 0], create(0, 0, 1, "BACK", 3.0, 4.0), ["place", "t0", None, False],
                                      ["bbegin", 0], create(1, 1, 2, "BACK", 3.0, 4.0), ["place", "t1", None, False], ["bend"]]}),
        update(T0 + 200, two()),
        update(T0 + 400, two(), acts={"0": [["bbegin", 0], ["cancel", "t0", None, False], ["bbegin", 0], ["cancel", "t1", None, False]]}),
        update(T0 + 700, two()),
        update(T0 + 1700, two()),
    ]
    return scenario([market(101, ups)])


ALL.append(nested_batch_begin)


def limit_orders_taken_to_the_starting_price():
    """resting LIMIT orders with persistence MARKET_ON_CLOSE at the turn in-play: a LAY whose limit is above the starting price is
    re-sized to keep its liability (its stake GROWS: the difference is booked as a negative cancellation, nothing may remain), a LAY
    whose limit is below the starting price and a BACK whose limit is above it lapse, a BACK below it is matched at the starting price"""
    book = dict(atb=[(2.0, 50.0), (1.75, 50.0)], atl=[(2.5, 50.0), (3.0, 2.0)])
    def rs(sp=None):
        return [runner(1, sp=sp, **book), runner(2, sp=(3.0 if sp else None), **book)]
    ups = [
        update(T0, rs(), acts={"0": [create(0, 0, 1, "LAY", 2.2, 10.0, pers="MARKET_ON_CLOSE"), ["place", "t0", None, False],
                                     create(1, 1, 1, "LAY", 1.6, 20.0, pers="MARKET_ON_CLOSE"), ["place", "t1", None, False],
                                     create(2, 2, 1, "BACK", 3.0, 10.0, pers="MARKET_ON_CLOSE"), ["place", "t2", None, False],
                                     create(3, 3, 2, "BACK", 2.2, 12.0, pers="MARKET_ON_CLOSE"), ["place", "t3", None, False],
                                     create(4, 4, 2, "LAY", 2.4, 3.0, pers="MARKET_ON_CLOSE"), ["place", "t4", None, False]]}),
        update(T0 + 200, rs()),
        update(T0 + 1000, rs(sp=1.8), inplay=True, bsp_rec=True, version=2),
        update(T0 + 1200, rs(sp=1.8), inplay=True, bsp_rec=True, version=2),
        update(T0 + 2200, rs(sp=1.8), inplay=True, bsp_rec=True, version=2),
    ]
    return scenario([market(101, ups)], max_order=None, max_sel=None)


ALL.append(limit_orders_taken_to_the_starting_price)


def second_partial_cancel_overtaken_by_fill():
    """a partial cancel succeeds; a second size reduction, legal when requested, is overtaken by a partial fill inside the cancel
    latency: it exceeds what remains when it executes and takes exactly the remainder (C04-m9 shape: a clamp computed from
    size - matched forgets the earlier cancellation, the remainder goes negative and the order never completes)"""
    ups = [
        update(T0, two(), acts={"0": [create(0, 0, 1, "BACK", 3.0, 10.0), ["place", "t0", None, False]]}),
        update(T0 + 200, two(), acts={"0": [["cancel", "t0", 4.0, False]]}),
        update(T0 + 500, two()),
        update(T0 + 600, two(), acts={"0": [["cancel", "t0", 6.0, False]]}),
        update(T0 + 700, two(trd=[(3.0, 10.0)])),
        update(T0 + 800, two(trd=[(3.0, 10.0)])),
        update(T0 + 1800, two(trd=[(3.0, 10.0)])),
    ]
    return scenario([market(101, ups)])


ALL.append(second_partial_cancel_overtaken_by_fill)


def stream_ends_while_another_market_has_a_request_in_flight():
    """event group of two markets, one strategy each: market 2's file ends between the update at which strategy 0 sends an order for
    market 1 and market 1's next update - the request waits in the shared latency queue across the end of the other stream and is
    executed all the same (C13-m9 shape: the queue cleared whenever ONE stream of the group runs out)"""
    ups1 = [
        update(T0, two()),
        update(T0 + 4000, two(), acts={"0": [create(0, 0, 1, "BACK", 2.0, 5.0), ["place", "t0", None, False]]}),
        update(T0 + 5000, two()),
        update(T0 + 6000, two()),
    ]
    ups2 = [
        update(T0 + 100, two(), acts={"1": [create(1, 1, 2, "BACK", 3.0, 4.0), ["place", "t1", None, False]]}),
        update(T0 + 4500, two()),
    ]
    sc = scenario([market(101, ups1), market(102, ups2)], strategies=2, event_processing=True)
    sc["strategies"][0]["markets"] = [0]
    sc["strategies"][1]["markets"] = [1]
    return sc


ALL.append(stream_ends_while_another_market_has_a_request_in_flight)


def all_scenarios():
    return [f() for f in ALL]
