"""Random (seeded) generator of simulation-world scenarios for harness/simworld.py.

Structured, mostly-valid inputs: evolving books around a price index per runner, cumulative traded
volume, suspensions with version bumps, turn in-play with BSP reconciliation, runner removal,
closure with results; strategies that create / place / cancel / update / replace with timing
relative to the latencies.  Every random choice comes from the one `random.Random` passed in.
"""
import random

LADDER = [1.25, 1.5, 1.75, 2.0, 2.5, 3.0, 3.5, 4.0, 4.5, 5.0, 5.5, 6.0, 7.0, 8.0, 9.0, 10.0, 11.0, 12.0]
DEC_LADDER = [1.5, 1.51, 1.52, 1.53, 1.54, 1.55, 1.56, 1.57, 1.58, 1.59, 1.6, 1.61, 1.62, 1.63, 1.64, 1.65, 1.66, 1.67]
SPACINGS = [40, 50, 100, 119, 120, 121, 130, 169, 170, 171, 200, 279, 280, 281, 300, 500, 1000, 5000, 12000]


def gen_size(rng, dyadic):
    return rng.randrange(1, 80) / 4 if dyadic else rng.randrange(1, 2000) / 100


def gen_book(rng, lad, idx, dyadic, depth=3):
    """atb best-first (descending) below idx, atl ascending from idx+1"""
    atb = [[lad[i], gen_size(rng, dyadic)] for i in range(idx, max(-1, idx - rng.randint(0, depth)), -1)]
    atl = [[lad[i], gen_size(rng, dyadic)] for i in range(idx + 1, min(len(lad), idx + 1 + rng.randint(0, depth)))]
    return atb, atl


def gen_market(rng, mnum, t0, opts):
    dyadic = opts["dyadic"]
    lad = LADDER if dyadic else DEC_LADDER
    nrun = rng.randint(2, opts.get("max_runners", 3))
    n = rng.randint(opts.get("min_updates", 5), opts.get("max_updates", 12))
    runners = [{"id": 1 + i, "hc": 0, "idx": rng.randrange(2, len(lad) - 3), "trd": {}, "af": rng.choice([10.0, 20.0, 30.0, 2.0, 45.5]),
                "status": "ACTIVE"} for i in range(nrun)]
    if rng.random() < opts.get("p_handicap", 0.0):
        # handicap market: the same selection id on several lines
        runners = [{"id": 1 + i // 2, "hc": (-0.5 if i % 2 == 0 else 0.5), "idx": rng.randrange(2, len(lad) - 3), "trd": {}, "af": None,
                    "status": "ACTIVE"} for i in range(4)]
    pt = t0
    version = 1
    status = "OPEN"
    inplay = False
    bsp_rec = False
    bet_delay = 0
    updates = []
    suspend_at = rng.randrange(2, n) if rng.random() < opts.get("p_suspend", 0.3) else None
    suspend_len = rng.randint(1, 2)
    inplay_at = rng.randrange(2, n) if rng.random() < opts.get("p_inplay", 0.3) else None
    remove_at = rng.randrange(1, n) if rng.random() < opts.get("p_removal", 0.2) else None
    close = rng.random() < opts.get("p_close", 0.5)
    if any(r["hc"] for r in runners):
        remove_at = None      # handicap lines have no adjustment factors and no non-runners (the removal code needs the factors)
    for k in range(n):
        pt += rng.choice(SPACINGS) if k else 0
        if k and opts.get("hour_jumps") and rng.random() < 0.15:
            pt += rng.choice([1_800_000, 3_600_000, 7_200_000, 86_400_000])
        if suspend_at is not None and k == suspend_at:
            status, version = "SUSPENDED", version + 1
        elif suspend_at is not None and k == suspend_at + suspend_len:
            status, version = "OPEN", version + (1 if rng.random() < 0.7 else 0)
        if inplay_at is not None and k == inplay_at:
            inplay, bsp_rec, bet_delay = True, True, rng.choice([0, 1, 5])
            version += 1
            for r in runners:
                r["sp"] = rng.choice(lad[1:]) if rng.random() < 0.95 else None
        if remove_at is not None and k == remove_at and len([r for r in runners if r["status"] == "ACTIVE"]) > 1:
            victim = rng.choice([r for r in runners if r["status"] == "ACTIVE"])
            victim["status"] = "REMOVED"
            version += 1
        rs = []
        for r in runners:
            if r["status"] == "ACTIVE":
                r["idx"] = min(len(lad) - 4, max(3, r["idx"] + rng.choice([-1, 0, 0, 0, 1])))
                atb, atl = gen_book(rng, lad, r["idx"], dyadic)
                if rng.random() < 0.6:
                    for _ in range(rng.randint(1, 2)):
                        p = lad[min(len(lad) - 1, max(0, r["idx"] + rng.choice([-2, -1, 0, 0, 1, 1, 2])))]
                        r["trd"][p] = round(r["trd"].get(p, 0.0) + gen_size(rng, dyadic) * 2, 2)
                if status != "OPEN":
                    atb, atl = [], []
                rs.append({"id": r["id"], "hc": r["hc"], "status": "ACTIVE", "af": r["af"], "sp": r.get("sp"), "atb": atb, "atl": atl,
                           "trd": [[p, s] for p, s in r["trd"].items()]})
            else:
                rs.append({"id": r["id"], "hc": r["hc"], "status": r["status"], "af": r["af"], "sp": None, "atb": [], "atl": [], "trd": []})
        updates.append({"pt": pt, "status": status, "version": version, "inplay": inplay, "bsp_rec": bsp_rec, "bsp_market": True,
                        "bet_delay": bet_delay, "runners": rs, "acts": {}})
    if close:
        pt += rng.choice([1000, 5000])
        act = [r for r in runners if r["status"] == "ACTIVE"]
        winners = rng.sample(act, rng.choice([1, 1, 1, 2]) if len(act) > 1 else 1)
        if any(r["hc"] for r in runners):
            # handicap lines settle independently: one winning line per selection
            winners = [r for r in act if (r["hc"] < 0) == (r["id"] % 2 == 0)]
        rs = [{"id": r["id"], "hc": r["hc"], "status": ("WINNER" if r in winners else "LOSER") if r["status"] == "ACTIVE" else "REMOVED",
               "af": r["af"], "sp": r.get("sp"), "atb": [], "atl": [], "trd": []} for r in runners]
        updates.append({"pt": pt, "status": "CLOSED", "version": version + 1, "inplay": inplay, "bsp_rec": bsp_rec, "bsp_market": True,
                        "bet_delay": bet_delay, "runners": rs, "acts": {}})
        zr = random.Random("reclose|%r|%r|%r" % (mnum, pt, [r["status"] for r in rs]))
        if zr.random() < opts.get("p_reclose", 0.12):
            # the result is amended: a second CLOSED book straight after the first (no re-open in between), other winner(s);
            # drawn from a generator of its own so that the main random stream stays as it was
            pt += 500
            act2 = [r for r in rs if r["status"] != "REMOVED"]
            rs_b = [dict(r) for r in rs]
            if len(act2) > 1 and not any(r["hc"] for r in runners):
                w2 = zr.sample([(r["id"], r["hc"]) for r in act2], zr.choice([1, 1, 2]))
                for r in rs_b:
                    if r["status"] != "REMOVED":
                        r["status"] = "WINNER" if (r["id"], r["hc"]) in w2 else "LOSER"
            updates.append({"pt": pt, "status": "CLOSED", "version": version + 2, "inplay": inplay, "bsp_rec": bsp_rec, "bsp_market": True,
                            "bet_delay": bet_delay, "runners": rs_b, "acts": {}})
            rs = rs_b
            version += 1
        if rng.random() < opts.get("p_reopen", 0.15) and remove_at is None:
            # data arrives again after the close: re-open, then a second close
            pt += 1000
            rs2 = [dict(r, status="ACTIVE" if r["status"] != "REMOVED" else "REMOVED") for r in rs]
            updates.append({"pt": pt, "status": "OPEN", "version": version + 2, "inplay": inplay, "bsp_rec": bsp_rec, "bsp_market": True,
                            "bet_delay": bet_delay, "runners": rs2, "acts": {}})
            pt += 1000
            updates.append({"pt": pt, "status": "CLOSED", "version": version + 3, "inplay": inplay, "bsp_rec": bsp_rec, "bsp_market": True,
                            "bet_delay": bet_delay, "runners": rs, "acts": {}})
    return {"id": "1.%d" % mnum, "event": opts.get("event", "100"), "type": opts.get("type", "WIN"), "winners": 1, "ew": None,
            "updates": updates}, pt


def gen_scenario(rng, **opts):
    dyadic = opts.setdefault("dyadic", rng.random() < 0.7)
    lad = LADDER if dyadic else DEC_LADDER
    nm = opts.get("markets", rng.choice([1, 1, 2]))
    markets = []
    t0 = 1_700_000_000_000
    for i in range(nm):
        mopts = dict(opts)
        mopts["type"] = rng.choice(["WIN", "WIN", "PLACE", "OTHER"])
        m, tend = gen_market(rng, 101 + i, t0 + (0 if opts.get("event_processing") else i * 100_000), mopts)
        if opts.get("p_two_winners") and rng.random() < opts["p_two_winners"] and len(m["updates"][0]["runners"]) >= 3 \
                and not any(r["hc"] for r in m["updates"][0]["runners"]):
            m["type"], m["winners"] = "PLACE", 2      # two places are paid: worst cases range over pairs of winners
        if opts.get("p_each_way") and rng.random() < opts["p_each_way"] and not any(r["hc"] for r in m["updates"][0]["runners"]):
            # each-way market: divisor in the definition, one beaten runner is PLACED at the close
            m["type"], m["ew"] = "EACH_WAY", rng.choice([4.0, 5.0, 2.0])
            for u in m["updates"]:
                if u["status"] == "CLOSED":
                    losers = [r for r in u["runners"] if r["status"] == "LOSER"]
                    if losers:
                        losers[0]["status"] = "PLACED"
        if m["type"] == "OTHER":
            # "OTHER" stands for a type without place terms; a third of those become OTHER_PLACE, which has them (the non-runner
            # formula of place markets applies); drawn from a generator of its own so that recorded seeds keep their meaning
            if random.Random("otherplace|%r|%r" % (m["id"], m["updates"][0]["runners"][0])).random() < 0.34:
                m["type"] = "OTHER_PLACE"
        markets.append(m)
        if not opts.get("event_processing"):
            t0 = tend
    ns = opts.get("strategies", rng.choice([1, 1, 2]))
    nc = opts.get("clients", 1)
    sc = {"cfg": {"isolation": opts.get("isolation", rng.random() < 0.8),
                  "latency": {"place": 0.12, "cancel": 0.17, "update": 0.15, "replace": 0.28}},
          "event_processing": bool(opts.get("event_processing")), "dyadic": dyadic,
          "clients": [{"bpe": rng.random() < 0.8, "full": rng.random() < 0.05, "mbv": True,
                       "txlimit": rng.choice([3, 6, 2, None, 5000] if opts.get("small_limits") else [None, None, 5000, 3, 6]),
                       "commission": 0.05} for _ in range(nc)],
          "strategies": [{"markets": list(range(nm)), "max_order": rng.choice([10, 10, 50, None, 2]), "max_sel": rng.choice([100, 20, 100, None, 5]),
                          "max_market": rng.choice([None, None, 30, 100]), "max_trade": rng.choice([1000000, 1000000, 2, 3]),
                          "max_live": rng.choice([1, 2, 5, 5]), "multi": rng.random() < 0.4} for _ in range(ns)],
          "markets": markets}
    if opts.get("subset_subscriptions") and nm > 1:
        for st in sc["strategies"]:
            k = rng.randint(1, nm)
            st["markets"] = sorted(rng.sample(range(nm), k))
    # ---- scripts
    okey = 0
    tkey = 0
    own = {}  # (strategy, market) -> list of (okey, tkey)
    trades_of = {}
    p_act = opts.get("p_act", 0.55)
    for mi, m in enumerate(markets):
        for ui, u in enumerate(m["updates"]):
            if u["status"] == "CLOSED":
                continue
            for si in range(ns):
                if rng.random() > p_act or mi not in sc["strategies"][si]["markets"]:
                    continue
                acts = []
                mine = own.setdefault((si, mi), [])
                batch = rng.random() < 0.12
                if batch:
                    acts.append(["bbegin", rng.randrange(nc)])
                for _ in range(rng.choice([1, 1, 1, 2, 3])):
                    kind = rng.choices(["new", "cancel", "update", "replace", "newsp", "again"], [8, 3, 1.5, 3, 1.2, 0.4])[0]
                    act_r = [r for r in u["runners"] if r["status"] == "ACTIVE"] or u["runners"]
                    r = rng.choice(u["runners"] if rng.random() < 0.1 else act_r)
                    if kind in ("new", "newsp") or not mine:
                        reuse = mine and rng.random() < 0.25
                        if reuse:
                            tk = rng.choice(mine)[1]
                            sel = trades_of[tk]
                            new = False
                            r = next((x for x in u["runners"] if (x["id"], x.get("hc", 0)) == sel), r)
                        else:
                            tk, new, sel = tkey, True, (r["id"], r.get("hc", 0))
                            tkey += 1
                            trades_of[tk] = sel
                        side = rng.choice(["BACK", "LAY"])
                        best_b = r["atb"][0][0] if r.get("atb") else lad[4]
                        bi = lad.index(best_b) if best_b in lad else 4
                        pidx = min(len(lad) - 1, max(0, bi + rng.choice([-2, -1, 0, 0, 1, 1, 2, 3])))
                        price = lad[pidx]
                        size = gen_size(rng, dyadic)
                        if rng.random() < 0.15:
                            size = round(size / 8, 2) or 0.25
                        fok = rng.random() < 0.12
                        minfill = rng.choice([None, round(size / 2, 2) or None]) if fok else None
                        okind = "L" if kind == "new" else rng.choice(["LOC", "MOC"])
                        pers = rng.choice(["LAPSE", "LAPSE", "PERSIST", "MARKET_ON_CLOSE"])
                        acts.append(["create", okey, tk, new, sel[0], sel[1], side, okind, price, size, gen_size(rng, dyadic), pers, fok, minfill, "C",
                                     rng.choice([0, 0, 0, 0.5, 10]), rng.choice([0, 0, 0, 1, 30])])
                        ver = rng.choice([None, None, None, u["version"], u["version"] + 1])
                        acts.append(["place", "t%d" % tk, ver, rng.random() < 0.04])
                        mine.append((okey, tk))
                        okey += 1
                    else:
                        ok, tk = rng.choice(mine)
                        tg = "t%d" % tk
                        if kind == "cancel":
                            acts.append(["cancel", tg, rng.choice([None, None, None, gen_size(rng, dyadic), 0.5, 100.0]), rng.random() < 0.03])
                        elif kind == "update":
                            acts.append(["update", tg, rng.choice(["PERSIST", "LAPSE", "MARKET_ON_CLOSE"]), False])
                        elif kind == "replace":
                            acts.append(["replace", tg, rng.choice(lad), rng.choice([None, None, u["version"]]), rng.random() < 0.03])
                        else:
                            acts.append(["place", tg, None, False])
                if batch:
                    if rng.random() < 0.4:
                        acts.insert(rng.randrange(1, len(acts) + 1), ["bexec"])
                    if rng.random() < 0.7:
                        acts.append(["bend"])
                u["acts"][str(si)] = acts
    # a placement of an order that has been placed before ("again") is forced in a third of the cases: force skips the controls and
    # nothing else, the request is still refused; a side generator again
    fr = random.Random("forceagain|%r|%r" % (len(markets), markets[0]["updates"][0]["runners"]))
    for m in markets:
        for u in m["updates"]:
            for acts in u["acts"].values():
                for j, a in enumerate(acts):
                    if a[0] == "place" and (j == 0 or acts[j - 1][0] != "create") and fr.random() < opts.get("p_force_again", 0.34):
                        a[3] = True
    # cool-downs that are not a whole number of seconds (reset_seconds 1 -> 0.5 / 1.5, place_reset_seconds 10 -> 2.5) in a third of the
    # scenarios, so that the sub-second part of the clock matters at the boundary; a side generator again
    cr2 = random.Random("fractionalcooldown|%r|%r" % (len(markets), markets[0]["updates"][0]["runners"]))
    if cr2.random() < opts.get("p_fractional_cooldown", 0.34):
        half = cr2.choice([0.5, 0.5, 1.5])
        for m in markets:
            for u in m["updates"]:
                for acts in u["acts"].values():
                    for a in acts:
                        if a[0] == "create":
                            if a[16] == 1:
                                a[16] = half
                            if a[15] == 10:
                                a[15] = 2.5
    # several clients: in half of those scenarios every strategy has a "home" client per market and sends all its requests there
    # through that client (its callbacks become batches of that client), so that orders of a non-default client are cancelled,
    # updated and REPLACED often (without a batch a request goes through the default client and is refused for any other client's
    # order); a side generator again
    if nc > 1:
        hr = random.Random("homeclient|%r|%r" % (nc, markets[0]["updates"][0]["runners"]))
        if hr.random() < opts.get("p_home_client", 0.5):
            home = {}
            for mi, m in enumerate(markets):
                for u in m["updates"]:
                    for sk, acts in u["acts"].items():
                        if acts and acts[0][0] != "bbegin":
                            k = home.setdefault((sk, mi), hr.randrange(nc))
                            u["acts"][sk] = [["bbegin", k]] + acts + [["bend"]]
    # commission rates other than the default, 0 included ("all client commission rates"): a side generator again
    cr = random.Random("commission|%r|%r" % (len(markets), markets[0]["updates"][0]["runners"]))
    for c in sc["clients"]:
        if cr.random() < opts.get("p_commission", 0.3):
            c["commission"] = cr.choice([0.0, 0.0, 0.02, 0.065, 0.1])
    # adjustment factors at the reduction threshold (2.5 is reduced, anything below is not) in a few scenarios: every runner of one
    # market gets the boundary value; drawn from a generator of its own so that the main random stream stays as it was
    br = random.Random("afboundary|%r|%r" % (len(markets), markets[0]["updates"][0]["runners"]))
    if br.random() < opts.get("p_af_boundary", 0.12):
        bm = br.choice(markets)
        val = br.choice([2.5, 2.5, 2.5, 2.49, 2.51])
        for u in bm["updates"]:
            for r in u["runners"]:
                if r.get("af") is not None:
                    r["af"] = val
    # markets whose definition publishes NO adjustment factor (types without reduction terms do not): a removed runner then arrives
    # with factor None - its bets are void all the same, nobody else's are reduced.  Only for type OTHER: in WIN / PLACE markets the
    # exchange always publishes the factor (and the real MARKET_ON_CLOSE lay formula raises TypeError on None).  Own generator again.
    nf = random.Random("nofactor|%r|%r" % (len(markets), markets[0]["updates"][0]["runners"]))
    for m in markets:
        if m["type"] == "OTHER" and nf.random() < opts.get("p_no_factor", 0.4):
            for u in m["updates"]:
                for r in u["runners"]:
                    r["af"] = None
    # a limit of exactly zero ("risk nothing": the usual way to switch a strategy off) in a few scenarios; drawn from a
    # generator of its own so that the main random stream (and every recorded seed) stays as it was
    zr = random.Random("zero|%r|%r" % (sc["strategies"], markets[0]["updates"][0]["runners"][0]))
    if zr.random() < opts.get("p_zero_limit", 0.06):
        zr.choice(sc["strategies"])[zr.choice(["max_order", "max_sel", "max_market"])] = zr.choice([0, 0.0])
    return sc
