"""C14 child: one simulation run in a fresh interpreter.  stdin: scenario JSON; stdout: JSON result.
env: PYTHONHASHSEED (set by the parent), VERIF_CLOCK_OFFSET (seconds added to time.time before flumine is imported),
VERIF_RAISE_AT (publish time at which the observing strategy raises, with raise_errors=True)."""
import json
import os
import sys
import time

off = float(os.environ.get("VERIF_CLOCK_OFFSET", "0"))
if off:
    _t, _tn = time.time, time.time_ns
    time.time = lambda: _t() + off
    time.time_ns = lambda: _tn() + int(off * 1e9)

sys.path.insert(0, os.path.dirname(os.path.abspath(__file__)))
import datetime as _dt
REAL_DATETIME = _dt.datetime
import common  # noqa: E402
common.use_repo()
import simworld  # noqa: E402


def main():
    sc = json.load(sys.stdin)
    raise_at = os.environ.get("VERIF_RAISE_AT")
    hooks = {}
    if raise_at:
        from flumine import config

        def in_callback(run, strategy, market, market_book):
            if market_book.publish_time_epoch >= int(raise_at):
                config.raise_errors = True
                raise RuntimeError("injected by the checker")
        hooks["in_callback"] = in_callback
    r = simworld.Run(sc, hooks)
    if raise_at:
        # Run.run() sets config.raise_errors itself; the hook raises from inside process_market_book
        pass
    r.run()
    import datetime
    ids = sorted(o.id for o in r.orders)
    print(json.dumps({
        "out": [[k[0], k[1], line] for k, line in r.out],
        "crash": r.crash, "clock_ok": r.clock_ok,
        "restored": datetime.datetime is REAL_DATETIME,
        "hashseed": os.environ.get("PYTHONHASHSEED"), "first_order_id": ids[0] if ids else None,
        "set_order": "".join(sorted({"a", "b", "c", "d", "e", "f"}, key=hash)),
    }))


main()
