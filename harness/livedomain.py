"""Live domain: a real Flumine instance (Betfair client) against an exchange double.

The framework's own handlers are called synchronously at moments chosen by the history
generator: BetfairExecution.execute_place / cancel / update / replace with crafted
betfairlightweight responses (or API errors), BaseFlumine._process_current_orders with
snapshots of the double's bet table.  Every step is mirrored as an op of the Lean `live` command.
"""
import random
from unittest import mock

import common

STATUS_TOK = {"PENDING": "P", "EXECUTABLE": "E", "EXECUTION_COMPLETE": "C", "EXPIRED": "X", None: "-"}


class Exchange:
    """the exchange double: a bet table and a call log"""

    def __init__(self):
        self.bets = {}          # bet id -> dict
        self.next_bet = 500
        self.calls = []         # (kind, number of instructions, raised?)

    def new_bet(self, ref, size, market_id, sel, status="EXECUTABLE"):
        self.next_bet += 1
        b = {"bet_id": self.next_bet, "ref": ref, "size": size, "matched": 0.0, "remaining": size, "cancelled": 0.0, "lapsed": 0.0,
             "status": status, "market_id": market_id, "sel": sel, "price": 2.0}
        self.bets[self.next_bet] = b
        return b

    def snapshot(self, b):
        from betfairlightweight.resources.bettingresources import CurrentOrder
        return CurrentOrder(**{
            "betId": str(b["bet_id"]), "marketId": b["market_id"], "selectionId": b["sel"], "handicap": 0.0,
            "priceSize": {"price": b["price"], "size": b["size"]}, "bspLiability": 0.0, "side": "BACK", "status": b["status"],
            "persistenceType": "LAPSE", "orderType": "LIMIT", "placedDate": "2030-01-01T10:00:00.000Z",
            "averagePriceMatched": b["price"] if b["matched"] else 0.0, "sizeMatched": b["matched"], "sizeRemaining": b["remaining"],
            "sizeLapsed": b["lapsed"], "sizeCancelled": b["cancelled"], "sizeVoided": 0.0, "customerOrderRef": b["ref"],
            "customerStrategyRef": "host"})


class LiveWorld:
    def __init__(self, rng, strategy_names=("live",), async_orders=False, truthful=False, with_market=True):
        common.use_repo()
        from flumine import Flumine, clients, BaseStrategy
        from flumine.markets.market import Market
        self.rng = rng
        self.ex = Exchange()
        self.betting = mock.Mock()
        self.client = clients.BetfairClient(mock.Mock(lightweight=False, betting=self.betting), username="u")
        self.fw = Flumine(client=self.client)
        self.fw.log_control = lambda e: None
        self.async_orders = async_orders
        self.truthful = truthful   # the double never reports BET_TAKEN_OR_LAPSED for a bet that is still resting
        self.stream_first = None   # callable(bets): the order stream is processed before the REST response is handled
        self.pending = []          # captured packages not yet executed
        self.executing = None
        self.fw.betfair_execution.handler = lambda p: self.pending.append(p)
        self.strategies = []
        for nm in strategy_names:
            st = BaseStrategy(market_filter={}, name=nm, max_order_exposure=1000, max_selection_exposure=1000, max_live_trade_count=50,
                              max_trade_count=1000)
            self.fw.add_strategy(st)
            self.strategies.append(st)
        self.market_id = "1.777"
        book = mock.Mock(publish_time=123, bet_delay=0, status="OPEN", runners=[], number_of_active_runners=3, number_of_winners=1)
        book.market_id = self.market_id
        self.market = Market(self.fw, self.market_id, book)
        if with_market:
            self.fw.markets.add_market(self.market_id, self.market)
        self.orders = []           # local orders by model id
        self.ops = []              # model ops
        self.charged = 0           # bets submitted by answered calls (oracle)
        self.failed_reported = 0
        self.calls_per_package = {}

    def shutdown(self):
        for ex in (self.fw.simulated_execution, self.fw.betfair_execution, self.fw.betdaq_execution):
            ex.shutdown()

    # ---------------------------------------------------------------- strategy requests
    def place(self, n, sidx=0):
        from flumine.order.trade import Trade
        from flumine.order import ordertype as ot
        new = []
        with self.market.transaction(async_place_orders=self.async_orders) as t:
            for _ in range(n):
                size = self.rng.choice([2.0, 4.0, 6.0])
                trade = Trade(self.market_id, 1 + len(self.orders) % 3, 0, self.strategies[sidx])
                o = trade.create_order("BACK", ot.LimitOrder(2.0, size))
                o._mid = len(self.orders)
                self.orders.append(o)
                t.place_order(o, force=True)
                new.append(o)
                self.ops.append("N:%d:%s:%s" % (o._mid, "T" if self.async_orders else "F", common.tok(size)))
        return new

    def request(self, kind, o):
        from flumine.exceptions import OrderUpdateError
        try:
            if kind == "cancel":
                red = None
                if self.rng.random() < 0.4 and o.size_remaining > 1:
                    red = self.rng.choice([1.0, round(o.size_remaining / 2, 2), round(o.size_remaining * 0.75, 2)])
                self.market.cancel_order(o, size_reduction=red, force=True)
            elif kind == "update":
                self.market.update_order(o, "PERSIST" if o.order_type.persistence_type == "LAPSE" else "LAPSE", force=True)
            else:
                self.market.replace_order(o, 3.0 if o.order_type.price == 2.0 else 2.0, force=True)
        except OrderUpdateError:
            pass
        self.ops.append({"cancel": "CQ", "update": "UQ", "replace": "RQ"}[kind] + ":%d" % o._mid)

    # ---------------------------------------------------------------- exchange answers
    def execute(self, package, outcome, errors=0):
        """run the handler for `package` now; `outcome` = list of per-instruction dicts; the first `errors` attempts raise"""
        from betfairlightweight import resources, BetfairError
        from flumine.order.orderpackage import OrderPackageType
        kind = package.package_type
        ex = self.fw.betfair_execution
        self.executing = package      # its response is on its way: still outstanding while the stream overtakes it
        attempts = {"n": 0}
        orders_at_call = list(package)
        reports = []

        def api(**kw):
            attempts["n"] += 1
            self.ex.calls.append((kind.name, len(kw.get("instructions", [])), attempts["n"] <= errors))
            if attempts["n"] <= errors:
                raise BetfairError("injected API error")
            return self.answer(kind, orders_at_call, outcome, kw, reports)

        self.betting.place_orders = api
        self.betting.cancel_orders = api
        self.betting.update_orders = api
        self.betting.replace_orders = api
        # retries re-enter through execution.handler: run them synchronously, without the back-off sleep
        chain = []
        ex.handler = lambda p: (chain if p is package else self.pending).append(p)      # a retry of this package | a new request made meanwhile
        session = mock.Mock(time_created=0, time_returned=0)
        with mock.patch("time.sleep"):
            func = {OrderPackageType.PLACE: ex.execute_place, OrderPackageType.CANCEL: ex.execute_cancel,
                    OrderPackageType.UPDATE: ex.execute_update, OrderPackageType.REPLACE: ex.execute_replace}[kind]
            func(package, session)
            while chain:
                func(chain.pop(0), session)
        ex.handler = lambda p: self.pending.append(p)
        self.executing = None
        self.calls_per_package[id(package)] = attempts["n"]
        answered = attempts["n"] > errors
        return answered, attempts["n"], orders_at_call, reports

    def answer(self, kind, orders, outcome, kw, reports):
        from betfairlightweight import resources
        name = kind.name
        instr = kw.get("instructions", [])
        irs = []
        for i, ins in enumerate(instr):
            oc = outcome[i] if i < len(outcome) else {"status": "SUCCESS"}
            o = orders[i] if i < len(orders) else None
            if name == "PLACE":
                rep = {"status": oc["status"], "instruction": ins}
                if oc["status"] == "SUCCESS":
                    b = self.ex.new_bet(o.customer_order_ref, o.order_type.size, self.market_id, o.selection_id)
                    ost = oc.get("order_status", "EXECUTABLE")
                    if ost in ("EXECUTION_COMPLETE",):
                        b.update(matched=b["size"], remaining=0.0, status="EXECUTION_COMPLETE")
                    elif ost == "EXPIRED":
                        b.update(lapsed=b["size"], remaining=0.0, status="EXECUTION_COMPLETE")
                    rep.update(orderStatus=ost, betId=str(b["bet_id"]), sizeMatched=b["matched"], averagePriceMatched=2.0 if b["matched"] else 0.0,
                               placedDate="2030-01-01T10:00:00.000Z")
                    self.charged += 1
                elif oc["status"] == "FAILURE":
                    rep.update(errorCode=oc.get("error", "INVALID_BET_SIZE"))
                    self.charged += 1
                else:
                    # TIMEOUT: the exchange may or may not have taken the bet; here it has
                    b = self.ex.new_bet(o.customer_order_ref, o.order_type.size, self.market_id, o.selection_id)
                    self.charged += 1
                irs.append(rep)
                reports.append((o, oc))
            elif name == "CANCEL":
                bet = self.ex.bets.get(int(ins["betId"]))
                if bet and bet["remaining"] == 0 and oc["status"] == "SUCCESS":
                    oc["status"], oc["error"] = "FAILURE", "BET_TAKEN_OR_LAPSED"      # nothing left to cancel
                if self.truthful and oc["status"] == "FAILURE" and oc.get("error") == "BET_TAKEN_OR_LAPSED" and bet and bet["remaining"] > 0:
                    oc["error"] = "ERROR_IN_ORDER"
                rep = {"status": oc["status"], "instruction": ins}
                if oc["status"] == "SUCCESS":
                    sc = bet["remaining"] if bet else 0.0
                    if oc.get("partial") and bet and bet["remaining"] > 1:
                        sc = 1.0
                    if ins.get("sizeReduction") and bet:
                        sc = min(float(ins["sizeReduction"]), bet["remaining"])
                    if bet:
                        bet["cancelled"] += sc
                        bet["remaining"] = round(bet["remaining"] - sc, 2)
                        if bet["remaining"] > 0 and abs(sc - bet["remaining"]) < 1e-9:
                            bet["cancelled_equals_remaining"] = True      # see finding F21
                        if bet["remaining"] == 0:
                            bet["status"] = "EXECUTION_COMPLETE"
                    rep.update(sizeCancelled=sc, cancelledDate="2030-01-01T10:00:00.000Z")
                    oc["size_cancelled"] = sc
                elif oc["status"] == "FAILURE":
                    rep.update(errorCode=oc.get("error", "BET_TAKEN_OR_LAPSED"))
                    if not oc.get("drop"):
                        self.failed_reported += 1
                if not oc.get("drop"):
                    irs.append(rep)
                reports.append((next((x for x in orders if x.bet_id == ins["betId"]), None), oc))
            elif name == "UPDATE":
                rep = {"status": oc["status"], "instruction": ins}
                if oc["status"] == "FAILURE":
                    rep.update(errorCode="BET_ACTION_ERROR")
                    self.failed_reported += 1
                irs.append(rep)
                reports.append((o, oc))
            else:   # REPLACE
                bet = self.ex.bets.get(int(ins["betId"]))
                if bet and bet["remaining"] == 0 and oc["status"] == "SUCCESS":
                    oc["status"] = "FAILURE"      # nothing left to replace
                cs = oc["status"]
                crep = {"status": cs, "instruction": {"betId": ins["betId"]}}
                prep = {"status": oc.get("place", "SUCCESS" if cs == "SUCCESS" else "FAILURE"),
                        "instruction": {"selectionId": o.selection_id, "handicap": 0, "side": "BACK", "orderType": "LIMIT",
                                        "limitOrder": {"size": bet["remaining"] if bet else 2.0, "price": ins["newPrice"], "persistenceType": "LAPSE"}}}
                if cs == "SUCCESS" and bet:
                    crep.update(sizeCancelled=bet["remaining"], cancelledDate="2030-01-01T10:00:00.000Z")
                    oc["size_cancelled"] = bet["remaining"]
                    rem = bet["remaining"]
                    bet.update(cancelled=bet["cancelled"] + rem, remaining=0.0, status="EXECUTION_COMPLETE")
                    if prep["status"] == "SUCCESS":
                        nb = self.ex.new_bet(bet["ref"], rem, self.market_id, o.selection_id)      # a replacement bet keeps the reference of the bet it replaces (also along a chain)
                        nb["price"] = ins["newPrice"]
                        nb["replaces"] = bet["bet_id"]
                        prep.update(orderStatus="EXECUTABLE", betId=str(nb["bet_id"]), sizeMatched=0.0, averagePriceMatched=0.0,
                                    placedDate="2030-01-01T10:00:00.000Z")
                        oc["new_bet"] = nb["bet_id"]
                        oc["new_size"] = rem
                elif cs == "FAILURE":
                    crep.update(errorCode="BET_TAKEN_OR_LAPSED")
                    self.failed_reported += 1
                    prep["status"] = "FAILURE"
                else:
                    prep["status"] = "TIMEOUT" if cs == "TIMEOUT" else prep["status"]
                self.charged += 1
                irs.append({"status": cs, "cancelInstructionReport": crep, "placeInstructionReport": prep})
                reports.append((o, oc))
        if self.stream_first is not None:
            self.stream_first()
        if name == "CANCEL" and len(irs) > 1 and self.rng.random() < 0.5:
            self.rng.shuffle(irs)          # cancel reports may arrive in any order
        data = {"status": "SUCCESS", "marketId": self.market_id, "instructionReports": irs, "customerRef": "x"}
        cls = {"PLACE": resources.PlaceOrders, "CANCEL": resources.CancelOrders, "UPDATE": resources.UpdateOrders, "REPLACE": resources.ReplaceOrders}[name]
        r = cls(**data)
        r.elapsed_time = 0.01
        r._data = data
        return r

    # ---------------------------------------------------------------- order stream
    def send_snapshot(self, bets=None):
        from flumine.events import events
        bets = list(self.ex.bets.values()) if bets is None else bets
        cos = [self.ex.snapshot(b) for b in bets]
        self.fw._process_current_orders(events.CurrentOrdersEvent([mock.Mock(orders=cos, client=self.client)]))
        return cos

    def local_for(self, bet):
        for o in self.orders:
            if o.bet_id is not None and str(o.bet_id) == str(bet["bet_id"]):
                return o
        return None
