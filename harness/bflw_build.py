"""Build genuine betfairlightweight resources / stream lines from small specs.

`import flumine` must happen first (flumine patches bflw's RunnerBook EX/SP to dict based
versions, which is what the simulation code reads)."""
import json

import common

common.use_repo()
from betfairlightweight.streaming.cache import MarketBookCache  # noqa: E402


def market_definition(status="OPEN", inplay=False, version=1, bsp_market=True, bsp_reconciled=False,
                      runners=(), market_type="WIN", number_of_winners=1, bet_delay=0,
                      persistence_enabled=True, each_way_divisor=None, event_id="100", market_time="2030-01-01T12:00:00.000Z",
                      betting_type="ODDS", line=None, event_type_id="7"):
    """runners: iterable of dicts {id, status, af, hc, bsp}"""
    rs = []
    for i, r in enumerate(runners):
        d = {"status": r.get("status", "ACTIVE"), "sortPriority": i + 1, "id": r["id"]}
        if r.get("af") is not None:
            d["adjustmentFactor"] = r["af"]
        if r.get("hc") is not None:
            d["hc"] = r["hc"]
        if r.get("bsp") is not None:
            d["bsp"] = r["bsp"]
        if r.get("status") == "REMOVED":
            d["removalDate"] = "2030-01-01T11:00:00.000Z"
        rs.append(d)
    md = {"bspMarket": bsp_market, "turnInPlayEnabled": True, "persistenceEnabled": persistence_enabled, "marketBaseRate": 5,
          "eventId": event_id, "eventTypeId": event_type_id, "numberOfWinners": number_of_winners, "bettingType": betting_type,
          "marketType": market_type, "marketTime": market_time, "suspendTime": market_time,
          "bspReconciled": bsp_reconciled, "complete": True, "inPlay": inplay, "crossMatching": True, "runnersVoidable": False,
          "numberOfActiveRunners": sum(1 for r in rs if r["status"] == "ACTIVE"), "betDelay": bet_delay, "status": status,
          "runners": rs, "regulators": ["MR_INT"], "countryCode": "GB", "discountAllowed": True, "timezone": "Europe/London",
          "openDate": market_time, "version": version, "name": "m", "eventName": "e"}
    if each_way_divisor is not None:
        md["eachWayDivisor"] = each_way_divisor
    if line is not None:
        md.update({"lineMinUnit": line[0], "lineMaxUnit": line[1], "lineInterval": line[2], "marketUnit": "x"})
        md["priceLadderDefinition"] = {"type": "LINE_RANGE"}
    return md


def rc(sel, atb=None, atl=None, trd=None, hc=None, ltp=None, tv=None):
    d = {"id": sel}
    if hc is not None:
        d["hc"] = hc
    if atb is not None:
        d["atb"] = [[float(p), float(s)] for p, s in atb]
    if atl is not None:
        d["atl"] = [[float(p), float(s)] for p, s in atl]
    if trd is not None:
        d["trd"] = [[float(p), float(s)] for p, s in trd]
    if ltp is not None:
        d["ltp"] = ltp
    if tv is not None:
        d["tv"] = tv
    return d


def mcm(market_id, pt, md=None, rcs=None, img=False):
    mc = {"id": market_id}
    if img:
        mc["img"] = True
    if md is not None:
        mc["marketDefinition"] = md
    if rcs:
        mc["rc"] = rcs
    return {"op": "mcm", "clk": str(pt), "pt": pt, "mc": [mc]}


def write_stream(path, lines):
    with open(path, "w") as f:
        for l in lines:
            f.write(json.dumps(l) + "\n")


class BookBuilder:
    """feeds mcm dicts through a real MarketBookCache and returns MarketBook resources"""

    def __init__(self, market_id="1.1", unique_id=1):
        self.market_id = market_id
        self.unique_id = unique_id
        self.cache = None

    def feed(self, line):
        pt = line["pt"]
        for mc in line["mc"]:
            if self.cache is None or mc.get("img"):
                self.cache = MarketBookCache(mc["id"], pt, False, False, True)
            self.cache.update_cache(mc, pt, True)
        return self.cache.create_resource(self.unique_id, snap=True)


def single_book(pt=1000, market_id="1.1", rcs=None, **mdkw):
    b = BookBuilder(market_id)
    return b.feed(mcm(market_id, pt, market_definition(**mdkw), rcs, img=True))
