"""C04 - simulated order sizes are conserved (simulation domain)."""
from fractions import Fraction

import simcheck
from common import frac

META = {
    "level_text": ("Theorems (Lean 4) about the SimulatedOrder model for every reachable state of one order under any sequence of place / cancel "
                   "(any reduction, clamped) / update / lapse / traded-volume matching / SP reconciliation: the remainder is a function of the "
                   "buckets (bucket identity by construction in code and model), remaining and matched are non-negative, matched never decreases, "
                   "cancel never cancels more than remains, a lapse empties the remainder; the void of a runner removal is proved for orders without "
                   "cancelled/lapsed size (partial) and a Lean witness shows the negative remainder after a void that follows a partial cancel "
                   "(known finding F5). Model tied to /repo by whole-simulation correspondence runs (real FlumineSimulation vs model, every update)."),
    "level_note": ("Trusted: Lean kernel + standard axioms; hand-written world model validated by correspondence; exact arithmetic (penny ties "
                   "tolerated within a budget); the quantifier 'whenever a strategy is called' is observed by the oracle inside the real callbacks."),
    "trusted_base": ["betfairlightweight stream cache builds the books from the generated stream files"],
    "assumptions": ["limit orders with a size (bet_target_size placement is NotImplemented in the simulator)"],
}

PROJECTION = {"R": True, "O": ["id", "status", "complete", "sm", "canc", "laps", "void", "rem", "size", "frags"]}


def gen_opts(rng):
    return {"p_removal": 0.35, "p_suspend": 0.45, "p_inplay": 0.35}


class Oracle:
    def __init__(self, sc):
        self.sc = sc
        self.v = []
        self.prev = {}
        self.seen = set()
        self.calls = 0

    def hooks(self):
        return {"in_callback": self.in_callback}

    def add(self, sig, what):
        if sig not in self.seen:
            self.seen.add(sig)
            self.v.append((sig, what))

    def in_callback(self, run, strategy, market, market_book):
        self.calls += 1
        eps = Fraction(1, 10**9)
        for o in market.blotter:
            if o.order_type.ORDER_TYPE.name != "LIMIT":
                continue
            s = o.simulated
            size = frac(o.order_type.size)
            m, r, c, l, v = (frac(x) for x in (s.size_matched, s.size_remaining, s.size_cancelled, s.size_lapsed, s.size_voided))
            who = "order %d (%s %s)" % (o._vidx, o.side, [x.name for x in o.status_log])
            if abs(size - (m + r + c + l + v)) > eps:
                self.add("bucket-identity", "%s: size %s != matched %s + remaining %s + cancelled %s + lapsed %s + voided %s" % (who, size, m, r, c, l, v))
            if m < 0:
                self.add("negative-matched", "%s: matched %s" % (who, m))
            if r < 0:
                sig = "negative-remaining-after-void" if v > 0 and (c > 0 or l > 0) else "negative-remaining"
                self.add(sig, "%s: remaining %s (cancelled %s lapsed %s voided %s)" % (who, r, c, l, v))
            sent = any(x.name != "VIOLATION" for x in o.status_log)
            if sent and o.status is not None and o.status.name not in ("PENDING", "VIOLATION"):
                if o.complete != (r == 0):
                    names = [x.name for x in o.status_log]
                    reopened = any(a == "EXECUTION_COMPLETE" and b != "EXECUTION_COMPLETE" for a, b in zip(names, names[1:]))
                    if reopened:
                        sig = "reopened-after-complete"
                    elif r < 0:
                        sig = "negative-remaining-after-void" if (c > 0 or l > 0) else "negative-remaining"
                    else:
                        sig = "complete-iff-nothing-remains"
                    self.add(sig, "%s: complete=%s but remaining=%s at strategy call (status %s)" % (who, o.complete, r, o.status.name))
            pm, pv = self.prev.get(o._vidx, (Fraction(0), Fraction(0)))
            if m < pm - eps and not v > pv:
                self.add("matched-decreased", "%s: matched went from %s to %s without a void" % (who, pm, m))
            self.prev[o._vidx] = (m, v)

    def finish(self, run):
        return self.v

    def tags(self, run):
        t = set()
        for o in run.orders:
            s = o.simulated
            if o.order_type.ORDER_TYPE.name != "LIMIT" or not o.status_log:
                continue
            if s.size_matched:
                t.add("matched")
            if s.size_cancelled:
                t.add("cancelled")
            if s.size_lapsed:
                t.add("lapsed")
            if s.size_voided:
                t.add("voided")
            if s.size_matched and s.size_cancelled:
                t.add("matched+cancelled")
            if s.size_voided and (s.size_cancelled or s.size_lapsed):
                t.add("void-after-cancel-or-lapse")
        return t


def make_oracle(sc):
    return Oracle(sc)


def run(res, tier, seed, model_ok, search):
    res.rule = ("whole simulation runs on generated stream files (books, trades, suspend/re-open with version change, turn in-play with BSP, "
                "runner removal, closure) with scripted place / cancel (full, partial, over-sized) / update / replace actions; the oracle checks "
                "the bucket identity, signs, completeness and monotonicity inside every real strategy callback. non-trivial = a limit order had "
                "size moved between buckets; distinct = scenario index")
    simcheck.run(res, "C04", tier, seed, model_ok, search, n_quick=400, n_thorough=12000)


def replay(payload):
    return simcheck.generic_replay("C04", payload)
