"""C11 - order-stream reconciliation converges on the exchange's view (live domain: exchange double, restart)."""
import random

import common

META = {
    "level_text": ("Adoption after a restart keeps the exchange's terms for every order type (adopted_limit / adopted_limit_on_close: liability from bspLiability, "
                   "limit from priceSize.price / adopted_market_on_close). "
                   "Theorems (Lean 4): process_current_order stores the snapshot as the order's current order, so every size the order reports "
                   "afterwards is the exchange's; an asynchronous order picks its bet id up from the stream and any other order keeps its own; a "
                   "snapshot processed while nothing is outstanding (order resting, or pending with its bet id known) makes the order complete "
                   "exactly when the exchange says so; an order with a request in flight waits for its response (status and log untouched); "
                   "duplicated snapshots change nothing (idempotence); a stale snapshot cannot revive a complete order; an unknown order is "
                   "adopted under the strategy that produced its reference and found again by the next update (from the reference model, C19). "
                   "Known finding F14 has a kernel-checked witness (snapshot processed before the place response). Tied to /repo by random "
                   "interleavings of {place / cancel / update / replace responses, exchange-side fills and lapses, fresh / stale / duplicated "
                   "snapshots} through the real handlers and the real process_current_orders against an exchange double, with an agreement check "
                   "at every quiescent point and a restart (new framework instance, same exchange state) at a random point."),
    "level_note": ("Trusted: Lean kernel + standard axioms; hand-written per-order model validated by correspondence. Convergence over whole "
                   "interleavings is checked by the oracle at quiescent points, the theorems cover each processing step."),
    "trusted_base": ["betfairlightweight CurrentOrder / response resources", "unittest.mock for transport"],
    "assumptions": ["quiescent = no package waiting for its response, then one snapshot of the exchange's current bet table processed"],
}


OTHER_PROPERTIES = False      # live_findings(): also judge the live-mode clauses of C03 and C10 on the same histories


def canon(o):
    return ":".join([str(o._mid), o.status.name if o.status else "-", "T" if o.complete else "F", str(o.bet_id) if o.bet_id else "-",
                     "+".join(x.name for x in o.status_log) or ".", str(len(o.responses.cancel_responses)), str(len(o.responses.update_responses)),
                     common.tok(o.size_remaining)])


BYBET = []      # (driver line, decision taken here) of every bet-id step, compared with the model's `pickByBet` at the end of the run


def snapshot_ops(w, bets, ld):
    """model ops for a snapshot: which local order each current order is applied to (reference lookup, then bet id)"""
    ops = []
    for b in bets:
        by_ref = next((o for o in w.orders if o.customer_order_ref[14:] == b["ref"][14:] and not getattr(o, "_replacement", False)), None)
        target = by_ref
        if by_ref is not None and by_ref.bet_id and str(by_ref.bet_id) != str(b["bet_id"]):
            target = next((o for o in w.orders if o.bet_id and str(o.bet_id) == str(b["bet_id"])), None)
        if by_ref is not None and len(BYBET) < 20000:
            known = sorted({int(o.bet_id) for o in w.orders if o.bet_id})
            BYBET.append(("ref.bybet %s %d %s" % (int(by_ref.bet_id) if by_ref.bet_id else "-", int(b["bet_id"]), ",".join(map(str, known)) or "."),
                          "S" if target is None else ("R" if target is by_ref else "B%d" % int(target.bet_id))))
        if target is not None:
            ops.append("SN:%d:%d:%s:%s:%s" % (target._mid, b["bet_id"], ld.STATUS_TOK[b["status"]], common.tok(b["matched"]), common.tok(b["remaining"])))
    return ops


def seen_orders(w, b):
    seen = w.__dict__.setdefault("_seen_in_blotter", {})
    for o in b:
        seen[id(o)] = o
    return list(seen.values())


def check_blotter(w, res, payload, where):
    """C15 in live mode: the live list holds exactly the orders that are not complete; nothing twice"""
    b = w.market.blotter
    live = list(b._live_orders)
    for o in b:
        if not o.complete and o not in live:
            res.violate("live-order-not-in-live-list", "%s: order %s (%s) is not complete but has left the live list" % (
                where, getattr(o, "_mid", "?"), o.status.name), payload)
        if live.count(o) > 1:
            res.violate("duplicate-in-live-list", "%s: order %s twice in the live list" % (where, getattr(o, "_mid", "?")), payload)
        if b[o.id] is not o:
            res.violate("lookup:id", "%s: blotter lookup by id returns another object" % where, payload)
        # only orders that enter the blotter WITH a bet id are indexed by it: replacement orders (and adopted ones)
        if getattr(o, "_replacement", False) and o.bet_id is not None and w.fw.markets.get_order_from_bet_id(o.market_id, o.bet_id) is not o:
            res.violate("lookup:bet-id", "%s: order %s is not found under its bet id %s" % (where, getattr(o, "_mid", "?"), o.bet_id), payload)
    for o in live:
        if o.id not in b:
            res.violate("live-list-holds-unknown-order", "%s: the live list holds an order the blotter does not know" % where, payload)
    # C19 in live mode: an exchange update is never attributed to another order - the snapshot an order holds is one of ITS bet
    for o in seen_orders(w, b):
        co = o.responses.current_order
        if co is not None and o.bet_id is not None and getattr(co, "bet_id", None) is not None and str(co.bet_id) != str(o.bet_id):
            res.violate("update-misattributed", "%s: order %s (bet %s) holds the order-stream snapshot of bet %s (matched %s)" % (
                where, getattr(o, "_mid", o.id), o.bet_id, co.bet_id, getattr(co, "size_matched", "?")), payload)
    # exactly once, for good: an order that has been in the blotter stays there as the very same object (nothing overwrites its id
    # entry), no two objects of the blotter share an order id, and the views hold nothing but orders of the blotter
    seen = w.__dict__.setdefault("_seen_in_blotter", {})
    for o in b:
        seen[id(o)] = o
    for o in seen.values():
        if o.id not in b or b[o.id] is not o:
            res.violate("lookup:id", "%s: order %s was in the blotter and its id now resolves to %s" % (
                where, getattr(o, "_mid", o.id), "nothing" if o.id not in b else "another object"), payload)
    for st in w.strategies:
        view = list(b.strategy_orders(st))
        for o in view:
            if o.id not in b or b[o.id] is not o:
                res.violate("lookup:id", "%s: the strategy view holds an order (%s, bet %s) that is not the blotter's entry for its id" % (
                    where, getattr(o, "_mid", o.id), o.bet_id), payload)
        if len({id(o) for o in view}) != len(view):
            res.violate("duplicate-in-live-list", "%s: an order twice in the strategy view" % where, payload)
    # C03 in live mode: at most one operation per order is outstanding (synchronous placement: nothing but the place response
    # acknowledges the bet, so no request can be accepted before it)
    import collections
    cnt = collections.Counter(id(o) for p in w.pending + ([w.executing] if w.executing is not None else []) for o in p._orders)
    for o in b:
        if OTHER_PROPERTIES and cnt[id(o)] > 1 and not o.async_:
            res.violate("two-operations-in-flight", "%s: order %s has %d requests outstanding at once (%s)" % (
                where, getattr(o, "_mid", "?"), cnt[id(o)], [x.name for x in o.status_log]), payload)
    # C10 in live mode: the runner is charged with exactly the placed trades that still have an order that is not complete
    for st in w.strategies:
        for sel in (1, 2, 3):
            ctx = st.get_runner_context(w.market_id, sel, 0)
            expect = {o.trade.id for o in w.orders if o.trade.strategy is st and o.selection_id == sel and o.id in b
                      and any(not x.complete for x in o.trade.orders)}
            if OTHER_PROPERTIES and (set(ctx.live_trades) != expect or len(ctx.live_trades) != len(set(ctx.live_trades))):
                res.violate("live-trade-accounting", "%s: strategy %s selection %d is charged with %d live trades, %d of its placed trades have an order "
                            "that is not complete" % (where, st.name, sel, len(ctx.live_trades), len(expect)), payload)
    # C03 finality in live mode: an order reported complete (with a bet id) never becomes live again (its sizes may still
    # catch up with, or be overwritten by a stale view of, the exchange: that is C11's convergence, not a revival)
    done = w.__dict__.setdefault("_done", set())
    for o in b:
        if o.complete and o.bet_id:
            done.add(id(o))
        elif id(o) in done:
            res.violate("revived-after-complete", "%s: order %s is live again (%s)" % (where, getattr(o, "_mid", "?"), [x.name for x in o.status_log]), payload)


def one_case(res, rng, case, seed):
    common.use_repo()
    import livedomain as ld
    from flumine.order.order import OrderStatus
    w = ld.LiveWorld(rng, strategy_names=("alpha", "beta"), async_orders=rng.random() < 0.25, truthful=True)
    payload = {"case": case, "seed": seed}
    f14 = False
    try:
        w.place(rng.randint(1, 3), sidx=rng.randrange(2))
        steps = rng.randint(4, 14)
        stale = []

        def stream_first():
            # the exchange has processed the request; its order-stream update overtakes the REST response
            if rng.random() < 0.35 and w.ex.bets:
                bets_now = [dict(b) for b in w.ex.bets.values()]
                w.ops.extend(snapshot_ops(w, bets_now, ld))
                w.send_snapshot(bets_now)
                if rng.random() < 0.5:
                    # the strategy reacts to the stream update while the response is still on its way
                    # (not on an asynchronously placed order whose own place response is the one on its way: that response
                    #  calls executable() and clears the request's update_data - flumine leaves that window to the caller)
                    busy = w.executing._orders if w.executing is not None else []
                    cands = [o for o in w.orders if o.status == OrderStatus.EXECUTABLE and o.bet_id and not (o.async_ and o in busy)]
                    if cands:
                        w.request(rng.choice(["cancel", "update", "replace"]), rng.choice(cands))
                check_blotter(w, res, payload, "between a stream update and the response it overtook")

        w.stream_first = stream_first
        for _ in range(steps):
            check_blotter(w, res, payload, "during the history")
            ev = rng.choice(["respond", "respond", "fill", "lapse", "snapshot", "snapshot", "stale", "request", "place"])
            if ev == "respond" and w.pending:
                pkg = w.pending.pop(rng.randrange(len(w.pending)))
                kind = pkg.package_type.name.lower()
                outcome = []
                for o in list(pkg):
                    st = rng.choice(["SUCCESS", "SUCCESS", "SUCCESS", "FAILURE", "TIMEOUT"])
                    oc = {"status": st, "order_status": rng.choice(["EXECUTABLE", "EXECUTABLE", "EXECUTION_COMPLETE"] + (["PENDING"] if w.async_orders else [])),
                          "error": rng.choice(["BET_TAKEN_OR_LAPSED", "ERROR_IN_ORDER"])}
                    outcome.append(oc)
                answered, calls, at_call, reports = w.execute(pkg, outcome, errors=rng.choice([0, 0, 0, 1, 4]))
                if not answered:
                    for o in at_call:
                        w.ops.append("RS:%d:%s" % (o._mid, "T" if kind == "place" else "F"))
                elif kind == "place":
                    for o, oc in reports:
                        bet = next((b for b in w.ex.bets.values() if b["ref"] == o.customer_order_ref and "replaces" not in b), None)
                        ok = bet and oc["status"] == "SUCCESS"
                        ost = oc.get("order_status") if oc["status"] == "SUCCESS" else None
                        w.ops.append("PR:%d:%s:%s:%s:%s" % (o._mid, oc["status"][0], ld.STATUS_TOK[ost], bet["bet_id"] if ok else "-",
                                                            common.tok(bet["matched"]) if ok else "0"))
                elif kind == "cancel":
                    for o, oc in reports:
                        if o is not None:
                            w.ops.append("CR:%d:%s:%s:%s" % (o._mid, oc["status"][0], "T" if oc.get("error") == "BET_TAKEN_OR_LAPSED" else "F",
                                                             common.tok(oc.get("size_cancelled", 0.0))))
                elif kind == "update":
                    for o, oc in reports:
                        w.ops.append("UR:%d:%s" % (o._mid, oc["status"][0]))
                else:
                    for o, oc in reports:
                        w.ops.append("RR:%d:%s" % (o._mid, oc["status"][0]))
                        if oc.get("new_bet"):
                            new = next((x for x in o.trade.orders if x.bet_id is not None and str(x.bet_id) == str(oc["new_bet"])), None)
                            if new is not None:
                                new._mid = len(w.orders)
                                new._replacement = True
                                w.orders.append(new)
                                w.ops.append("RP:%d:%d:%d:%s" % (o._mid, new._mid, oc["new_bet"], common.tok(oc["new_size"])))
            elif ev in ("fill", "lapse"):
                live = [b for b in w.ex.bets.values() if b["status"] == "EXECUTABLE" and b["remaining"] > 0]
                if live:
                    b = rng.choice(live)
                    if ev == "fill":
                        amt = b["remaining"] if rng.random() < 0.6 else min(1.0, b["remaining"])
                        b["matched"] = round(b["matched"] + amt, 2)
                        b["remaining"] = round(b["remaining"] - amt, 2)
                    else:
                        b["lapsed"] = round(b["lapsed"] + b["remaining"], 2)
                        b["remaining"] = 0.0
                    if b["remaining"] == 0:
                        b["status"] = "EXECUTION_COMPLETE"
            elif ev == "snapshot" and w.ex.bets:
                bets = [dict(b) for b in w.ex.bets.values()]
                # a snapshot that reports a finished bet before its place response has been handled: recorded finding F14
                for b in bets:
                    o = next((x for x in w.orders if x.customer_order_ref == b["ref"]), None)
                    if o is not None and o.bet_id is None and not o.async_ and b["status"] == "EXECUTION_COMPLETE":
                        f14 = True
                w.ops += snapshot_ops(w, bets, ld)
                w.send_snapshot(bets)
                stale.append(bets)
                if rng.random() < 0.3:
                    w.ops += snapshot_ops(w, bets, ld)      # duplicate
                    w.send_snapshot(bets)
            elif ev == "stale" and stale:
                bets = rng.choice(stale)
                # only replay snapshots that are still sound to replay: an older view of a bet never shows it more finished than it is
                w.ops += snapshot_ops(w, bets, ld)
                w.send_snapshot(bets)
            elif ev == "request":
                cands = [o for o in w.orders if o.status == OrderStatus.EXECUTABLE and o.bet_id]
                if cands:
                    w.request(rng.choice(["cancel", "update", "replace"]), rng.choice(cands))
            elif ev == "place" and len(w.orders) < 5:
                w.place(1, sidx=rng.randrange(2))
        # ---- drive to quiescence: answer everything that is outstanding (successfully), then one snapshot of the truth
        guard = 0
        while w.pending and guard < 10:
            guard += 1
            pkg = w.pending.pop(0)
            kind = pkg.package_type.name.lower()
            answered, calls, at_call, reports = w.execute(pkg, [{"status": "SUCCESS", "order_status": "EXECUTABLE"} for _ in list(pkg)], errors=0)
            for o, oc in reports:
                if o is None:
                    continue
                if kind == "place":
                    bet = next((b for b in w.ex.bets.values() if b["ref"] == o.customer_order_ref and "replaces" not in b), None)
                    w.ops.append("PR:%d:S:E:%d:0" % (o._mid, bet["bet_id"]))
                elif kind == "cancel":
                    w.ops.append("CR:%d:%s:%s:%s" % (o._mid, oc["status"][0], "T" if oc.get("error") == "BET_TAKEN_OR_LAPSED" else "F", common.tok(oc.get("size_cancelled", 0.0))))
                elif kind == "update":
                    w.ops.append("UR:%d:S" % o._mid)
                else:
                    w.ops.append("RR:%d:%s" % (o._mid, oc["status"][0]))
                    if oc.get("new_bet"):
                        new = next((x for x in o.trade.orders if x.bet_id is not None and str(x.bet_id) == str(oc["new_bet"])), None)
                        if new is not None:
                            new._mid = len(w.orders)
                            new._replacement = True
                            w.orders.append(new)
                            w.ops.append("RP:%d:%d:%d:%s" % (o._mid, new._mid, oc["new_bet"], common.tok(oc["new_size"])))
        w.stream_first = None
        bets = [dict(b) for b in w.ex.bets.values()]
        w.ops += snapshot_ops(w, bets, ld)
        w.send_snapshot(bets)
        check_blotter(w, res, payload, "at the quiescent point")
        # ---- agreement at the quiescent point
        for b in bets:
            o = w.local_for(b)
            if o is None:
                # a bet the framework does not know by id: a placement that timed out (or failed locally) and was never
                # acknowledged - unless it was placed asynchronously: then the order stream IS the acknowledgement, and the
                # snapshot just processed carried the bet id
                r = next((x for x in w.orders if x.customer_order_ref == b["ref"] and not getattr(x, "_replacement", False)), None)
                if r is not None and r.async_ and r.bet_id is None and "replaces" not in b:
                    res.violate("not-converged", "order %d (placed asynchronously) still has no bet id after the snapshot that reports its bet %s "
                                "(local status %s, sizes %s/%s; exchange %s %s/%s)" % (r._mid, b["bet_id"], r.status.name, r.size_matched, r.size_remaining,
                                                                                       b["status"], b["matched"], b["remaining"]), payload)
                continue
            ex_complete = b["status"] == "EXECUTION_COMPLETE"
            problems = []
            if abs(o.size_matched - b["matched"]) > 1e-9 or abs(o.size_remaining - b["remaining"]) > 1e-9:
                problems.append("sizes local %s/%s exchange %s/%s" % (o.size_matched, o.size_remaining, b["matched"], b["remaining"]))
            if o.complete != ex_complete:
                problems.append("complete local %s exchange %s (status %s)" % (o.complete, ex_complete, o.status.name))
            if o.complete and o in w.market.blotter.live_orders:
                problems.append("complete order still in the live list")
            if o.complete and all(x.complete for x in o.trade.orders) and o.trade.status.name != "COMPLETE":
                problems.append("all orders of the trade complete but the trade is %s" % o.trade.status.name)
            if problems:
                sig = "snapshot-before-place-response" if (f14 and any(p.startswith("complete local False") for p in problems)) else "not-converged"
                if b.get("cancelled_equals_remaining") and o.complete and not ex_complete:
                    sig = "partial-cancel-overtaken-by-stream"
                res.violate(sig, "order %d / bet %s after quiescence: %s (log %s)" % (o._mid, b["bet_id"], "; ".join(problems), [x.name for x in o.status_log]), payload)
        # ---- restart: a new framework instance, same exchange state
        w2 = ld.LiveWorld(random.Random(1), strategy_names=rng.choice([("alpha",), ("gamma",), ("alpha", "beta"), ("alpha", "beta")]), with_market=False)
        try:
            w2.send_snapshot(bets)
            w2.send_snapshot(bets)         # adopted exactly once
            adopted = [o for m in w2.fw.markets for o in m.blotter]
            for m in w2.fw.markets:
                if len(m.blotter) == 0:
                    res.violate("unknown-strategy-update-had-effect", "market %s was created by updates that were all ignored (no order adopted into it)" % m.market_id, payload)
            names2 = {s.name for s in w2.strategies}
            for b in bets:
                o1 = next((o for o in w.orders if o.customer_order_ref[14:] == b["ref"][14:]), None)
                owner = o1.trade.strategy.name if o1 is not None else None
                got = [o for o in adopted if str(o.bet_id) == str(b["bet_id"])]
                if owner in names2:
                    if len(got) != 1:
                        res.violate("replaced-bet-not-adopted" if ("replaces" in b and not got) else "adoption-count", "bet %s of strategy %s adopted %d times after a restart" % (b["bet_id"], owner, len(got)), payload)
                    elif got[0].trade.strategy.name != owner or got[0].market_id != b["market_id"]:
                        res.violate("adopted-into-wrong-strategy", "bet %s of %s adopted into %s / %s" % (b["bet_id"], owner, got[0].trade.strategy.name, got[0].market_id), payload)
                    elif abs(got[0].size_matched - b["matched"]) > 1e-9 or got[0].complete != (b["status"] == "EXECUTION_COMPLETE"):
                        res.violate("adopted-order-disagrees", "adopted bet %s: matched %s complete %s, exchange %s %s" % (
                            b["bet_id"], got[0].size_matched, got[0].complete, b["matched"], b["status"]), payload)
                elif got:
                    res.violate("unknown-strategy-update-had-effect", "bet %s of unregistered strategy %s created an order" % (b["bet_id"], owner), payload)
            # exposure and live-trade accounting as before the crash (per strategy, per runner) for the bets both instances know by id
            known1 = {str(o.bet_id) for o in w.orders if o.bet_id}
            if all(str(b["bet_id"]) in known1 for b in bets):
                for st2 in w2.strategies:
                    st1 = next((s for s in w.strategies if s.name == st2.name), None)
                    if st1 is None:
                        continue
                    m2 = w2.fw.markets.markets.get(w.market_id)
                    for sel in (1, 2, 3):
                        lookup = (w.market_id, sel, 0)
                        e1 = w.market.blotter.get_exposures(st1, lookup)
                        e2 = m2.blotter.get_exposures(st2, lookup) if m2 else None
                        if e2 is not None and any(abs(e1[k] - e2[k]) > 0.011 for k in ("worst_possible_profit_on_win", "worst_possible_profit_on_lose")):
                            res.violate("replaced-bet-not-adopted" if any("replaces" in b for b in bets) else
                                        "partial-cancel-overtaken-by-stream" if any(b.get("cancelled_equals_remaining") for b in bets) else "exposure-differs-after-restart", "strategy %s selection %d: exposures before the crash %s, after %s" % (
                                st2.name, sel, {k: e1[k] for k in e1 if k.startswith("worst_possible")}, {k: e2[k] for k in e2 if k.startswith("worst_possible")}), payload)
                        c1 = st1.get_runner_context(*lookup).live_trade_count
                        c2 = st2.get_runner_context(*lookup).live_trade_count
                        live1 = len({id(o.trade) for o in w.orders if o.trade.strategy is st1 and o.selection_id == sel and o.bet_id and not o.trade.complete and o.trade.status.name != "COMPLETE"})
                        if c2 > 0 and c1 == 0 and live1 == 0:
                            res.violate("partial-cancel-overtaken-by-stream" if any(b.get("cancelled_equals_remaining") for b in bets) else "live-trades-differ-after-restart", "strategy %s selection %d: %d live trades after the restart, none before" % (st2.name, sel, c2), payload)
        finally:
            w2.shutdown()
        res.evaluations += 1
        res.nontrivial.add("c11 %d" % case)
        res.distribution["bets:%d" % len(bets)] += 1
        if f14:
            res.distribution["snapshot-before-response"] += 1
        line = "live " + ";".join(w.ops)
        impl = ",".join(canon(o) for o in w.orders)
        return line, impl, payload
    finally:
        w.shutdown()


def directed_partial_cancel(res, seed, fraction):
    """a partial cancel whose stream update overtakes the REST response: LIMIT 8.0 resting, cancel_order(size_reduction=fraction x 8),
    snapshot of the reduced bet, then the cancel response - the rest must keep resting locally (unless the amount cancelled equals
    the remainder: recorded finding F21)"""
    import livedomain as ld
    w = ld.LiveWorld(random.Random(seed), strategy_names=("alpha",), truthful=True)
    payload = {"case": "directed-partial-cancel-%s" % fraction, "seed": seed}
    try:
        from flumine.order.trade import Trade
        from flumine.order import ordertype as ot
        with w.market.transaction() as t:
            o = Trade(w.market_id, 1, 0, w.strategies[0]).create_order("BACK", ot.LimitOrder(2.0, 8.0))
            o._mid = 0
            w.orders.append(o)
            t.place_order(o, force=True)
        w.execute(w.pending.pop(0), [{"status": "SUCCESS", "order_status": "EXECUTABLE"}])
        red = round(8.0 * fraction, 2)
        w.market.cancel_order(o, size_reduction=red, force=True)
        w.stream_first = lambda: w.send_snapshot([dict(b) for b in w.ex.bets.values()])
        w.execute(w.pending.pop(0), [{"status": "SUCCESS"}])
        w.stream_first = None
        w.send_snapshot()
        b = list(w.ex.bets.values())[0]
        check_blotter(w, res, payload, "after the cancel response")
        first = (o.complete, o.status.name, o.size_remaining, b["remaining"])
        if (o.complete != (b["status"] == "EXECUTION_COMPLETE")) and not b.get("cancelled_equals_remaining"):
            res.violate("not-converged", "partial cancel of %s of 8.0, stream first: local status %s remaining %s, exchange %s remaining %s" % (
                red, o.status.name, o.size_remaining, b["status"], b["remaining"]), payload)
        # the rest is then matched at the exchange
        if b["remaining"] > 0:
            b.update(matched=b["remaining"], remaining=0.0, status="EXECUTION_COMPLETE")
            w.send_snapshot()
            check_blotter(w, res, payload, "after the rest was matched")
        if o.complete != (b["status"] == "EXECUTION_COMPLETE") or abs(o.size_remaining - b["remaining"]) > 1e-9:
            sig = "partial-cancel-overtaken-by-stream" if b.get("cancelled_equals_remaining") else "not-converged"
            res.violate(sig, "partial cancel of %s of 8.0, stream first: local status %s remaining %s, exchange %s remaining %s" % (
                red, o.status.name, o.size_remaining, b["status"], b["remaining"]), payload)
        res.evaluations += 1
    finally:
        w.shutdown()


def run_histories(res, tier, seed, model_ok, search):
    for fraction in (0.25, 0.5, 0.75):
        try:
            directed_partial_cancel(res, seed, fraction)
        except Exception:  # noqa
            import traceback
            res.violate("live-processing-crashed", traceback.format_exc()[-500:], {"case": "directed", "seed": seed})
    rng = random.Random(seed * 53 + 17)
    n = 4000 if (tier != "quick" or search) else 300
    lines, impls, payloads = [], [], []
    for case in range(n):
        try:
            r = one_case(res, random.Random(rng.getrandbits(32)), case, seed)
        except Exception:  # noqa
            import traceback
            res.violate("live-processing-crashed", traceback.format_exc()[-500:], {"case": case, "seed": seed})
            continue
        if r:
            lines.append(r[0]); impls.append(r[1]); payloads.append(r[2])
    res.evaluations += len(lines)
    if model_ok and lines:
        for line, impl, ans, pl in zip(lines, impls, common.run_driver(lines), payloads):
            if ans != impl:
                res.disagree({"request": line[:1500], "model": ans[:900], "implementation": impl[:900], "case": pl})
    # the bet-id step ("which local order does this current order belong to") as taken above, against the model's `pickByBet` (C19
    # `update_never_misattributed`): the decisions above are tied to the implementation by the state comparison, this ties them to the model
    if model_ok and BYBET:
        decided = list(dict.fromkeys(BYBET))
        res.distribution["bet-id-step:" + "/".join(sorted({d[1][0] for d in decided}))] += len(decided)
        for (line, mine), ans in zip(decided, common.run_driver([d[0] for d in decided])):
            res.evaluations += 1
            if ans != mine:
                res.disagree({"request": line, "model": ans, "implementation": mine, "case": {"step": "bet-id step of process_current_orders"}})
    del BYBET[:]


def live_findings(tier, seed, search):
    """the oracle findings of the live histories, for the checks of other properties that have a live-mode clause"""
    global OTHER_PROPERTIES
    sub = common.Result()
    OTHER_PROPERTIES = True
    try:
        run_histories(sub, tier, seed, False, search)
    finally:
        OTHER_PROPERTIES = False
    return sub


def adoption_of_every_order_type(res, seed, model_ok=True):
    """a restart adopts what the exchange holds for a known strategy - whatever the order type: LIMIT, LIMIT_ON_CLOSE and
    MARKET_ON_CLOSE bets of both sides, resting, part matched and complete.  The adopted order carries the exchange's terms (price,
    size, starting-price liability, side, persistence) and counts towards the strategy's exposure accordingly."""
    import livedomain as ld
    from unittest import mock
    from betfairlightweight.resources.bettingresources import CurrentOrder
    rng = random.Random(seed * 101 + 7)
    lines, impls, payloads = [], [], []
    for case in range(60):
        w2 = ld.LiveWorld(random.Random(1), strategy_names=("alpha",), with_market=False)
        try:
            from flumine.events import events
            st = w2.strategies[0]
            bets = []
            for k in range(rng.randint(1, 4)):
                kind = rng.choice(["LIMIT", "LIMIT", "LIMIT_ON_CLOSE", "LIMIT_ON_CLOSE", "MARKET_ON_CLOSE"])
                side = rng.choice(["BACK", "LAY"])
                price = rng.choice([2.0, 3.5, 5.0, 1.5])
                size = rng.choice([2.0, 4.0, 10.0])
                liab = rng.choice([12.0, 30.0, 20.0])
                matched = rng.choice([0.0, 0.0, size / 2, size]) if kind == "LIMIT" else 0.0
                status = "EXECUTION_COMPLETE" if (kind == "LIMIT" and matched == size) else "EXECUTABLE"
                bets.append(dict(bet=900 + k, kind=kind, side=side, price=price, size=size, liab=liab, matched=matched, status=status,
                                 sel=1 + k % 2, ref="%s-%d" % (st.name_hash, 140000000000000000 + case * 10 + k)))
            cos = [CurrentOrder(**{
                "betId": str(b["bet"]), "marketId": w2.market_id, "selectionId": b["sel"], "handicap": 0.0,
                "priceSize": {"price": b["price"] if b["kind"] != "MARKET_ON_CLOSE" else 0.0, "size": b["size"] if b["kind"] == "LIMIT" else 0.0},
                "bspLiability": b["liab"] if b["kind"] != "LIMIT" else 0.0, "side": b["side"], "status": b["status"],
                "persistenceType": "LAPSE" if b["kind"] == "LIMIT" else "MARKET_ON_CLOSE", "orderType": b["kind"], "placedDate": "2030-01-01T10:00:00.000Z",
                "averagePriceMatched": b["price"] if b["matched"] else 0.0, "sizeMatched": b["matched"],
                "sizeRemaining": (b["size"] - b["matched"]) if b["kind"] == "LIMIT" else 0.0,
                "sizeLapsed": 0.0, "sizeCancelled": 0.0, "sizeVoided": 0.0, "customerOrderRef": b["ref"], "customerStrategyRef": "host"}) for b in bets]
            for _ in range(2):
                w2.fw._process_current_orders(events.CurrentOrdersEvent([mock.Mock(orders=cos, client=w2.client)]))
            adopted = [o for m in w2.fw.markets for o in m.blotter]
            payload = {"seed": seed, "case": "adoption-%d" % case}
            res.evaluations += 1
            for b in bets:
                res.distribution["adopted:%s" % b["kind"]] += 1
                got = [o for o in adopted if str(o.bet_id) == str(b["bet"])]
                if len(got) != 1:
                    res.violate("adoption-count", "%s bet %s adopted %d times after a restart" % (b["kind"], b["bet"], len(got)), payload)
                    continue
                o = got[0]
                ot_ = o.order_type
                # correspondence with the model's adoptType (`live.adopt`): the terms of the snapshot in, the order type out
                co = next(c for c in cos if str(c.bet_id) == str(b["bet"]))
                lines.append("live.adopt %s %s %s %s %s" % (co.order_type, common.tok(co.price_size.price), common.tok(co.price_size.size),
                                                          common.tok(co.bsp_liability), co.persistence_type))
                impls.append(" ".join([ot_.ORDER_TYPE.name,
                                       common.tok(ot_.price) if getattr(ot_, "price", None) is not None else ".",
                                       common.tok(ot_.size) if getattr(ot_, "size", None) is not None else ".",
                                       common.tok(ot_.liability) if getattr(ot_, "liability", None) is not None else ".",
                                       getattr(ot_, "persistence_type", None) if b["kind"] == "LIMIT" else "."]))
                payloads.append(dict(payload, bet=b))
                problems = []
                if ot_.ORDER_TYPE.name != b["kind"] or o.side != b["side"] or o.selection_id != b["sel"]:
                    problems.append("type / side / selection %s %s %s" % (ot_.ORDER_TYPE.name, o.side, o.selection_id))
                if b["kind"] == "LIMIT" and (ot_.price != b["price"] or ot_.size != b["size"]):
                    problems.append("limit order %s @ %s" % (ot_.size, ot_.price))
                if b["kind"] == "LIMIT_ON_CLOSE" and (ot_.liability != b["liab"] or ot_.price != b["price"]):
                    problems.append("limit-on-close liability %s price %s" % (ot_.liability, ot_.price))
                if b["kind"] == "MARKET_ON_CLOSE" and ot_.liability != b["liab"]:
                    problems.append("market-on-close liability %s" % ot_.liability)
                if problems:
                    res.violate("adopted-order-disagrees", "adopted bet %s (%s %s price %s size %s liability %s): %s" % (
                        b["bet"], b["side"], b["kind"], b["price"], b["size"], b["liab"], "; ".join(problems)), payload)
            res.nontrivial.add("adoption %d" % case)
        finally:
            w2.shutdown()
    for line, impl, ans, pl in zip(lines, impls, common.run_driver(lines) if (model_ok and lines) else [], payloads):
        if ans != impl:
            res.disagree({"request": line, "model": ans, "implementation": impl, "case": pl})


def run(res, tier, seed, model_ok, search):
    res.rule = ("random interleavings of responses (success / failure / timeout / API errors), exchange-side fills and lapses, fresh, duplicated "
                "and stale snapshots, further requests and placements for 1..5 orders of two strategies, synchronous and asynchronous "
                "placement, replaced bets; then everything outstanding is answered and one snapshot of the exchange's bet table is processed: "
                "agreement check; then a restart with the same exchange state (sometimes with one strategy missing). distinct = case index")
    run_histories(res, tier, seed, model_ok, search)
    adoption_of_every_order_type(res, seed, model_ok)


def replay(payload):
    rp = payload.get("replay") or {}
    res = common.Result()
    seed, case = rp.get("seed", 0), rp.get("case", 0)
    if isinstance(case, str):
        if case.startswith("directed-partial-cancel-"):
            directed_partial_cancel(res, seed, float(case.rsplit("-", 1)[1]))
        if case.startswith("adoption-"):
            adoption_of_every_order_type(res, seed)
        for v in res.violations:
            print("ORACLE", v["signature"], v["what"])
        return 1
    rng = random.Random(seed * 53 + 17)
    for c in range(case + 1):
        sub = random.Random(rng.getrandbits(32))
        if c == case:
            r = one_case(res, sub, c, seed)
            print("ops:", r[0] if r else None)
            print("implementation:", r[1] if r else None)
    for v in res.violations:
        print("ORACLE", v["signature"], v["what"])
    return 1
