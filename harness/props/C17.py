"""C17 - price helpers and order validation agree with the exchange's ladders.

Correspondence (pure domain): utils.PRICES / get_nearest_price / price_ticks_away /
make_line_prices and the real OrderValidation control on real orders and clients, against
the Lean model driver.  Oracle: hand-typed published ladders, nearest tick by exact search,
validation predicate written from the property statement (fractions, no flumine code).
"""
import bisect
import math
import random
from fractions import Fraction

import common
from common import frac, tok, tokb, untok, untoklist

META = {
    "level_text": ("Theorems (Lean 4, kernel-checked, for every rational input): the ladder built by make_prices from the source's "
                   "cutoffs equals Betfair's published 350-tick ladder; get_nearest_price returns a tick and no tick is strictly "
                   "closer, is idempotent on ticks and clamps at 1.01/1000; price_ticks_away from tick i by n lands on index i+n "
                   "clamped (and raises off the ladder); OrderValidation accepts iff the declarative condition of the property "
                   "holds (an iff, so loosening and tightening both break it). The model is tied to /repo by regenerated "
                   "constants (cutoffs, runtime PRICES) and by a largely exhaustive correspondence run on the real functions "
                   "and the real control (0.001 grid, all mid-points and their float neighbours, tick x n, threshold grids for "
                   "every currency). Betdaq ladder and finest ladder: helper/validation checked by correspondence and oracle only."),
    "level_note": ("Trusted: Lean kernel + propext/Classical.choice/Quot.sound; hand-written model (Ladder.lean, Validation.lean) "
                   "validated by the correspondence run; floats read through their shortest decimal repr (as flumine's as_dec does); "
                   "betfairlightweight currency_parameters; extractor. Not modelled: unknown price_ladder_definition strings."),
    "trusted_base": [
        "betfairlightweight.metadata.currency_parameters (minimum stake table) read directly by the harness",
        "finest ladder membership is modelled by its characterisation (2dp, 1.01..1000); the extractor checks the runtime FINEST_PRICES list is exactly that set",
        "Betdaq ladder: no independent published table offline; oracle uses a hand-typed copy of Betdaq's increments",
    ],
    "assumptions": [
        "float inputs are represented by their shortest decimal repr (flumine itself does Decimal(str(x)))",
        "unknown price_ladder_definition strings are outside the property (no check is made by the code)",
    ],
}

BF_BANDS = [(101, 200, 1), (200, 300, 2), (300, 400, 5), (400, 600, 10), (600, 1000, 20), (1000, 2000, 50),
            (2000, 3000, 100), (3000, 5000, 200), (5000, 10000, 500), (10000, 100000, 1000)]
BD_BANDS = [(101, 300, 1), (300, 400, 5), (400, 1000, 10), (1000, 2000, 50), (2000, 5000, 100),
            (5000, 20000, 200), (20000, 100000, 500)]


def published(bands):
    out = []
    for lo, hi, inc in bands:
        out += list(range(lo, hi, inc))
    out.append(100000)
    return [Fraction(h, 100) for h in out]


PUB = published(BF_BANDS)
PUB_BD = published(BD_BANDS)


def oracle_nearest_ok(x: Fraction, r, ladder):
    """r (Fraction or None) must be a tick and no tick strictly closer to x."""
    if r is None:
        return "no result"
    i = bisect.bisect_left(ladder, r)
    if i >= len(ladder) or ladder[i] != r:
        return "result %s is not a tick" % r
    j = bisect.bisect_left(ladder, x)
    best = min(abs(ladder[k] - x) for k in (j - 1, j) if 0 <= k < len(ladder))
    if abs(r - x) != best:
        return "result %s is not the closest tick to %s (distance %s, best %s)" % (r, x, abs(r - x), best)
    return None


def oracle_ticks(p: Fraction, n: int, ladder):
    if p not in ladder:
        return "ValueError"
    i = ladder.index(p) + n
    if i < 0:
        return Fraction(101, 100)
    if i >= len(ladder):
        return Fraction(1000)
    return ladder[i]


def two_dp(x: Fraction):
    return (x * 100).denominator == 1


def oracle_validate(c, o):
    """True = accept. c=(mbv, min_size, min_payout, min_bsp); o=dict"""
    mbv, ms, mp, mb = c
    kind = o["kind"]

    def on_ladder(p, lad):
        if p is None:
            return False
        if lad == "classic":
            return p in PUB
        if lad == "finest":
            return two_dp(p) and Fraction(101, 100) <= p <= 1000
        if lad[0] == "line":
            lo, hi, iv = lad[1:]
            if p < lo or p > hi:
                return False
            return ((p - lo) / iv).denominator == 1
        raise ValueError(lad)

    if kind in ("limit", "betdaq"):
        size = o["size"] if kind == "betdaq" else (o["size"] or o["target"])
        if size is None or size <= 0 or not two_dp(size):
            return False
        if kind == "betdaq":
            return o["price"] is not None and o["price"] in PUB_BD
        if not on_ladder(o["price"], o["ladder"]):
            return False
        if mbv and size < ms and o["price"] * size < mp:
            return False
        return True
    liab = o["size"]
    if kind == "loc" and not on_ladder(o["price"], o["ladder"]):
        return False
    if liab is None or liab <= 0 or not two_dp(liab):
        return False
    if mbv:
        if o["side"] == "BACK" and liab < ms:
            return False
        if o["side"] == "LAY" and liab < mb:
            return False
    return True


# ---------------------------------------------------------------- implementation drivers

def impl_validate(flumine_mods, c_code, mbv, o, simulated=False):
    utils, OrderValidation, OrderPackageType, ControlError, Trade, BetfairOrder, BetdaqOrder, ot, BetfairClient, SimulatedClient, BetdaqClient, AccountDetails, LineRangeInfo, mock = flumine_mods
    strategy = mock.Mock()
    strategy.name_hash = "0123456789abc"
    trade = Trade("1.1", 1, 0, strategy)
    f = lambda v: None if v is None else float(v)  # noqa: E731
    kind = o["kind"]
    if kind == "limit":
        lad = o["ladder"]
        lri = None
        ladname = lad.upper() if isinstance(lad, str) else "LINE_RANGE"
        if ladname == "LINE_RANGE":
            lri = LineRangeInfo(marketUnit="x", interval=float(lad[3]), minUnitValue=float(lad[1]), maxUnitValue=float(lad[2]))
        otype = ot.LimitOrder(price=f(o["price"]), size=f(o["size"]), bet_target_size=f(o["target"]),
                              bet_target_type="PAYOUT" if o["target"] is not None else None,
                              price_ladder_definition=ladname, line_range_info=lri)
        order = trade.create_order(o["side"], otype)
    elif kind == "loc":
        otype = ot.LimitOnCloseOrder(liability=f(o["size"]), price=f(o["price"]), price_ladder_definition=o["ladder"].upper())
        order = trade.create_order(o["side"], otype)
    elif kind == "moc":
        otype = ot.MarketOnCloseOrder(liability=f(o["size"]))
        order = trade.create_order(o["side"], otype)
    else:
        otype = ot.BetdaqLimitOrder(price=f(o["price"]), size=f(o["size"]), betdaq_runner_id=1, runner_reset_count=0,
                                    withdrawal_sequence_number=0)
        order = trade.create_betdaq_order(o["side"], otype)
    if kind == "betdaq":
        client = BetdaqClient(min_bet_validation=mbv)
    elif simulated:
        client = SimulatedClient(min_bet_validation=mbv)
        client.CURRENCY_CODE = c_code
        client.update_account_details()
    else:
        client = BetfairClient(mock.Mock(lightweight=False), min_bet_validation=mbv)
        import zlib
        if zlib.crc32(repr(sorted(o.items(), key=str)).encode()) & 1:
            # the usual live sequence: the client exists (and is asked for its minimums, e.g. by a first validation or a log line)
            # before the account details have arrived; what counts for an order is the currency known when IT is validated
            _ = (client.min_bet_size, client.min_bet_payout, client.min_bsp_liability)
        client.account_details = AccountDetails(currencyCode=c_code, discountRate=0)
    order.update_client(client)
    ctrl = OrderValidation(mock.Mock())
    try:
        ctrl(order, OrderPackageType.PLACE)
        return "OK", order
    except ControlError:
        return "ERR", order
    except Exception as e:  # noqa
        return "EXC:" + type(e).__name__, order


def lad_tok(lad):
    if isinstance(lad, str):
        return lad
    return "line:%s:%s:%s" % (tok(lad[1]), tok(lad[2]), tok(lad[3]))


def run(res, tier, seed, model_ok, search):
    common.use_repo()
    from unittest import mock
    from flumine import utils
    from flumine.controls.tradingcontrols import OrderValidation
    from flumine.order.orderpackage import OrderPackageType
    from flumine.exceptions import ControlError
    from flumine.order.trade import Trade
    from flumine.order.order import BetfairOrder, BetdaqOrder, OrderStatus
    from flumine.order import ordertype as ot
    from flumine.clients.betfairclient import BetfairClient
    from flumine.clients.simulatedclient import SimulatedClient
    from flumine.clients.betdaqclient import BetdaqClient
    from betfairlightweight.resources.accountresources import AccountDetails
    from betfairlightweight.resources.bettingresources import LineRangeInfo
    from betfairlightweight.metadata import currency_parameters

    mods = (utils, OrderValidation, OrderPackageType, ControlError, Trade, BetfairOrder, BetdaqOrder, ot,
            BetfairClient, SimulatedClient, BetdaqClient, AccountDetails, LineRangeInfo, mock)
    rng = random.Random(seed)
    thorough = tier == "thorough" or search
    res.rule = ("nearest: 0.001 grid on [0,1100] (%s) + all tick mid-points and their float neighbours, both ladders; "
                "ticks: tick x n in [-400,400] (%s); validation: sizes/liabilities on a 0.001 grid around every threshold "
                "of every currency, both sides, all order types, all ladders, min_bet_validation on/off. "
                "non-trivial = input strictly inside the ladder range / move that stays on the ladder / order near a threshold; "
                "distinct = distinct request line" % ("all" if thorough else "seeded 5% slice", "all" if thorough else "sample"))
    reqs = []  # (line, impl_value, kind, detail)

    # ---- A ladders
    def impl_list(l):
        return [frac(x) for x in l]

    ladders = [("prices", impl_list(utils.PRICES), PUB), ("betdaq_prices", impl_list(utils.BETDAQ_PRICES), PUB_BD)]
    for name, impl, pub in ladders:
        res.evaluations += 1
        res.distribution["ladder"] += 1
        if impl != pub:
            bad = [str(x) for x in impl if x not in pub][:3] + [str(x) for x in pub if x not in impl][:3]
            res.violate("ladder:" + name, "utils.%s differs from the published ladder (e.g. %s)" % (name.upper(), bad),
                        {"check": "ladder", "name": name})
        if [frac(x) for x in (utils.PRICES_FLOAT if name == "prices" else utils.BETDAQ_PRICES_FLOAT)] != impl:
            res.violate("ladder-float:" + name, "float ladder differs from decimal ladder", {"check": "ladder-float", "name": name})
        reqs.append((name, impl, "ladder", name))
    fin = utils.FINEST_PRICES
    if [frac(x) * 100 for x in (fin[0], fin[1], fin[-1])] != [101, 102, 100000] or len(fin) != 99900 or \
            any(frac(b) - frac(a) != Fraction(1, 100) for a, b in zip(fin[:-1:997], fin[1::997])):
        res.violate("ladder:finest", "FINEST_PRICES is not 1.01..1000 by 0.01", {"check": "ladder", "name": "finest"})

    # ---- B nearest
    xs = []
    if thorough:
        xs += [k / 1000 for k in range(0, 1100001)]
    else:
        start = rng.randrange(20)
        xs += [k / 1000 for k in range(start, 1100001, 20)]
        xs += [rng.randrange(0, 1100001) / 1000 for _ in range(5000)]
    for lad in (PUB, PUB_BD):
        for a, b in zip(lad[:-1], lad[1:]):
            m = float((a + b) / 2)
            xs += [m, math.nextafter(m, 0), math.nextafter(m, 2000), math.nextafter(math.nextafter(m, 0), 0)]
            xs += [float(a), math.nextafter(float(a), 0), math.nextafter(float(a), 2000)]
    xs += [0.0, 1.0, 1.01, 1.005, 1.0149999, 1000.0, 1000.0001, 999.9999, 1e6, 1004.999, 995.0, 994.9999999]
    for name, cut, lad in (("nearest", utils.CUTOFFS, PUB), ("nearest_betdaq", utils.BETDAQ_CUTOFFS, PUB_BD)):
        for x in xs:
            try:
                r = frac(utils.get_nearest_price(x, cut))
            except Exception as e:  # noqa
                r = "EXC:" + type(e).__name__
            fx = frac(x)
            reqs.append(("%s %s" % (name, tok(fx)), r, "nearest", (name, x)))
            bad = oracle_nearest_ok(fx, r if isinstance(r, Fraction) else None, lad)
            if bad is None and isinstance(r, Fraction) and r in lad:
                try:
                    if frac(utils.get_nearest_price(float(r), cut)) != r:
                        bad = "not idempotent at %s" % r
                except Exception as e:  # noqa
                    bad = "exception on tick %s: %s" % (r, e)
            if bad:
                res.violate("nearest:" + name, "get_nearest_price(%r) -> %s: %s" % (x, r, bad),
                            {"check": "nearest", "fn": name, "x": repr(x)})
            res.distribution[name] += 1
            if Fraction(101, 100) < fx < 1000:
                res.nontrivial.add((name, x))

    # ---- C ticks away
    tick_cases = []
    if thorough:
        for p in PUB:
            for n in range(-400, 401):
                tick_cases.append((float(p), n))
    else:
        for _ in range(20000):
            tick_cases.append((float(rng.choice(PUB)), rng.randint(-400, 400)))
        for p in PUB[::7]:
            for n in (-1, 0, 1, 349, -349, 350, -350):
                tick_cases.append((float(p), n))
    for _ in range(300):
        tick_cases.append((rng.randrange(100, 100100) / 100 + 0.001, rng.randint(-5, 5)))
        tick_cases.append((rng.choice([2.01, 3.02, 4.05, 6.1, 10.2, 20.5, 31.0, 52.0, 105.0, 1010.0]), rng.randint(-5, 5)))
    for p, n in tick_cases:
        try:
            r = frac(utils.price_ticks_away(p, n))
        except ValueError:
            r = "ValueError"
        except Exception as e:  # noqa
            r = "EXC:" + type(e).__name__
        reqs.append(("ticks %s %d" % (tok(p), n), r, "ticks", (p, n)))
        exp = oracle_ticks(frac(p), n, PUB)
        if r != exp:
            res.violate("ticks", "price_ticks_away(%r, %d) -> %s, expected %s" % (p, n, r, exp),
                        {"check": "ticks", "p": repr(p), "n": n})
        res.distribution["ticks"] += 1
        if isinstance(exp, Fraction) and 0 <= PUB.index(frac(p)) + n < 350:
            res.nontrivial.add(("ticks", p, n))

    # ---- E line prices
    for lo, hi, iv in [(0.5, 9.5, 1.0), (0.0, 10.0, 0.5), (100.5, 149.5, 1.0), (0.5, 0.5, 1), (1, 20, 1), (2.5, 2.0, 0.5),
                       (-5.5, 5.5, 1.0), (0.0, 400.0, 0.5)] + [(rng.randrange(0, 40) / 2, rng.randrange(0, 80) / 2, rng.choice([0.5, 1.0])) for _ in range(40)]:
        r = [frac(x) for x in utils.make_line_prices(lo, hi, iv)]
        reqs.append(("line_prices %s %s %s" % (tok(lo), tok(hi), tok(iv)), r, "line", (lo, hi, iv)))
        exp = [frac(lo)]
        while exp[-1] + frac(iv) <= frac(hi):
            exp.append(exp[-1] + frac(iv))
        if r != exp:
            res.violate("line_prices", "make_line_prices(%r,%r,%r) wrong" % (lo, hi, iv), {"check": "line", "args": [lo, hi, iv]})
        res.distribution["line"] += 1
        res.nontrivial.add(("line", lo, hi, iv))

    # ---- D validation
    vcases = []
    currencies = list(currency_parameters) if thorough else ["GBP", "EUR", "USD", rng.choice(list(currency_parameters))]
    deltas = [Fraction(k, 1000) for k in range(-12, 13)] if thorough else [Fraction(k, 1000) for k in (-10, -1, 0, 1, 5, 10)]
    for ccy in currencies:
        cp = currency_parameters[ccy]
        ms, mp, mb = frac(cp["min_bet_size"]), frac(cp["min_bet_payout"]), frac(cp["min_bsp_liability"])
        for mbv in (True, False):
            for side in ("BACK", "LAY"):
                # limit: sizes around min size and around payout/price
                for price in ([Fraction(2), Fraction(101, 100), Fraction(1000), Fraction(5), Fraction(201, 100), Fraction(3, 2), None, Fraction(21, 2)]
                              + [rng.choice(PUB) for _ in range(3)]):
                    bases = {ms, Fraction(0), Fraction(1, 100), mp}
                    if price:
                        bases |= {mp / price, ms / 2}
                    for b in bases:
                        for d in deltas:
                            vcases.append((ccy, mbv, {"kind": "limit", "side": side, "price": price, "size": b + d, "target": None, "ladder": "classic"}))
                for b in (ms, mb, Fraction(0), mp):
                    for d in deltas:
                        vcases.append((ccy, mbv, {"kind": "moc", "side": side, "price": None, "size": b + d, "target": None, "ladder": "classic"}))
                        for price in (Fraction(2), Fraction(201, 100), None, Fraction(1000), Fraction(1001)):
                            vcases.append((ccy, mbv, {"kind": "loc", "side": side, "price": price, "size": b + d, "target": None, "ladder": "classic"}))
    # ladders / odd shapes (GBP)
    for _ in range(3000 if thorough else 600):
        side = rng.choice(["BACK", "LAY"])
        lad = rng.choice(["classic", "finest", ("line", Fraction(1, 2), Fraction(19, 2), Fraction(1)), ("line", Fraction(0), Fraction(10), Fraction(1, 2))])
        if lad == "classic":
            price = rng.choice([rng.choice(PUB), Fraction(rng.randrange(100, 100100), 100), Fraction(rng.randrange(1000, 40000), 1000)])
        elif lad == "finest":
            price = rng.choice([Fraction(rng.randrange(95, 100500), 100), Fraction(rng.randrange(1000, 3000), 1000), Fraction(101, 100), Fraction(1000)])
        else:
            price = Fraction(rng.randrange(-4, 44), 4)
        size = rng.choice([Fraction(rng.randrange(0, 3000), 100), Fraction(rng.randrange(0, 30000), 1000), Fraction(2), None, Fraction(0), Fraction(-1)])
        target = rng.choice([None, None, None, Fraction(rng.randrange(0, 5000), 100), Fraction(12345, 1000)])
        vcases.append(("GBP", rng.random() < 0.8, {"kind": "limit", "side": side, "price": price, "size": size, "target": target, "ladder": lad}))
        vcases.append(("GBP", True, {"kind": "betdaq", "side": side, "price": rng.choice([rng.choice(PUB_BD), rng.choice(PUB), Fraction(rng.randrange(100, 100100), 100), None]),
                                     "size": size, "target": None, "ladder": "classic"}))
    for ccy, mbv, o in vcases:
        cp = currency_parameters[ccy]
        c = (mbv, frac(cp["min_bet_size"]), frac(cp["min_bet_payout"]), frac(cp["min_bsp_liability"]))
        if o["kind"] == "betdaq":
            c = (mbv, Fraction(0), Fraction(0), Fraction(0))
        sz = o["size"] if o["kind"] != "limit" else (o["size"] or o["target"])
        if o["kind"] == "limit" and o["price"] is not None and sz is not None and o["price"] * sz == c[2] and sz < c[1]:
            # payout exactly at the threshold: the code compares the FLOAT product with the threshold; where that product is not
            # the exact one (0.07 x 142.857...) the comparison is a float artefact and is not compared - where it is exact
            # (0.5 x 20, 0.02 x 500 ...) the boundary is compared like any other case
            if (float(o["price"]) * float(sz) < float(c[2])) != (o["price"] * sz < c[2]):
                res.tie_truncated += 1
                continue
            res.distribution["validate:payout-exactly-at-the-threshold"] += 1
        r, order = impl_validate(mods, ccy, mbv, o, simulated=(ccy == "GBP" and o["kind"] != "betdaq" and hash(str(o)) % 3 == 0))
        if r != "OK" and r != "ERR" and o["price"] is None:
            r = "ERR" if order.status == OrderStatus.VIOLATION else r
        line = "validate %s %s %s %s %s %s %s %s %s %s" % (tokb(mbv), tok(c[1]), tok(c[2]), tok(c[3]), o["kind"], o["side"],
                                                           tok(o["price"]), tok(o["size"]), tok(o["target"]), lad_tok(o["ladder"]))
        reqs.append((line, r, "validate", (ccy, mbv, {k: (str(v) if isinstance(v, Fraction) else v) for k, v in o.items()})))
        exp = oracle_validate(c, o)
        viol = (order.status == OrderStatus.VIOLATION)
        if (r == "OK") != exp or (r == "ERR") != viol and r in ("OK", "ERR"):
            res.violate("validate:" + o["kind"], "OrderValidation %s for %s %s (client %s mbv=%s): expected %s; order.status=%s" % (
                r, o["kind"], {k: str(v) for k, v in o.items()}, ccy, mbv, "accept" if exp else "refuse", order.status),
                {"check": "validate", "ccy": ccy, "mbv": mbv, "order": {k: str(v) if isinstance(v, Fraction) else v for k, v in o.items()}})
        res.distribution["validate:" + o["kind"] + (":ok" if r == "OK" else ":" + r)] += 1
        res.nontrivial.add(line)

    res.evaluations += len(reqs) - 2
    # ---- model side
    if model_ok:
        answers = common.run_driver([r[0] for r in reqs])
        for (line, impl, kind, detail), ans in zip(reqs, answers):
            if kind in ("ladder", "line"):
                model = untoklist(ans) if ans not in ("bad-op",) else ans
            elif kind == "validate":
                model = "OK" if ans == "OK" else ("ERR" if ans.startswith("ERR") else ans)
            elif ans in ("ValueError", "bad-op"):
                model = ans
            else:
                model = untok(ans)
            if model != impl:
                res.disagree({"request": line, "model": str(ans)[:200], "implementation": str(impl)[:200], "case": str(detail)[:200]})
    for line, impl, kind, detail in reqs[2:2000:397]:
        res.sample({"request": line, "implementation": str(impl)})


def replay(payload):
    res = common.Result()
    run(res, "quick", payload.get("seed", 0), True, False)
    sig = payload.get("signature")
    hits = [v for v in res.violations if v["signature"] == sig]
    print("replay %s: oracle violations with this signature: %d; model/impl disagreements: %d" % (sig, len(hits), len(res.disagreements)))
    for v in hits[:3]:
        print("  ", v["what"])
    return 1 if hits else 0
