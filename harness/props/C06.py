"""C06 - passive liquidity is never double counted; queue position is honoured (simulation domain)."""
from fractions import Fraction

import simcheck
import simworld
from common import frac

META = {
    "level_text": ("Theorems (Lean 4): a passive fragment is created only from a traded price at or through the order's limit and carries the limit "
                   "price; no fragment while the queue ahead exceeds half the traded volume and the queue never grows; the volume an order writes "
                   "back is at least twice what it matched or queued (potential-function argument: one copy of the traded dict can never fund more "
                   "than half its eligible volume, plus half a penny per fragment, across all orders that consume it); orders are served LAY by "
                   "descending and BACK by ascending price. Model tied to /repo by whole-simulation correspondence (fragments and queue positions "
                   "of every order after every update) with 1-2 strategies, isolation on and off."),
    "level_note": ("Trusted: Lean kernel + standard axioms; hand-written model (SimOrder.processTraded, Mw.matchOrders/sortOrders, RunnerAnalytics) "
                   "validated by correspondence; simulation_available_prices=True is outside the property (documented double counting)."),
    "trusted_base": ["betfairlightweight stream cache (cumulative traded volume ladders)"],
    "assumptions": ["traded volume ladders are cumulative per price (Betfair stream semantics)"],
}

PROJECTION = {"O": ["id", "sm", "piq", "frags", "rem"]}


def gen_opts(rng):
    return {"p_removal": 0.05, "p_suspend": 0.15, "p_inplay": 0.1, "p_close": 0.2, "strategies": rng.choice([1, 2, 2]), "p_act": 0.7,
            "max_updates": 14}


class Oracle(simcheck.BaseOracle):
    def before_action(self, run, sidx, market, action, order, state):
        if action[0] == "update" and order is not None and getattr(order.order_type, "persistence_type", None) is not None:
            self.old_pers.setdefault(order._vidx, order.order_type.persistence_type)

    def __init__(self, sc):
        super().__init__(sc)
        self.old_pers = {}
        self.seen_r = simworld.seen_runners(sc)
        self.index = {}
        for mi, m in enumerate(sc["markets"]):
            for ui, u in enumerate(m["updates"]):
                self.index[(m["id"], u["pt"])] = (mi, ui)
        self.frag_count = {}     # order idx -> number of raw fragments seen
        self.arrival = {}        # order idx -> (ui of arrival, queue ahead at arrival)
        self.queue = {}          # oracle's own queue ledger per order
        self.prev_cum = {}       # (mi, runner) -> {price: cumulative traded} as of the previous update
        self.passive = 0
        self.tainted = set()   # orders that ever shared a runner with another order of their group

    def deltas(self, mi, ui):
        """traded since the previous update, per runner: {price: delta} (new prices whole, non-positive dropped)"""
        out = {}
        for r in self.seen_r[(mi, ui)]:
            if r["status"] != "ACTIVE":
                continue
            cur = {frac(p): frac(s) for p, s in r["trd"]}
            key = (mi, r["id"])
            if key not in self.prev_cum:
                self.prev_cum[key] = cur       # first sight of the runner: baseline, nothing traded "since"
                out[r["id"]] = {}
                continue
            prev = self.prev_cum[key]
            d = {}
            for p, s in cur.items():
                if p in prev:
                    if s - prev[p] > 0:
                        d[p] = s - prev[p]
                else:
                    d[p] = s
            self.prev_cum[key] = cur
            out[r["id"]] = d
        return out

    def after_update(self, run, mb):
        key = (mb.market_id, mb.publish_time_epoch)
        if key not in self.index:
            return
        mi, ui = self.index[key]
        if mb.status == "CLOSED":
            return
        deltas = self.deltas(mi, ui)
        market = run.framework.markets.markets.get(mb.market_id)
        if market is None:
            return
        pt = mb.publish_time_epoch
        iso = self.sc["cfg"]["isolation"]
        groups = {}
        for o in market.blotter:
            if o.order_type.ORDER_TYPE.name != "LIMIT":
                continue
            n0 = self.frag_count.get(o._vidx, 0)
            new = o.simulated.matched[n0:]
            self.frag_count[o._vidx] = len(o.simulated.matched)
            limit = frac(o.order_type.price)
            # arrival bookkeeping: the placement was executed at this update against the previous book
            placed = o.responses._date_time_placed
            if o._vidx not in self.arrival and placed is not None and o.bet_id:
                q = Fraction(0)
                if ui > 0:
                    for r in self.seen_r[(mi, ui - 1)]:
                        if r["id"] == o.selection_id:
                            other = r["atl"] if o.side == "BACK" else r["atb"]
                            for p, s in other:
                                if frac(p) == limit:
                                    q = frac(s)
                                    break
                crossed = any(frac(f[2]) for f in new if f[0] != pt)
                self.arrival[o._vidx] = ui
                self.queue[o._vidx] = Fraction(0) if crossed else q
            passive = [f for f in new if f[0] == pt and frac(f[2]) != 0]
            # the persistence the order had when this update's matching pass ran (an update request made in this
            # update's callback changes order_type.persistence_type at once, after the pass)
            pers = self.old_pers.pop(o._vidx, o.order_type.persistence_type)
            sp_update = mb.bsp_reconciled and pers == "MARKET_ON_CLOSE"
            if sp_update or o._vidx not in self.arrival:
                continue
            d = deltas.get(o.selection_id, {})
            elig = {p: v for p, v in d.items() if (p >= limit if o.side == "BACK" else p <= limit)}
            got = sum(frac(f[2]) for f in passive)
            if passive:
                self.passive += 1
                for f in passive:
                    if frac(f[1]) != limit:
                        self.add("passive-fill-not-at-limit", "order %d: passive fragment at %s, limit %s" % (o._vidx, f[1], limit))
                if not elig:
                    self.add("fill-without-eligible-trade", "order %d (%s @%s) got %s at update %d but nothing traded at or through its limit (traded %s)" % (
                        o._vidx, o.side, limit, got, ui, {str(k): str(v) for k, v in d.items()}))
            g = (o.trade.strategy.sidx if iso else -1, o.selection_id)
            groups.setdefault(g, []).append((o, got, elig, len(passive)))
        for (gs, sel), items in groups.items():
            total = sum(x[1] for x in items)
            nfr = sum(x[3] for x in items)
            union = {}
            for _, _, elig, _ in items:
                union.update(elig)
            cap = sum(union.values()) / 2 + Fraction(5, 1000) * nfr
            if total > cap + Fraction(1, 10**9):
                self.add("double-count", "update %d runner %d group %s: orders were filled %s in total but only %s/2 traded at eligible prices" % (
                    ui, sel, gs, total, sum(union.values())))
            live = [x for x in items if x[0]._vidx in self.arrival and (x[1] or frac(x[0].simulated.size_remaining) > 0 or True)]
            resting = [x for x in items if x[1] or (x[0].status is not None and x[0].status.name in ("EXECUTABLE", "CANCELLING", "UPDATING", "REPLACING", "EXECUTION_COMPLETE"))]
            # lone order: exact amount = min(remaining before, max(0, eligible/2 - queue ahead))
            alive = [x for x in resting if (x[1] or x[0].status.name != "EXECUTION_COMPLETE")]
            if len(alive) > 1 or any(x[0].status is not None and x[0].status.name == "PENDING" for x in items):
                for x in items:
                    self.tainted.add(x[0]._vidx)
            if len(alive) == 1 and alive[0][0]._vidx not in self.tainted and alive[0][0].market_id == mb.market_id:
                o, got, elig, nf = alive[0]
                q = self.queue.get(o._vidx, Fraction(0))
                e = sum(elig.values()) / 2
                before = frac(o.simulated.size_remaining) + got
                if self.arrival.get(o._vidx) == ui:
                    pass  # arrived at this update: its queue was measured on the previous book, traded of this update counts
                exp = min(before, max(Fraction(0), e - q))
                if o.status.name != "EXECUTION_COMPLETE" or got:
                    lapsed_now = mb.status == "SUSPENDED"
                    if not lapsed_now and abs(got - exp) > Fraction(5, 1000) * max(1, len(elig)) + Fraction(1, 10**9):
                        self.add("lone-order-wrong-amount", "order %d alone on runner %d at update %d: filled %s, expected min(%s, max(0, %s - queue %s)) = %s" % (
                            o._vidx, sel, ui, got, before, e, q, exp))
                self.queue[o._vidx] = max(Fraction(0), q - e)
            else:
                # several orders share the volume: keep the per-order queue ledger roughly in step (upper bound only)
                for o, got, elig, nf in alive:
                    q = self.queue.get(o._vidx, Fraction(0))
                    if got > 0:
                        self.queue[o._vidx] = Fraction(0)
                    # better price first: a better-priced order that still wants volume must not be skipped
                better = sorted(alive, key=lambda x: (x[0].side != "LAY", -frac(x[0].order_type.price) if x[0].side == "LAY" else frac(x[0].order_type.price)))
                for i, (o, got, elig, nf) in enumerate(better):
                    for (o2, got2, elig2, nf2) in better[i + 1:]:
                        if o2.side != o.side:
                            continue
                        if got2 > 0 and frac(o.simulated.size_remaining) > 0 and frac(o.simulated._piq) == 0 and o.status.name != "EXECUTION_COMPLETE" \
                                and self.arrival.get(o._vidx, ui) < ui and set(elig2) <= set(elig) and got == 0 and sum(elig.values()) > 0:
                            self.add("worse-price-served-first", "update %d: order %d (%s @%s) got nothing while order %d (@%s) was filled %s" % (
                                ui, o._vidx, o.side, o.order_type.price, o2._vidx, o2.order_type.price, got2))

    def tags(self, run):
        t = set()
        if self.passive:
            t.add("passive-fill")
        if any(v > 0 for v in self.queue.values()):
            t.add("queue-left")
        if len(self.sc["strategies"]) > 1:
            t.add("multi-strategy")
        if not self.sc["cfg"]["isolation"]:
            t.add("isolation-off")
        return t


def make_oracle(sc):
    return Oracle(sc)


def run(res, tier, seed, model_ok, search):
    res.rule = ("whole simulation runs with 1-2 strategies and several resting orders per runner at equal / different prices and sides, cumulative "
                "traded-volume ladders with repeated / unchanged updates, isolation on and off; the oracle keeps an independent ledger of traded "
                "volume per runner and price from the generated stream files and of the queue ahead at arrival. non-trivial = a passive fill "
                "happened; distinct = scenario index")
    simcheck.run(res, "C06", tier, seed, model_ok, search, n_quick=400, n_thorough=12000)


def replay(payload):
    return simcheck.generic_replay("C06", payload)
