"""C03 - order lifecycle: one operation in flight, legal transitions, finality (simulation domain; live double in C11/C12)."""
import common
import simcheck

META = {
    "level_text": ("Whole-run (legal_transitions_whole_run, Props/C03_WholeRun.lean): in every state reachable by any run whose requests go through the order's own "
                   "market, the status log of every order starts with a legal first status, every further entry is a legal step of the documented "
                   "lifecycle from the entry before it, and the status is the last entry - every _update_status of the run was a legal transition. "
                   "Theorems (Lean 4, for every world state): cancel / update / replace are accepted iff the order is EXECUTABLE, has a bet id and a "
                   "compatible type (three iff statements, so loosening or tightening a guard breaks them); a rejection is an error value that "
                   "carries no state; an accepted request appends exactly one legal step (executable -> cancelling / updating / replacing) and keeps "
                   "sizes and bet id; after it - and while a placement is pending - every further request on the order is rejected (at most one "
                   "operation in flight); `executable()` on a complete order changes neither status, log nor sizes (fix 4d8e701); each simulated "
                   "response handler (place / cancel / update), for the order it handles, either leaves a complete order complete or appends exactly "
                   "one step to executable or complete, legal for every in-flight status, and cancel / update responses never change the matched "
                   "size; the completion loop only takes complete orders off the live list or completes an order by one step. Whole-run theorems "
                   "by induction over every function of an update (any markets, any interleaving, any scripts): EXECUTION_COMPLETE is final and "
                   "the order never leaves the blotter (complete_is_final_whole_run); in every reachable state of a run whose requests go through "
                   "the order's own market no order has two operations outstanding (queued packages + pending lists hold each id at most once) and "
                   "an order with an outstanding operation rejects every further cancel / update / replace and every further placement "
                   "(one_operation_in_flight_whole_run, Lemmas/Flight.lean). The per-order facts are tied to whole runs by correspondence on "
                   "status logs, sizes, bet ids, the handler queue and the foreign-request counter after every update."),
    "level_note": ("Trusted: Lean kernel + standard axioms; hand-written world model validated by whole-simulation correspondence. The global claim "
                   "(every status an order ever passes through) is the per-step theorems plus the oracle that wraps BaseOrder._update_status in "
                   "every run; the replace handler's re-placement branch: the replacement order it creates ends EXECUTABLE or EXECUTION_COMPLETE "
                   "(C12 replacement_order_is_settled), the rest of it by correspondence and oracle. Betfair / Betdaq "
                   "live handlers and order-stream mapping: live domain (C11, C12); Betdaq order class: Betdaq.lean (guards iff, in-flight exclusion, "
                   "finality under every report and stream update, legal stream steps) tied to the real BetdaqOrder / BetdaqExecution / "
                   "process_betdaq_current_order by its own correspondence stream."),
    "trusted_base": [],
    "assumptions": ["a refused (VIOLATION) order that never reached the exchange may be submitted again: VIOLATION -> PENDING is not counted as a "
                    "return to life (no bet id)",
                    "one_operation_in_flight_whole_run assumes that every request goes through the market the order was created for (ghost counter "
                    "foreign = 0): flumine does not compare order.market_id with the transaction's market, and a placement through another market "
                    "while the first is in flight is accepted by the real framework and by the model alike (directed foreign-request runs)"],
}

PROJECTION = {"R": True, "O": ["id", "status", "complete", "log", "betid", "sm", "avg", "canc", "laps", "void"], "Q": True, "F": True}

LEGAL = {
    (None, "PENDING"), (None, "VIOLATION"),
    (None, "EXECUTION_COMPLETE"),      # a replacement order whose re-placement the exchange refused is reported complete at once (fix f690683)
    ("PENDING", "EXECUTABLE"), ("PENDING", "EXECUTION_COMPLETE"),
    ("EXECUTABLE", "CANCELLING"), ("EXECUTABLE", "UPDATING"), ("EXECUTABLE", "REPLACING"), ("EXECUTABLE", "EXECUTION_COMPLETE"),
    ("CANCELLING", "EXECUTABLE"), ("CANCELLING", "EXECUTION_COMPLETE"),
    ("UPDATING", "EXECUTABLE"), ("UPDATING", "EXECUTION_COMPLETE"),
    ("REPLACING", "EXECUTABLE"), ("REPLACING", "EXECUTION_COMPLETE"),
    ("EXECUTION_COMPLETE", "EXECUTION_COMPLETE"),
}
LIVE = {"PENDING", "CANCELLING", "UPDATING", "REPLACING", "EXECUTABLE"}
IN_FLIGHT_OF = {"cancel": "CANCELLING", "update": "UPDATING", "replace": "REPLACING"}


def gen_opts(rng):
    return {"p_removal": 0.25, "p_suspend": 0.4, "p_inplay": 0.3, "p_close": 0.4, "p_act": 0.9, "clients": rng.choice([1, 1, 2]),
            "small_limits": rng.random() < 0.3}


class Oracle(simcheck.BaseOracle):
    def __init__(self, sc):
        super().__init__(sc)
        self.transitions = 0
        self.done = {}        # id(order) -> size_matched when it completed with a bet id
        self.removal_seen = set()
        self.snap = None
        self.rejected = 0
        self.accepted = 0
        self.late = 0
        self._orig = None

    # ---- every call of BaseOrder._update_status
    def on_start(self, run):
        from flumine.order.order import BaseOrder
        oracle = self
        self._orig = BaseOrder._update_status

        def wrapped(order, status):
            prev = order.status.name if order.status is not None else None
            oracle.transition(run, order, prev, status.name)
            return oracle._orig(order, status)

        BaseOrder._update_status = wrapped

    def on_end(self, run):
        from flumine.order.order import BaseOrder
        if self._orig is not None:
            BaseOrder._update_status = self._orig

    def transition(self, run, order, prev, new):
        self.transitions += 1
        idx = getattr(order, "_vidx", "?")
        if (prev, new) not in LEGAL:
            if prev == "VIOLATION" and new in ("PENDING", "VIOLATION") and order.bet_id is None:
                pass          # a refused order that never left is submitted (or refused) again
            elif new == "VIOLATION" and prev is not None:
                self.add("refused-request-marks-sent-order-violation", "order %s: %s -> VIOLATION (a request refused by a control marks the order "
                         "that is already at the exchange as a violation)" % (idx, prev))
            else:
                self.add("illegal-transition:%s->%s" % (prev, new), "order %s: status %s -> %s (log %s)" % (
                    idx, prev, new, [x.name for x in order.status_log]))
        if id(order) in self.done and new in LIVE:
            self.add("revived-after-complete", "order %s was reported complete with bet id %s and became %s again (log %s)" % (
                idx, order.bet_id, new, [x.name for x in order.status_log]))

    # ---- requests
    def state_of(self, o):
        ot = o.order_type
        return (o.status, tuple(o.status_log), dict(o.update_data), getattr(ot, "persistence_type", None), getattr(ot, "price", None),
                o.simulated.size_matched, o.simulated.size_cancelled, o.simulated.size_lapsed, o.simulated.size_voided, o.bet_id,
                o.trade.status, tuple(o.trade.status_log))

    def before_action(self, run, sidx, market, a, order, state):
        self.snap = None
        if order is not None and a[0] in ("cancel", "update", "replace"):
            self.snap = (order, self.state_of(order))

    def on_action(self, run, sidx, market, a, result, order):
        if a[0] not in ("cancel", "update", "replace") or order is None or self.snap is None or self.snap[0] is not order:
            return
        before = self.snap[1]
        status_before = before[0].name if before[0] is not None else None
        idx = order._vidx
        kind = order.order_type.ORDER_TYPE.name
        compatible = kind == "LIMIT" or (a[0] == "replace" and kind == "LIMIT_ON_CLOSE")
        if result == "True":
            self.accepted += 1
            if status_before != "EXECUTABLE" or before[9] is None or not compatible:
                self.add("request-accepted-in-wrong-state", "%s accepted on order %d in status %s (bet id %s, type %s)" % (
                    a[0], idx, status_before, before[9], kind))
            elif order.status.name != IN_FLIGHT_OF[a[0]]:
                self.add("accepted-request-not-in-flight", "%s accepted on order %d but status is %s" % (a[0], idx, order.status.name))
            if self.queued(run, order) > 1:
                self.add("two-operations-outstanding", "order %d is in %d queued packages" % (idx, self.queued(run, order)))
        elif result.startswith("EXC:"):
            self.rejected += 1
            if status_before != "EXECUTABLE":
                self.late += 1
            after = self.state_of(order)
            if after != before:
                diff = [i for i, (x, y) in enumerate(zip(before, after)) if x != y]
                self.add("rejected-request-changed-state", "%s on order %d raised %s but changed fields %s" % (a[0], idx, result, diff))
        elif result.startswith("False:"):
            if status_before in ("PENDING", "CANCELLING", "UPDATING", "REPLACING") and order.status.name not in (status_before, "VIOLATION"):
                self.add("request-during-flight-changed-status", "%s on order %d (%s) refused by a control, status now %s" % (
                    a[0], idx, status_before, order.status.name))

    def queued(self, run, order):
        return sum(1 for p in run.framework.handler_queue if order in p._orders)

    # ---- finality
    def after_update(self, run, mb):
        removed = any(r.status == "REMOVED" for r in mb.runners)
        for o in run.orders:
            if o.complete and o.bet_id is not None:
                if id(o) not in self.done:
                    self.done[id(o)] = o.simulated.size_matched
                elif self.done[id(o)] != o.simulated.size_matched:
                    if removed and o.market_id == mb.market_id:
                        self.done[id(o)] = o.simulated.size_matched     # voided / scaled by a non-runner (C09)
                    else:
                        self.add("matched-changed-after-complete", "order %d: matched %s -> %s after it was reported complete" % (
                            o._vidx, self.done[id(o)], o.simulated.size_matched))
            elif id(o) in self.done and not o.complete:
                self.add("revived-after-complete", "order %d is live again (%s) after completion" % (o._vidx, [x.name for x in o.status_log]))
            if self.queued(run, o) > 1:
                self.add("two-operations-outstanding", "order %d is in %d queued packages" % (o._vidx, self.queued(run, o)))

    def tags(self, run):
        t = set()
        if self.transitions:
            t.add("transitions")
        if self.accepted:
            t.add("request-accepted")
        if self.rejected:
            t.add("request-rejected")
        if self.late:
            t.add("request-while-in-flight-or-complete")
        if self.done:
            t.add("completed-with-bet-id")
        if any(len([s for s in o.status_log if s.name == "EXECUTION_COMPLETE"]) and o.status_log[-1].name == "EXECUTION_COMPLETE"
               and any(s.name in ("CANCELLING", "UPDATING", "REPLACING") for s in o.status_log) for o in run.orders):
            t.add("completed-after-request")
        # the assumption of the whole-run theorem (Lemmas/Flight.lean): every request through the order's own market
        t.add("foreign-request" if run.foreign else "all-requests-through-own-market")
        return t


def make_oracle(sc):
    return Oracle(sc)


def foreign_scenarios():
    """the request the whole-run theorem excludes, on the real framework: an order placed again through ANOTHER market while its
    placement is in flight is accepted (the already-placed test looks at the blotter of the transaction's market) - and the model
    says the same (Lean `example` nvForeign); a cancel through another market of an executable order"""
    import directed as d
    out = []
    for second in ("place", "cancel"):
        m1 = d.market(101, [d.update(d.T0, d.two(), acts={"0": [d.create(0, 0, 1, "BACK", 3.0, 4.0), ["place", "o0", None, False],
                                                              d.create(1, 1, 1, "BACK", 3.5, 4.0), ["place", "o1", None, False]]}),
                            d.update(d.T0 + 400, d.two())])
        req = ["place", "o0", None, True] if second == "place" else ["cancel", "o0", None, True]
        m2 = d.market(102, [d.update(d.T0 + (10 if second == "place" else 410), d.two(), acts={"0": [req]}),
                            d.update(d.T0 + 420, d.two())])
        out.append((second, d.scenario([m1, m2], event_processing=True)))
    return out


def foreign_domain(res, model_ok):
    import simworld
    for name, sc in foreign_scenarios():
        lines, _ = simworld.model_lines(sc)
        r = simworld.Run(sc).run()
        impl = [l for _, l in r.out]
        res.evaluations += len(impl)
        res.distribution["foreign-request-run:%s" % name] += 1
        if r.crash:
            res.disagree({"request": "foreign-request run (%s)" % name, "model": "-", "implementation": "crash: %s" % r.crash[:300]})
            continue
        if not model_ok:
            continue
        model = [l for l in common.run_driver(lines, strict=False) if l != ""]
        for i, (a, b) in enumerate(zip(model, impl)):
            if not simworld.tokens_close(a, b):
                res.disagree({"request": "foreign-request run (%s), update %d" % (name, i), "model": a[:1500], "implementation": b[:1500],
                              "fields": simworld.diff_fields(a, b)})
                break
        else:
            res.nontrivial.add("foreign:" + name)
            if not any(l.endswith(" F 1") for l in impl):
                res.disagree({"request": "foreign-request run (%s)" % name, "model": model[-1][-200:], "implementation": impl[-1][-200:],
                              "fields": ["the foreign request was not counted"]})


def legal_table(res, model_ok):
    """the oracle's table of legal steps (LEGAL plus the two steps of a refused order that never left) against the model's
    `Status.legalStep` - the table `legal_transitions_whole_run` is stated with - for every pair of statuses"""
    if not model_ok:
        return
    names = ["PENDING", "CANCELLING", "UPDATING", "REPLACING", "EXECUTABLE", "EXECUTION_COMPLETE", "EXPIRED", "VIOLATION"]
    pairs = [(a, b) for a in [None] + names for b in names]
    answers = common.run_driver(["status.legal %s %s" % (a or "-", b) for a, b in pairs])
    for (a, b), ans in zip(pairs, answers):
        mine = (a, b) in LEGAL or (a == "VIOLATION" and b in ("PENDING", "VIOLATION"))
        res.evaluations += 1
        res.distribution["legal-table"] += 1
        if ans != ("T" if mine else "F"):
            res.disagree({"request": "status.legal %s %s" % (a or "-", b), "model": ans, "implementation": "T" if mine else "F",
                          "case": {"table": "oracle LEGAL vs Status.legalStep"}})


def run(res, tier, seed, model_ok, search):
    legal_table(res, model_ok)
    res.rule = ("whole simulation runs (fills, suspension lapses, removals, turn in-play, close; success / failure responses; requests fired at "
                "orders in every status incl. in flight and complete; responses arriving after completion); every BaseOrder._update_status call "
                "is wrapped and checked against the lifecycle table, every request compared with a before/after snapshot. non-trivial = a request "
                "was accepted or rejected; distinct = scenario index. Live histories of C11 (stream / response races). Betdaq order class: "
                "400 / 6000 random op sequences over 1-3 real BetdaqOrders (requests in every status, place / cancel / update handlers "
                "with shuffled, missing and failed responses, order-stream updates with every Betdaq status and sequence number)")
    simcheck.run(res, "C03", tier, seed, model_ok, search, n_quick=400, n_thorough=10000)
    # the one kind of request the whole-run theorem assumes away, model against the real framework
    foreign_domain(res, model_ok)
    # live-exchange double (the histories of C11): an order never becomes live again after it was reported complete, and is
    # not reported complete while it still rests at the exchange
    from props import C11
    sub = C11.live_findings(tier, seed, search)
    res.evaluations += sub.evaluations
    res.distribution["live-histories"] += sub.evaluations
    for v in sub.violations:
        if v["signature"] in ("revived-after-complete", "partial-cancel-overtaken-by-stream", "live-processing-crashed", "two-operations-in-flight"):
            res.violations.append(v)
        elif v["signature"] == "not-converged" and "complete local True exchange False" in v["what"] or (
                v["signature"] == "not-converged" and "local status EXECUTION_COMPLETE" in v["what"]):
            res.violate("complete-while-resting-at-the-exchange", v["what"], v["replay"])
    # the Betdaq order class: real BetdaqOrder guards, BetdaqExecution handlers and process_betdaq_current_order against the
    # model of Betdaq.lean (`bdq` lines), with the same lifecycle oracle
    import betdaqdomain
    betdaqdomain.run(res, tier, seed, model_ok, search)


def replay(payload):
    if (payload.get("replay") or {}).get("domain") == "betdaq":
        import betdaqdomain
        return betdaqdomain.replay(payload)
    if "scenario" not in (payload.get("replay") or {}):
        from props import C11
        return C11.replay(payload)        # a live-domain history
    return simcheck.generic_replay("C03", payload)
