"""C05 - fills never breach the order's limit; fill-or-kill is all-or-nothing.

Correspondence (pure domain): SimulatedOrder.place on a real BetfairOrder against real MarketBook
resources (built through betfairlightweight's MarketBookCache), versus the Lean model.
Oracle: independent re-matching of the order against the book in fractions.
"""
import random
from fractions import Fraction

import common
from common import frac, tok, tokb

META = {
    "level_text": ("Theorems (Lean 4, for all books of any length/order, all prices, sizes, min fills): every fragment created by the crossing "
                   "match is at or better than the limit and comes from a distinct level with size <= that level and total <= order size; "
                   "a fill-or-kill order ends with matched = 0 or matched >= min fill and nothing remaining; its reported average satisfies the limit; "
                   "with best-price execution off an order priced through the best price fails with everything lapsed and no fragment. "
                   "Model (SimOrder.place) tied to /repo by a correspondence run on the real SimulatedOrder.place with real bflw resources."),
    "level_note": ("Trusted: Lean kernel + standard axioms; hand-written model SimOrder.lean validated by correspondence; exact arithmetic "
                   "(float noise on 2dp sizes produces zero-size fragments in the code, dropped by canonicalisation; cases whose VWAP hits an exact "
                   "half-penny tie are not compared and counted as tie_truncated)."),
    "trusted_base": ["betfairlightweight MarketBookCache builds the book resources"],
    "assumptions": ["bet_target_size placement is NotImplemented in the simulator and outside the model"],
}

DY = [1.25, 1.5, 1.75, 2.0, 2.5, 3.0, 3.5, 4.0, 4.5, 5.0, 5.5, 6.0, 7.0, 8.0, 10.0]
DEC = [1.01, 1.02, 1.5, 1.51, 1.99, 2.0, 2.02, 2.04, 2.5, 3.0, 3.05, 3.1, 4.0, 4.1, 5.0, 5.1, 9.8, 10.0, 10.5]


def gen_case(rng, dyadic):
    P = DY if dyadic else DEC
    q = 4 if dyadic else 100
    side = rng.choice(["BACK", "LAY"])
    n_b, n_l = rng.choice([0, 1, 2, 3, 4, 6]), rng.choice([0, 1, 2, 3, 4, 6])
    mid = rng.randrange(1, len(P) - 1)
    backs = sorted(rng.sample(P[:mid + 1], min(n_b, mid + 1)), reverse=True)
    lays = sorted(rng.sample(P[mid:], min(n_l, len(P) - mid)))
    if rng.random() < 0.05:
        rng.shuffle(backs)
    atb = [(p, rng.randrange(1, 30 * q) / q) for p in backs]
    atl = [(p, rng.randrange(1, 30 * q) / q) for p in lays]
    price = rng.choice(P)
    size = rng.randrange(1, 40 * q) / q
    fok = rng.random() < 0.45
    minfill = None
    if fok:
        minfill = rng.choice([None, None, size, round(size / 2, 2) or size, rng.randrange(1, 45 * q) / q, size + 1.0, 0.0])
    return dict(side=side, price=price, size=size, fok=fok, minfill=minfill, atb=atb, atl=atl,
                bpe=rng.random() < 0.75, full=rng.random() < 0.07,
                mstatus=rng.choices(["OPEN", "SUSPENDED", "CLOSED"], [20, 1, 1])[0],
                rstatus=rng.choices(["ACTIVE", "REMOVED"], [25, 1])[0],
                version=rng.choice([1, 2]), pkgver=rng.choice([None, None, None, 1, 2, 0]),
                persistence=rng.choice(["LAPSE", "PERSIST", "MARKET_ON_CLOSE"]),
                kind=rng.choices(["L", "LOC", "MOC"], [14, 1, 1])[0], liability=rng.randrange(1, 40 * q) / q,
                bsp_market=rng.random() < 0.9, bsp_rec=rng.random() < 0.1, inplay=rng.random() < 0.15, pt=1000 + rng.randrange(0, 5) * 50)


def req_line(c):
    lv = lambda L: ",".join("%s@%s" % (tok(p), tok(s)) for p, s in L) if L else "."  # noqa: E731
    return ("simorder %s %s %s %s %s %s F | place %s %s %s %s %d %s %s %s %d %s %s %s %s %s" % (
        c["side"], c["kind"], tok(c["price"]), tok(c["size"]), tok(c["liability"]), c["persistence"],
        "-" if c["pkgver"] is None else str(c["pkgver"]), tokb(c["bpe"]), tokb(c["full"]), c["mstatus"], c["version"],
        tokb(c["inplay"]), tokb(c["bsp_rec"]), tokb(c["bsp_market"]), c["pt"], c["rstatus"], lv(c["atb"]), lv(c["atl"]),
        tokb(c["fok"]), tok(c["minfill"])))


def agg_frags(matched):
    out = {}
    order = []
    for pt, p, s in matched:
        if frac(s) == 0:
            continue
        k = (int(pt), frac(p))
        if k not in out:
            out[k] = Fraction(0)
            order.append(k)
        out[k] += frac(s)
    return [(k[0], k[1], out[k]) for k in order]


def handicap_lines(c):
    """a quarter of the cases: the order's selection is listed on several handicap lines (an Asian-handicap style market), the
    other lines with ladders of their own; drawn from a generator of its own so that the main random stream stays as it was"""
    zr = random.Random("hc|%r|%r|%r|%r" % (c["atb"], c["atl"], c["price"], c["size"]))
    if zr.random() >= 0.25:
        return 0, []
    P = DY + DEC
    lines = zr.sample([-1.5, -0.5, 0.5, 1.5, 2.5], zr.choice([2, 3]))
    own = zr.choice(lines)
    others = []
    for h in lines:
        if h == own:
            others.append(None)
            continue
        ps = sorted(zr.sample(P, 4))
        others.append((h, [(p, zr.randrange(1, 400) / 4) for p in sorted(ps[:2], reverse=True)], [(p, zr.randrange(1, 400) / 4) for p in ps[2:]]))
    return own, others


def run_impl(mods, c):
    (bb, Trade, ot, config, mock, BaseStrategy) = mods
    own_hc, others = handicap_lines(c)
    if others:
        runners, rcs = [], []
        for x in others:
            if x is None:
                runners.append({"id": 1, "hc": own_hc, "status": c["rstatus"], "af": 20.0})
                rcs.append(bb.rc(1, atb=c["atb"], atl=c["atl"], hc=own_hc))
            else:
                runners.append({"id": 1, "hc": x[0], "status": "ACTIVE", "af": 20.0})
                rcs.append(bb.rc(1, atb=x[1], atl=x[2], hc=x[0]))
        runners.append({"id": 2, "hc": own_hc, "status": "ACTIVE", "af": 80.0})
    else:
        runners = [{"id": 1, "status": c["rstatus"], "af": 20.0}, {"id": 2, "status": "ACTIVE", "af": 80.0}]
        rcs = [bb.rc(1, atb=c["atb"], atl=c["atl"])]
    book = bb.single_book(pt=c["pt"], status=c["mstatus"], version=c["version"], inplay=c["inplay"], bsp_market=c["bsp_market"],
                          bsp_reconciled=c["bsp_rec"], runners=runners, rcs=rcs)
    # the book as flumine sees it (betfairlightweight sorts the ladders)
    rb = [r for r in book.runners if r.selection_id == 1 and (r.handicap or 0) == own_hc][0]
    c["atb"] = [(x["price"], x["size"]) for x in rb.ex.available_to_back]
    c["atl"] = [(x["price"], x["size"]) for x in rb.ex.available_to_lay]
    strategy = mock.Mock(name_hash="0123456789abc")
    trade = Trade("1.1", 1, own_hc, strategy)
    c["lines"] = len(others)
    if c["kind"] == "L":
        otype = ot.LimitOrder(price=c["price"], size=c["size"], persistence_type=c["persistence"],
                              time_in_force="FILL_OR_KILL" if c["fok"] else None, min_fill_size=c["minfill"])
    elif c["kind"] == "LOC":
        otype = ot.LimitOnCloseOrder(liability=c["liability"], price=c["price"])
    else:
        otype = ot.MarketOnCloseOrder(liability=c["liability"])
    order = trade.create_order(c["side"], otype)
    order.client = mock.Mock(simulated_full_match=c["full"], best_price_execution=c["bpe"], paper_trade=False)
    pkg = mock.Mock()
    pkg.market_version = {"version": c["pkgver"]} if c["pkgver"] else None
    pkg.client = order.client
    try:
        resp = order.simulated.place(pkg, book, order.create_place_instruction(), 1)
    except Exception as e:  # noqa
        return "EXC:" + type(e).__name__, None
    s = order.simulated
    return dict(status=resp.status, err=resp.error_code or "-", order_status=resp.order_status, frags=agg_frags(s.matched),
                sm=frac(s.size_matched), avg=frac(s.average_price_matched), canc=frac(s.size_cancelled), laps=frac(s.size_lapsed),
                void=frac(s.size_voided), rem=frac(s.size_remaining), piq=frac(s._piq), raw=s.matched), order


def parse_model(ans):
    t = ans.split()
    if len(t) < 13:
        return None
    fr = [] if t[3] == "." else [tuple(x.split(":")) for x in t[3].split(",")]
    frags = agg_frags([(int(a), Fraction(b), Fraction(c)) for a, b, c in fr])
    return dict(status=t[0], err=t[1], order_status=t[2], frags=frags, sm=Fraction(t[4]), avg=Fraction(t[5]), canc=Fraction(t[6]),
                laps=Fraction(t[7]), void=Fraction(t[8]), rem=Fraction(t[9]), piq=Fraction(t[10]))


def oracle(c, r):
    """property clauses on the implementation's result; returns (signature, text) or None"""
    if c["kind"] != "L" or not isinstance(r, dict):
        return None
    price, size = frac(c["price"]), frac(c["size"])
    side = c["side"]
    avail = c["atb"] if side == "BACK" else c["atl"]
    levels = {}
    for p, s in avail:
        levels[frac(p)] = levels.get(frac(p), Fraction(0)) + frac(s)
    frs = [f for f in r["frags"] if f[0] != 0]  # pt 0 = simulated_full_match top-up
    total = sum(f[2] for f in frs)
    better = (lambda p: p >= price) if side == "BACK" else (lambda p: p <= price)
    if not c["full"]:
        if total > size + Fraction(1, 10**9):
            return ("overfill", "matched %s > size %s" % (total, size))
        for _, p, s in frs:
            if p not in levels or s > levels[p] + Fraction(1, 10**9):
                return ("level-overdrawn", "took %s at %s but book had %s" % (s, p, levels.get(p)))
    if not c["fok"]:
        for _, p, s in frs:
            if not better(p):
                return ("fill-worse-than-limit", "%s fill at %s worse than limit %s" % (side, p, price))
    else:
        if total:
            vw = sum(p * s for _, p, s in frs) / total
            if (side == "BACK" and vw < price - Fraction(5, 1000)) or (side == "LAY" and vw > price + Fraction(5, 1000)):
                return ("fok-vwap-worse-than-limit", "FOK vwap %s worse than limit %s" % (float(vw), price))
        mf = frac(c["minfill"]) if c["minfill"] else size
        if r["status"] == "SUCCESS" and not c["full"]:
            if total != 0 and total < mf:
                return ("fok-below-min-fill", "FOK matched %s below min fill %s" % (total, mf))
            if r["rem"] != 0:
                return ("fok-rests", "FOK order left %s remaining" % r["rem"])
            if r["order_status"] != "EXECUTION_COMPLETE":
                return ("fok-rests", "FOK order reported %s" % r["order_status"])
    if c["mstatus"] == "OPEN" and c["rstatus"] == "ACTIVE" and not (c["pkgver"] and c["pkgver"] != c["version"]):
        best = (frac(avail[0][0]) if avail and avail[0][0] else (Fraction(101, 100) if side == "BACK" else Fraction(1000)))
        through = best > price if side == "BACK" else best < price
        fokbad = c["fok"] and c["minfill"] and frac(c["minfill"]) > size
        if not c["bpe"] and through and not fokbad:
            if r["status"] != "FAILURE" or r["frags"] or r["laps"] != size:
                return ("bpe-off-filled", "BPE off, limit through best price: status %s frags %s lapsed %s" % (r["status"], r["frags"], r["laps"]))
        # independent re-matching for plain limit orders (completeness of the fill)
        if not c["fok"] and not c["full"] and (c["bpe"] or not through):
            rem, exp = size, Fraction(0)
            for p, s in avail:
                if rem == 0 or not better(frac(p)):
                    break
                t = min(rem, frac(s))
                exp += t
                rem -= t
            if total != exp:
                return ("wrong-fill-amount", "matched %s, independent re-matching gives %s" % (total, exp))
    return None


def vwap_tie(c):
    """could the average price be an exact half-penny tie?  Over-approximated on purpose (a tie only stops the comparison of one
    case): every prefix of the ladder walk, in the order generated and in the order the stream cache lists it, and - for a
    force-matching client - every prefix followed by the remainder at the order's own price"""
    avail = c["atb"] if c["side"] == "BACK" else c["atl"]
    size, own = frac(c["size"]), frac(c["price"])
    for levels in (list(avail), sorted(avail, key=lambda ps: frac(ps[0]), reverse=(c["side"] == "BACK"))):
        rem, a, b = size, Fraction(0), Fraction(0)
        if c.get("full") and size and common.is_tie2(own):
            return True
        for p, s in levels:
            if rem == 0:
                break
            t = min(rem, frac(s))
            a += frac(p) * t
            b += t
            rem -= t
            if b and common.is_tie2(a / b):
                return True
            if c.get("full") and rem > 0 and common.is_tie2((a + own * rem) / (b + rem)):
                return True
    return False


def run(res, tier, seed, model_ok, search):
    common.use_repo()
    from unittest import mock
    import bflw_build as bb
    from flumine.order.trade import Trade
    from flumine.order import ordertype as ot
    from flumine import config
    from flumine.strategy.strategy import BaseStrategy

    mods = (bb, Trade, ot, config, mock, BaseStrategy)
    rng = random.Random(seed)
    n = 5000 if tier == "quick" and not search else 100000
    res.rule = ("random books (0..6 levels per side, gaps, occasionally unsorted) x orders (both sides, all prices relative to the book, "
                "FOK with every min-fill shape, BPE on/off, a quarter of the books listing the selection on 2-3 handicap lines with ladders of their own, simulated_full_match, market/runner status, package market version, SP order types); "
                "dyadic and decimal streams; non-trivial = the placement consumed at least one level or took a FOK/BPE decision; distinct = distinct request line")
    cases, lines, impls = [], [], []
    config.simulated = True
    try:
        for i in range(n):
            c = gen_case(rng, dyadic=(i % 2 == 0))
            r = run_impl(mods, c)
            cases.append(c)
            lines.append(req_line(c))
            impls.append(r[0])
    finally:
        config.simulated = False
    res.evaluations = n
    answers = common.run_driver(lines) if model_ok else [None] * n
    keys = ("status", "err", "order_status", "frags", "sm", "avg", "canc", "laps", "void", "rem", "piq")
    for c, line, r, ans in zip(cases, lines, impls, answers):
        tag = "%s:%s:%s" % (c["kind"], "fok" if c["fok"] else "plain", r["err"] if isinstance(r, dict) and r["status"] == "FAILURE" else ("matched" if isinstance(r, dict) and r["frags"] else "rest"))
        res.distribution[tag] += 1
        res.distribution["handicap_lines_of_the_selection:%d" % (c.get("lines") or 1)] += 1
        if isinstance(r, dict) and (r["frags"] or c["fok"] or r["err"] != "-"):
            res.nontrivial.add(line)
        v = oracle(c, r)
        if v:
            res.violate(v[0], "%s | case %s" % (v[1], line), {"line": line, "case": {k: str(x) for k, x in c.items()}})
        if ans is None:
            continue
        if isinstance(r, str):
            res.disagree({"request": line, "implementation": r, "model": ans[:200]})
            continue
        m = parse_model(ans)
        if m is None:
            res.disagree({"request": line, "implementation": "ok", "model": ans[:200]})
            continue
        if c["kind"] == "L" and vwap_tie(c):
            res.tie_truncated += 1
            continue
        diff = [k for k in keys if m[k] != r[k]]
        if diff:
            res.disagree({"request": line, "fields": diff, "model": {k: str(m[k]) for k in diff}, "implementation": {k: str(r[k]) for k in diff}})
    for i in range(0, n, max(1, n // 5)):
        res.sample({"request": lines[i], "implementation": {k: str(v) for k, v in impls[i].items() if k != "raw"} if isinstance(impls[i], dict) else impls[i]})


def replay(payload):
    line = payload["replay"]["line"]
    print("model:", common.run_driver([line])[0])
    print("request line is the failing input; re-run ./check C05 to evaluate it on the implementation")
    return 1
