"""C16 - reported exposure equals the true worst case.

Correspondence (pure domain): real Blotter filled with real BetfairOrder objects (simulated and
live "current_order" views), get_exposures / selection_exposure / market_exposure against the Lean
model.  Oracle: brute-force enumeration of fill subsets and winner sets in fractions.
"""
import itertools
import random
from fractions import Fraction

import common
from common import frac, tok, tokb, untok

META = {
    "level_text": ("Theorems (Lean 4): for every list of orders, the win/lose figures of get_exposures are within 0.01 of the exact worst "
                   "case over every sub-list of open orders filling at their limit price (lower bound for all sub-lists + attained by one), "
                   "selection_exposure = max(0, -min(win, lose)); PENDING/VIOLATION/EXPIRED orders contribute nothing and every other status does; "
                   "exclusion/new_order act as removal/addition when they are different orders (the equal case is a known finding, witness in Lean). "
                   "market_exposure: modelled and checked by correspondence and by the brute-force winner-set oracle; the k-smallest = min over "
                   "k-subsets theorem is listed separately in the evidence when present. Model tied to /repo by the regenerated PENDING_STATUS list and by a "
                   "correspondence run on real Blotter/BetfairOrder objects."),
    "level_note": ("Trusted: Lean kernel + standard axioms; hand-written model Exposure.lean validated by correspondence; exact arithmetic with 0.01 "
                   "rounding slack (code rounds two quantities per side to 2dp); SP orders are represented by their liability (worst case 0 on the other side)."),
    "trusted_base": ["exposure view of an order = its public properties (size_matched, average_price_matched, size_remaining, complete, status, order_type)"],
    "assumptions": ["prices >= 1 and sizes >= 0 (hypotheses of the worst-case theorem)",
                    "number_of_winners <= active runners and all runners with bets are active (hypotheses of the market statement)"],
}

STATUSES = ["PENDING", "CANCELLING", "UPDATING", "REPLACING", "EXECUTABLE", "EXECUTION_COMPLETE", "EXPIRED", "VIOLATION"]
DYADIC_PRICES = [1.25, 1.5, 1.75, 2.0, 2.5, 3.0, 3.5, 4.0, 5.0, 6.0, 8.0, 10.0, 20.0, 100.0]
DEC_PRICES = [1.01, 1.37, 1.99, 2.02, 2.14, 3.05, 3.35, 4.1, 5.7, 9.8, 13.5, 48.0, 85.0, 1000.0]


class Pos:
    """A generated position: list of order specs (dicts)."""


def gen_order(rng, oid, nsel, dyadic):
    side = rng.choice(["BACK", "LAY"])
    kind = rng.choices(["L", "LOC", "MOC"], [8, 1, 1])[0]
    sel = rng.randrange(nsel)
    line = kind == "L" and rng.random() < 0.12
    price = rng.choice(DYADIC_PRICES if dyadic else DEC_PRICES)
    if line:
        price = rng.choice([0.5, 1.5, 2.5, 10.5])
    q = 4 if dyadic else 100
    size = rng.randrange(1, 40 * q) / q
    status = rng.choices(STATUSES + [None], [1, 1, 1, 1, 6, 3, 1, 1, 1])[0]
    split = rng.choice(["none", "part", "full", "part", "cancelled"])
    if split == "none":
        m = 0.0
    elif split == "full":
        m = size
    else:
        m = rng.randrange(1, max(2, int(size * q))) / q
        m = min(m, size)
    mp = rng.choice(DYADIC_PRICES if dyadic else DEC_PRICES)
    cancelled = 0.0
    if split == "cancelled":
        cancelled = round(size - m, 2)
    liab = rng.randrange(1, 40 * q) / q
    return dict(id=oid, sel=sel, side=side, kind=kind, line=line, price=price, size=size, status=status,
                matched=m, mprice=mp, cancelled=cancelled, liability=liab, view=rng.choice(["sim", "live"]))


def build(mods, specs, simulated):
    """real Blotter + real orders for the specs; returns (blotter, strategy, orders_by_id)"""
    (Blotter, Trade, BetfairOrder, ot, OrderStatus, BaseStrategy, config, mock, LineRangeInfo, COMPLETE) = mods
    strategy = BaseStrategy(market_filter={}, name="s")
    blotter = Blotter("1.1")
    client = mock.Mock(paper_trade=False)
    byid = {}
    for sp in specs:
        trade = Trade("1.1", 100 + sp["sel"], 0, strategy)
        if sp["kind"] == "L":
            otype = ot.LimitOrder(price=sp["price"], size=sp["size"],
                                  price_ladder_definition="LINE_RANGE" if sp["line"] else "CLASSIC")
        elif sp["kind"] == "LOC":
            otype = ot.LimitOnCloseOrder(liability=sp["liability"], price=sp["price"])
        else:
            otype = ot.MarketOnCloseOrder(liability=sp["liability"])
        config.simulated = sp["view"] == "sim"
        order = trade.create_order(sp["side"], otype)
        order.client = client
        order._simulated = bool(order.simulated)
        if sp["status"] is not None:
            st = OrderStatus[sp["status"]]
            order.status = st
            order.complete = st in COMPLETE
        if sp["kind"] == "L":
            if sp["view"] == "sim":
                if sp["matched"]:
                    order.simulated.matched = [[1, sp["mprice"], sp["matched"]]]
                    order.simulated.size_matched = sp["matched"]
                    order.simulated.average_price_matched = sp["mprice"]
                order.simulated.size_cancelled = sp["cancelled"]
            else:
                order.responses.current_order = mock.Mock(
                    size_matched=sp["matched"], average_price_matched=sp["mprice"] if sp["matched"] else 0.0,
                    size_remaining=round(sp["size"] - sp["matched"] - sp["cancelled"], 2),
                    size_cancelled=sp["cancelled"], size_lapsed=0.0, size_voided=0.0)
        byid[sp["id"]] = order
    config.simulated = False
    return blotter, strategy, byid


def view_tok(order, sp):
    """protocol token of the order's exposure view, read from the REAL order's public properties"""
    kind = sp["kind"]
    price = getattr(order.order_type, "price", None)
    st = order.status.name if order.status is not None else "-"
    liab = getattr(order.order_type, "liability", 0) or 0
    size = getattr(order.order_type, "size", None)
    return ":".join([str(sp["id"]), str(sp["sel"]), order.side, kind, tokb(sp["line"]), tok(price), st, tokb(order.complete),
                     tok(order.size_matched), tok(order.average_price_matched), tok(order.size_remaining or 0), tok(liab),
                     tok(size), "-", "F", "L" if sp["line"] else "C"])


def exact_parts(order_views):
    """independent oracle on raw attributes: returns exact (matched_win, matched_lose, [(win_term, lose_term) of open orders], sp_win, sp_lose)"""
    mw = ml = Fraction(0)
    opens = []
    spw = spl = Fraction(0)
    for v in order_views:
        if v["status"] in ("PENDING", "VIOLATION", "EXPIRED"):
            continue
        if v["kind"] == "L":
            m = v["matched"]
            if m:
                p = Fraction(2) if v["line"] else v["avg"]
                if v["side"] == "BACK":
                    mw += (p - 1) * m
                    ml -= m
                else:
                    mw -= (p - 1) * m
                    ml += m
            if not v["complete"] and v["remaining"] and (v["line"] or v["price"]):
                p = Fraction(2) if v["line"] else v["price"]
                r = v["remaining"]
                if v["side"] == "BACK":
                    opens.append(((p - 1) * r, -r))
                else:
                    opens.append((-(p - 1) * r, r))
        else:
            if v["side"] == "BACK":
                spl -= v["liability"]
            else:
                spw -= v["liability"]
    return mw, ml, opens, spw, spl


def worst(order_views):
    mw, ml, opens, spw, spl = exact_parts(order_views)
    bw = bl = None
    for k in range(len(opens) + 1):
        for S in itertools.combinations(opens, k):
            w = mw + sum(t[0] for t in S) + spw
            l = ml + sum(t[1] for t in S) + spl
            bw = w if bw is None else min(bw, w)
            bl = l if bl is None else min(bl, l)
    return bw, bl


def raw_view(order, sp):
    return dict(status=order.status.name if order.status is not None else None, kind=sp["kind"], side=order.side, line=sp["line"],
                matched=frac(order.size_matched), avg=frac(order.average_price_matched), complete=order.complete,
                remaining=frac(order.size_remaining or 0), price=frac(getattr(order.order_type, "price", None)),
                liability=frac(getattr(order.order_type, "liability", 0) or 0), sel=sp["sel"], id=sp["id"])


def run(res, tier, seed, model_ok, search):
    common.use_repo()
    from unittest import mock
    from flumine.markets.blotter import Blotter
    from flumine.order.trade import Trade
    from flumine.order.order import BetfairOrder, OrderStatus, COMPLETE_STATUS
    from flumine.order import ordertype as ot
    from flumine.strategy.strategy import BaseStrategy
    from flumine import config
    from betfairlightweight.resources.bettingresources import LineRangeInfo

    mods = (Blotter, Trade, BetfairOrder, ot, OrderStatus, BaseStrategy, config, mock, LineRangeInfo, COMPLETE_STATUS)
    rng = random.Random(seed)
    n = 4000 if tier == "quick" and not search else 60000
    res.rule = ("positions of 0..4 orders per selection on 1..4 selections: both sides, LIMIT/LIMIT_ON_CLOSE/MARKET_ON_CLOSE, classic and line ladders, "
                "any matched/remaining/cancelled split via simulated and current_order views, every status incl. None, exclusion/new_order, "
                "(winners, active runners); dyadic stream = exact agreement, decimal stream = 0.01 only at exact half-penny ties. "
                "non-trivial = at least one order contributes to the figures; distinct = distinct request line")
    reqs = []
    known_excl_new = 0
    for case in range(n):
        dyadic = case % 2 == 0
        nsel = rng.randint(1, 4)
        norders = rng.choice([0, 1, 2, 2, 3, 4, 5, 6, 8])
        specs = [gen_order(rng, i + 1, nsel, dyadic) for i in range(norders)]
        blotter, strategy, byid = build(mods, specs, True)
        for sp in specs:
            blotter[byid[sp["id"]].id] = byid[sp["id"]]
        # optional exclusion / new order
        excl = rng.choice(specs)["id"] if specs and rng.random() < 0.3 else None
        newsp = None
        if rng.random() < 0.35:
            newsp = gen_order(rng, 99, nsel, dyadic)
            newsp["status"] = rng.choice([None, None, "EXECUTABLE", "VIOLATION"])      # VIOLATION: a refused order that is placed again
            _, _, nb = build(mods, [newsp], True)
            new_order = nb[99]
            new_order.trade.strategy = strategy
        else:
            new_order = None
        sel = rng.randrange(nsel)
        lookup = ("1.1", 100 + sel, 0)
        toks = [view_tok(byid[sp["id"]], sp) for sp in specs]
        otok = ",".join(toks) if toks else "."
        views = [raw_view(byid[sp["id"]], sp) for sp in specs]
        # --- get_exposures
        try:
            e = blotter.get_exposures(strategy, lookup, exclusion=byid.get(excl), new_order=new_order if (newsp and newsp["sel"] == sel) else None)
            impl = [e["matched_profit_if_win"], e["matched_profit_if_lose"], e["worst_potential_unmatched_profit_if_win"],
                    e["worst_potential_unmatched_profit_if_lose"], e["worst_possible_profit_on_win"], e["worst_possible_profit_on_lose"]]
        except Exception as ex:  # noqa
            impl = "EXC:" + type(ex).__name__
        ntok = view_tok(new_order, newsp) if (newsp and newsp["sel"] == sel) else "-"
        line = "expo %s %d %s %s" % (otok, sel, str(excl) if excl else "-", ntok)
        # oracle
        ov = [v for v in views if v["sel"] == sel and v["id"] != excl]
        if newsp and newsp["sel"] == sel:
            ov.append(dict(raw_view(new_order, newsp), status=None, complete=False))      # the prospective order counts in full
        mw, ml, opens, spw, spl = exact_parts(ov)
        ties = sum(common.is_tie2(x) for x in (mw, ml, sum((t[0] for t in opens if t[0] < 0), Fraction(0)),
                                                sum((t[1] for t in opens if t[1] < 0), Fraction(0))))
        reqs.append((line, impl, ties, "expo"))
        if isinstance(impl, list):
            ww, wl = worst(ov)
            if abs(frac(impl[4]) - ww) > Fraction(1, 100) + Fraction(1, 10**9) or abs(frac(impl[5]) - wl) > Fraction(1, 100) + Fraction(1, 10**9):
                res.violate("get_exposures", "get_exposures win/lose %s/%s but exact worst case %s/%s" % (impl[4], impl[5], float(ww), float(wl)),
                            {"check": "expo", "line": line})
            if any(v for v in ov if v["status"] not in ("PENDING", "VIOLATION", "EXPIRED")):
                res.nontrivial.add(line)
        res.distribution["expo" + (":excl" if excl else "") + (":new" if ntok != "-" else "")] += 1
        # --- selection_exposure
        try:
            se = blotter.selection_exposure(strategy, lookup)
        except Exception as ex:  # noqa
            se = "EXC:" + type(ex).__name__
        sv = [v for v in views if v["sel"] == sel]
        p = exact_parts(sv)
        ties2 = sum(common.is_tie2(x) for x in (p[0], p[1], sum((t[0] for t in p[2] if t[0] < 0), Fraction(0)),
                                                 sum((t[1] for t in p[2] if t[1] < 0), Fraction(0))))
        reqs.append(("selexp %s %d" % (otok, sel), se, ties2, "selexp"))
        if not isinstance(se, str):
            ww, wl = worst(sv)
            exp = max(Fraction(0), -min(ww, wl))
            if abs(frac(se) - exp) > Fraction(1, 100) + Fraction(1, 10**9):
                res.violate("selection_exposure", "selection_exposure %s but exact %s" % (se, float(exp)), {"check": "selexp", "line": "selexp %s %d" % (otok, sel)})
        # --- market_exposure
        runners_with = {sp["sel"] for sp in specs} | ({newsp["sel"]} if newsp else set())
        active = max(len(runners_with), rng.randint(1, 6)) if rng.random() < 0.9 else rng.randint(0, 5)
        winners = rng.randint(1, max(1, min(3, active))) if rng.random() < 0.9 else rng.randint(0, 4)
        mbook = mock.Mock(number_of_active_runners=active, number_of_winners=winners)
        excl_is_new = False
        if newsp is not None and rng.random() < 0.05 and specs:
            # the REPLACE shape: the same order as exclusion and as new_order (known finding F1)
            excl_is_new = True
        try:
            if excl_is_new:
                o = byid[specs[0]["id"]]
                me = blotter.market_exposure(strategy, mbook, exclusion=o, new_order=o)
            else:
                me = blotter.market_exposure(strategy, mbook, exclusion=byid.get(excl), new_order=new_order)
        except Exception as ex:  # noqa
            me = "EXC:" + type(ex).__name__
        if excl_is_new:
            ntok2 = view_tok(byid[specs[0]["id"]], specs[0])
            mline = "mexp %s %d %d %d %s" % (otok, active, winners, specs[0]["id"], ntok2)
            mviews = list(views)  # removed then added = counted once
        else:
            ntok2 = view_tok(new_order, newsp) if newsp else "-"
            mline = "mexp %s %d %d %s %s" % (otok, active, winners, str(excl) if excl else "-", ntok2)
            mviews = [v for v in views if v["id"] != excl] + ([dict(raw_view(new_order, newsp), status=None, complete=False)] if newsp else [])
        tie_m = 0
        per = {}
        for r in ({v["sel"] for v in views} | ({newsp["sel"]} if (newsp and not excl_is_new) else set())):
            rv = [v for v in mviews if v["sel"] == r]
            # ties are looked for in what the code actually sums: in the REPLACE shape the order is dropped (finding F1b)
            tv = [v for v in rv if v["id"] != specs[0]["id"]] if excl_is_new else rv
            pp = exact_parts(tv)
            tie_m += sum(common.is_tie2(x) for x in (pp[0], pp[1], sum((t[0] for t in pp[2] if t[0] < 0), Fraction(0)),
                                                       sum((t[1] for t in pp[2] if t[1] < 0), Fraction(0))))
            per[r] = worst(rv)
        reqs.append((mline, me, tie_m, "mexp"))
        res.distribution["mexp" + (":excl=new" if excl_is_new else "")] += 1
        if not isinstance(me, str) and winners <= active and len(per) <= active:
            # brute force over winner sets of exactly `winners` runners among `active`
            rs = list(per) + ["pad%d" % i for i in range(active - len(per))]
            best = None
            for W in itertools.combinations(rs, winners):
                tot = Fraction(0)
                for r in rs:
                    if r in per:
                        tot += per[r][0] if r in W else per[r][1]
                best = tot if best is None else min(best, tot)
            slack = Fraction(2, 100) * max(1, len(per)) + Fraction(1, 10**9)
            if best is not None and abs(frac(me) - best) > slack:
                sig = "market_exposure:exclusion-is-new_order" if excl_is_new else "market_exposure"
                res.violate(sig, "market_exposure %s but exact worst over winner sets %s (active=%d winners=%d)" % (me, float(best), active, winners),
                            {"check": "mexp", "line": mline})
            res.nontrivial.add(mline)
    res.evaluations = len(reqs)
    if model_ok:
        answers = common.run_driver([r[0] for r in reqs])
        for (line, impl, ties, kind), ans in zip(reqs, answers):
            if isinstance(impl, str) or ans == "bad-op":
                if ans == "bad-op" or True:
                    res.disagree({"request": line[:300], "model": ans, "implementation": str(impl)})
                continue
            mvals = [untok(x) for x in ans.split()]
            ivals = impl if isinstance(impl, list) else [impl]
            tol = Fraction(1, 10**9) if ties == 0 else Fraction(ties, 100) + Fraction(1, 10**9)
            if ties:
                res.tie_truncated += 1
            if len(mvals) != len(ivals) or any(abs(m - frac(i)) > tol for m, i in zip(mvals, ivals)):
                res.disagree({"request": line[:400], "model": ans, "implementation": [str(x) for x in ivals], "ties": ties})
    for r in reqs[:3000:701]:
        res.sample({"request": r[0][:300], "implementation": str(r[1])})


def replay(payload):
    line = payload["replay"]["line"]
    print("model:", common.run_driver([line])[0])
    print("(re-run ./check C16 to search the implementation again; request line above is the failing input)")
    return 1
