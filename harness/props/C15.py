"""C15 - blotter views are coherent with the orders placed (simulation domain; live-mode adoption in C11)."""
import common
import simcheck

META = {
    "level_text": ("Client views: the order a simulated replace creates carries the client of the order it replaces and the blotter files it under that client "
                   "(or under nobody when its placement is refused) - replacement_filed_under_the_client_of_the_replaced_order. "
                   "Theorems (Lean 4): the blotter is an insertion-ordered list in which blotterAdd appends the order once to the primary list and "
                   "to the live list; every view (by strategy, strategy+selection, client, client+strategy, trade) is a filter of the primary list, "
                   "so each order is in exactly one bucket of each view, namely its own; status / matched-only filters are filters of the views; "
                   "blotterComplete removes exactly that order from the live list; the simulation loop removes an order from the live list only "
                   "when it is complete, and with the finality of completed orders (fix 4d8e701) the live list always contains every order that "
                   "is not complete. Model tied to /repo by whole-simulation correspondence (primary list, live list after every update) and an "
                   "oracle that recomputes every view of the real Blotter from a shadow list of accepted placements."),
    "level_note": ("Trusted: Lean kernel + standard axioms; hand-written world model validated by correspondence; lookup identity (the very object "
                   "placed) is checked on the real objects by the oracle, the model identifies orders by creation index."),
    "trusted_base": [],
    "assumptions": ["orders keyed by their unique id (C19)"],
}

PROJECTION = {"R": True, "O": ["id", "status", "complete", "inblotter", "betid"], "M": True}


def gen_opts(rng):
    return {"p_removal": 0.25, "p_suspend": 0.35, "p_inplay": 0.3, "p_close": 0.5, "strategies": rng.choice([1, 2, 2]), "p_act": 0.75,
            "clients": rng.choice([1, 2, 2])}


class Oracle(simcheck.BaseOracle):
    def __init__(self, sc):
        super().__init__(sc)
        self.shadow = {}      # market id -> list of orders accepted by place_order, in order
        self.left_live = set()
        self.client_at = {}   # id(order) -> client it was placed with (a later refused request may overwrite order.client, see C02)
        self.n = 0

    def _note_new(self, run, market):
        # replacement orders enter the blotter inside the execution of a replace package (no place action): their client is
        # the one they carry when first seen there, before a later (refused) request can overwrite order.client
        if market is not None:
            for o in market.blotter:
                if id(o) not in self.client_at:
                    # (an order that was not placed by the script is a replacement created by the framework (simworld notes which order it replaces): it
                    # belongs to the client THAT order was placed with, whatever its own client attribute says)
                    before = run.replaced.get(id(o))
                    if before is not None and id(before) not in self.client_at:
                        before = None
                    if before is None:
                        self.client_at[id(o)] = o.client
                    elif o.client is not self.client_at[id(before)] and before.client is not self.client_at[id(before)]:
                        # known finding F17 at work: a refused placement through another client's transaction had overwritten the
                        # replaced order's client attribute; the replace then went through THAT client and the replacement is filed
                        # under it - the views and the cleared summaries follow the overwritten attribute from here on
                        self.client_at[id(o)] = o.client
                        self.add("replacement-follows-overwritten-client", "market %s: order %s replaces order %s, which was placed with client %d "
                                 "and whose client attribute a refused placement had overwritten: the replacement belongs to client %d" % (
                                     market.market_id, getattr(o, "_vidx", "?"), getattr(before, "_vidx", "?"),
                                     run.clients.index(self.client_at[id(before)]), run.clients.index(o.client)))
                    else:
                        self.client_at[id(o)] = self.client_at[id(before)]

    def before_action(self, run, sidx, market, action, order, state):
        self._note_new(run, market)

    def on_action(self, run, sidx, market, a, result, order):
        if a[0] == "place" and result == "True" and order is not None:
            self.shadow.setdefault(market.market_id, []).append(order)
            self.client_at[id(order)] = order.client

    def check(self, run, where):
        for market in run.framework.markets:
            b = market.blotter
            sh = list(self.shadow.get(market.market_id, []))
            # replacement orders enter through execute_replace (market.place_order(execute=False)): they are created by the
            # framework, recognisable as orders of a shadowed trade that carry a status log and are not shadowed themselves
            for o in run.orders:
                if o.market_id == market.market_id and o not in sh and o.status_log and o.id in b and any(x.trade is o.trade for x in sh):
                    sh.append(o)
            sh.sort(key=lambda o: list(b._orders).index(o.id) if o.id in b._orders else 10**9)
            self.n += 1
            prim = list(b)
            if [id(o) for o in prim] != [id(o) for o in sh]:
                self.add("primary-map", "%s market %s: blotter holds %s, accepted placements are %s" % (
                    where, market.market_id, [o._vidx for o in prim], [o._vidx for o in sh]))
                continue
            if len({o.id for o in prim}) != len(prim):
                self.add("duplicate-order", "%s: duplicate ids in the blotter" % where)
            strategies = run.strategies
            clients = run.clients
            for st in strategies:
                exp = [o for o in sh if o.trade.strategy is st]
                if [id(o) for o in b.strategy_orders(st)] != [id(o) for o in exp]:
                    self.add("view:strategy", "%s market %s strategy %d: view %s expected %s" % (
                        where, market.market_id, st.sidx, [o._vidx for o in b.strategy_orders(st)], [o._vidx for o in exp]))
                for status_name in ("EXECUTABLE", "EXECUTION_COMPLETE", "PENDING", "VIOLATION"):
                    from flumine.order.order import OrderStatus
                    stt = OrderStatus[status_name]
                    got = b.strategy_orders(st, order_status=[stt])
                    if [id(o) for o in got] != [id(o) for o in exp if o.status == stt]:
                        self.add("filter:status", "%s strategy %d status %s: %s" % (where, st.sidx, status_name, [o._vidx for o in got]))
                got = b.strategy_orders(st, matched_only=True)
                if [id(o) for o in got] != [id(o) for o in exp if o.size_matched > 0]:
                    self.add("filter:matched_only", "%s strategy %d matched_only: %s" % (where, st.sidx, [o._vidx for o in got]))
                from flumine.order.order import OrderStatus
                from flumine.order.trade import TradeStatus
                live_set = [OrderStatus.EXECUTABLE, OrderStatus.PENDING, OrderStatus.CANCELLING, OrderStatus.UPDATING, OrderStatus.REPLACING]
                filters = [({"order_status": [OrderStatus.EXECUTION_COMPLETE]}, lambda o: o.status == OrderStatus.EXECUTION_COMPLETE),
                           ({"order_status": live_set}, lambda o: o.status in live_set),
                           ({"matched_only": True}, lambda o: o.size_matched > 0),
                           ({"order_status": live_set, "matched_only": True}, lambda o: o.status in live_set and o.size_matched > 0)]

                def same(view, expected, what):
                    if [id(o) for o in view] != [id(o) for o in expected]:
                        self.add(what, "%s market %s strategy %d: %s returned %s expected %s" % (
                            where, market.market_id, st.sidx, what, [o._vidx for o in view], [o._vidx for o in expected]))
                sels = {(o.selection_id, o.handicap) for o in sh}
                for sel, hc in sels:
                    e2 = [o for o in exp if o.selection_id == sel and o.handicap == hc]
                    g2 = b.strategy_selection_orders(st, sel, hc)
                    if [id(o) for o in g2] != [id(o) for o in e2]:
                        self.add("view:strategy-selection", "%s strategy %d sel %s: view %s expected %s" % (
                            where, st.sidx, sel, [o._vidx for o in g2], [o._vidx for o in e2]))
                    for kw, pred in filters:
                        same(b.strategy_selection_orders(st, sel, hc, **kw), [o for o in e2 if pred(o)], "filter:strategy-selection")
                for ci, cl in enumerate(clients):
                    e3 = [o for o in exp if self.client_at.get(id(o), o.client) is cl]
                    g3 = b.client_strategy_orders(cl, st)
                    if [id(o) for o in g3] != [id(o) for o in e3]:
                        self.add("view:client-strategy", "%s client %d strategy %d: view %s expected %s" % (
                            where, ci, st.sidx, [o._vidx for o in g3], [o._vidx for o in e3]))
                    for kw, pred in filters:
                        same(b.client_strategy_orders(cl, st, **kw), [o for o in e3 if pred(o)], "filter:client-strategy")
                # the trades of the strategy, in the order in which their first order entered the blotter; by status
                etr = []
                for o in exp:
                    if o.trade not in etr:
                        etr.append(o.trade)
                if [id(t) for t in b.strategy_trades(st)] != [id(t) for t in etr]:
                    self.add("view:strategy-trades", "%s market %s strategy %d: strategy_trades %s expected %s" % (
                        where, market.market_id, st.sidx, [t._vidx for t in b.strategy_trades(st)], [t._vidx for t in etr]))
                for tst in (TradeStatus.LIVE, TradeStatus.COMPLETE, TradeStatus.PENDING):
                    if [id(t) for t in b.strategy_trades(st, trade_status=[tst])] != [id(t) for t in etr if t.status == tst]:
                        self.add("filter:strategy-trades", "%s market %s strategy %d: strategy_trades(%s)" % (where, market.market_id, st.sidx, tst.name))
            for ci, cl in enumerate(clients):
                e4 = [o for o in sh if self.client_at.get(id(o), o.client) is cl]
                g4 = b.client_orders(cl)
                if [id(o) for o in g4] != [id(o) for o in e4]:
                    self.add("view:client", "%s client %d: view %s expected %s" % (where, ci, [o._vidx for o in g4], [o._vidx for o in e4]))
                for kw, pred in [({"order_status": [OrderStatus.EXECUTION_COMPLETE]}, lambda o: o.status == OrderStatus.EXECUTION_COMPLETE),
                                 ({"matched_only": True}, lambda o: o.size_matched > 0)]:
                    gv = b.client_orders(cl, **kw)
                    if [id(o) for o in gv] != [id(o) for o in e4 if pred(o)]:
                        self.add("filter:client", "%s client %d %s: view %s" % (where, ci, sorted(kw), [o._vidx for o in gv]))
            trades = []
            for o in sh:
                if o.trade not in trades:
                    trades.append(o.trade)
            for t in trades:
                e5 = [o for o in sh if o.trade is t]
                g5 = b._trades.get(t, [])
                if [id(o) for o in g5] != [id(o) for o in e5]:
                    self.add("view:trade", "%s trade %d: view %s expected %s" % (where, t._vidx, [o._vidx for o in g5], [o._vidx for o in e5]))
                if b.get_trade(t.id) is not t or not b.has_trade(t):
                    self.add("lookup:trade", "%s trade %d lookup" % (where, t._vidx))
            live = list(b._live_orders)
            for o in sh:
                if b[o.id] is not o or run.framework.markets.get_order(market.market_id, o.id) is not o:
                    self.add("lookup:id", "%s order %d: lookup by id returns another object" % (where, o._vidx))
                if not o.complete and o not in live:
                    self.add("live-order-not-in-live-list", "%s order %d (%s) is not complete but not in the live list" % (
                        where, o._vidx, [x.name for x in o.status_log]))
                if o not in live:
                    self.left_live.add(o._vidx)
                    if not o.complete:
                        pass
                elif o._vidx in self.left_live:
                    self.add("order-back-in-live-list", "%s order %d re-entered the live list" % (where, o._vidx))
                if live.count(o) > 1:
                    self.add("duplicate-in-live-list", "%s order %d" % (where, o._vidx))
                # replacement orders are indexed under the bet id they had when they were inserted
                if o not in self.shadow.get(market.market_id, []) and o.bet_id is not None:
                    if b.get_order_bet_id(o.bet_id) is not o:
                        self.add("lookup:bet-id", "%s replacement order %d not found under its bet id %s" % (where, o._vidx, o.bet_id))
            if bool(b.has_live_orders) != bool(live):
                self.add("has-live-orders", where)

    def in_callback(self, run, strategy, market, market_book):
        self._note_new(run, market)
        self.check(run, "in callback")

    def after_update(self, run, mb):
        self.check(run, "after update")

    def tags(self, run):
        t = set()
        if any(self.shadow.values()):
            t.add("orders-placed")
        if any(o.status_log and o not in [x for v in self.shadow.values() for x in v] for o in run.orders):
            t.add("replacement-order")
        if self.left_live:
            t.add("order-left-live-list")
        if len(run.clients) > 1:
            t.add("multi-client")
        return t


def make_oracle(sc):
    return Oracle(sc)


def run(res, tier, seed, model_ok, search):
    res.rule = ("whole simulation runs with several strategies / clients / selections per market, placements, replacements, completions and "
                "closures; the oracle recomputes every blotter view, filter and lookup of the real Blotter from a shadow list of accepted "
                "placements inside every callback and after every update. non-trivial = at least one order was placed; distinct = scenario index")
    simcheck.run(res, "C15", tier, seed, model_ok, search, n_quick=300, n_thorough=10000)
    # live mode (the histories of C11): live list and lookups of the real Blotter while responses and order-stream snapshots interleave
    from props import C11
    sub = C11.live_findings(tier, seed, search)
    res.evaluations += sub.evaluations
    res.distribution["live-histories"] += sub.evaluations
    for v in sub.violations:
        if v["signature"] in ("live-order-not-in-live-list", "duplicate-in-live-list", "lookup:id", "lookup:bet-id", "live-list-holds-unknown-order", "live-processing-crashed"):
            res.violations.append(v)
    # the other exchange: real BetdaqOrder objects in a real blotter, polled updates through process_betdaq_current_orders while
    # requests are in flight - an order leaves the live list when it is complete and not before
    import betdaqdomain
    sub = common.Result()
    betdaqdomain.run(sub, tier, seed, False, search)
    res.evaluations += sub.evaluations
    res.distribution["betdaq-histories"] += sub.evaluations
    for v in sub.violations:
        if v["signature"] in ("live-order-not-in-live-list", "complete-order-in-live-list", "betdaq-processing-crashed"):
            res.violations.append(v)


def replay(payload):
    if (payload.get("replay") or {}).get("domain") == "betdaq":
        import betdaqdomain
        return betdaqdomain.replay(payload)
    if "scenario" not in (payload.get("replay") or {}):
        from props import C11
        return C11.replay(payload)        # a live-domain history
    return simcheck.generic_replay("C15", payload)
