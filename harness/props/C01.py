"""C01 - exposure limits bound every order that reaches the exchange (simulation domain; arithmetic in C16)."""
import itertools
from fractions import Fraction

import common
from common import frac
import simcheck

META = {
    "level_text": ("Theorems (Lean 4): StrategyExposure accepts a new order iff its own worst-case loss, the selection's worst case with the order "
                   "counted in full and the market's worst case with the order are each within the configured limit (one iff over all eight limit "
                   "configurations and both sides); cancels and updates are never limited; an order refused by strategy.validate_order never passes; "
                   "the exact worst-case figures of a position are the sums of per-order contributions (proved against the get_exposures loop); "
                   "every evolution of an accepted order - fills at its limit price or better, partial / complete cancellation, lapse, completion - "
                   "leaves both contributions at least as good (monotonicity); an accepted BACK / LAY keeps both outcomes of the selection within "
                   "limit + 0.01; hence, by induction over every history of acknowledged placements and evolutions (inductive type Reach), the "
                   "strategy can never lose more than the limit plus a penny on the selection; a placement is queued only if the controls passed and "
                   "a refused one files nothing. Known finding F1 (a price replacement is validated with the old price) has a kernel-checked "
                   "witness. Tied to /repo by whole-simulation correspondence and an independent per-fill recomputation of the worst case at every "
                   "decision and after every update."),
    "level_note": ("Trusted: Lean kernel + standard axioms; hand-written model validated by correspondence (C16 ties the arithmetic, this check "
                   "the decisions and histories). The history theorem covers limit orders on the selection limit; SP orders are accounted at their "
                   "liability (as the code does) and the market limit is covered by the decision iff plus the oracle's brute-force enumeration."),
    "trusted_base": ["an SP order's worst case is its liability (exchange semantics)"],
    "assumptions": ["acknowledgement discipline as stated in the property; runner removals (price reductions) are outside the listed histories"],
}

PROJECTION = {"R": True, "O": ["id", "status", "log", "sm", "avg", "rem"], "Q": True}
NOT_COUNTED = ("PENDING", "VIOLATION", "EXPIRED")


def gen_opts(rng):
    return {"p_removal": 0.0, "p_suspend": 0.3, "p_inplay": 0.3, "p_close": 0.4, "p_act": 0.9, "clients": 1, "strategies": rng.choice([1, 2]),
            "markets": rng.choice([1, 1, 2]), "p_two_winners": 0.4, "max_runners": 5}


def order_exposure(o, price=None):
    ot = o.order_type
    kind = ot.ORDER_TYPE.name
    if kind == "LIMIT":
        size = frac(ot.size or ot.bet_target_size or 0)
        p = frac(price if price is not None else ot.price)
        if ot.price_ladder_definition == "LINE_RANGE":
            return size
        return size if o.side == "BACK" else (p - 1) * size
    return frac(ot.liability)


def contributions(o):
    """(profit if the selection wins, profit if it loses), exact, from the individual fills"""
    ot = o.order_type
    kind = ot.ORDER_TYPE.name
    if kind != "LIMIT":
        liab = frac(ot.liability)
        return (Fraction(0), -liab) if o.side == "BACK" else (-liab, Fraction(0))
    line = ot.price_ladder_definition == "LINE_RANGE"
    fills = [(Fraction(2) if line else frac(p), frac(s)) for _, p, s in o.simulated.matched]
    sm = sum(s for _, s in fills)
    risk = sum((p - 1) * s for p, s in fills)
    rem = Fraction(0) if o.complete else frac(o.simulated.size_remaining)
    lp = Fraction(2) if line else frac(ot.price)
    if o.side == "BACK":
        return risk, -sm - rem
    return -risk - (lp - 1) * rem, sm


def position(orders):
    w = sum((contributions(o)[0] for o in orders), Fraction(0))
    l = sum((contributions(o)[1] for o in orders), Fraction(0))
    return w, l


def slack(orders, n=1):
    return Fraction(1, 100) * n + Fraction(5, 1000) * sum((frac(o.simulated.size_matched) for o in orders), Fraction(0)) + Fraction(1, 10**6)


class Oracle(simcheck.BaseOracle):
    def __init__(self, sc):
        super().__init__(sc)
        self.undisciplined = set()
        self.decisions = 0
        self.refusals = 0
        self.ticks = 0

    def counted(self, market, strategy):
        """orders that are (or were) at the exchange: acknowledged ones, and - whatever their status says - every order
        with a bet id (a refused request may have marked a sent order VIOLATION, recorded finding F2)"""
        return [o for o in market.blotter.strategy_orders(strategy)
                if o.status is not None and (o.status.name not in NOT_COUNTED or (o.bet_id is not None and o.status.name == "VIOLATION"))]

    def f2_tainted(self, orders):
        return any(o.status.name == "VIOLATION" and o.bet_id is not None for o in orders)

    def market_worst(self, market, strategy, extra=None):
        """brute force: the worst profit over every admissible set of winners"""
        mb = market.market_book
        orders = self.counted(market, strategy) + ([extra] if extra is not None else [])
        keys = sorted({(o.selection_id, o.handicap) for o in orders})
        pos = {k: position([o for o in orders if (o.selection_id, o.handicap) == k]) for k in keys}
        n_active = mb.number_of_active_runners
        n_win = mb.number_of_winners
        others = max(0, n_active - len(keys))
        best = None
        for k in range(0, min(n_win, len(keys)) + 1):
            if n_win - k > others and k < min(n_win, len(keys)):
                continue
            for W in itertools.combinations(keys, k):
                tot = sum(pos[x][0] if x in W else pos[x][1] for x in keys)
                best = tot if best is None or tot < best else best
        return best if best is not None else Fraction(0), orders

    def before_action(self, run, sidx, market, a, order, state):
        self.was_placed = order is not None and a[0] == "place" and order.id in market.blotter

    def on_action(self, run, sidx, market, a, result, order):
        if a[0] not in ("place", "replace") or order is None:
            return
        if a[0] == "place" and getattr(self, "was_placed", False):
            return      # a second place of an order that is already in the blotter is rejected whatever the controls say (C02)
        forced = a[3] if a[0] == "place" else a[4]
        st = run.strategies[sidx]
        key = (sidx, market.market_id, order.selection_id, order.handicap)
        same = [o for o in self.counted(market, st) if (o.selection_id, o.handicap) == (order.selection_id, order.handicap) and o is not order]
        if forced or a[0] == "replace":
            if result == "True":
                self.undisciplined.add(key)
        if forced:
            return
        if a[0] == "place" and result == "True":
            if any(o.status is not None and o.status.name == "PENDING" and o is not order and (o.selection_id, o.handicap) == (order.selection_id, order.handicap)
                   for o in market.blotter.strategy_orders(st)):
                self.undisciplined.add(key)
        if a[0] == "replace":
            # the replaced order is excluded, the order is counted at its NEW price
            if result == "True":
                # even at the price the order has NOW (which is what the control looks at, known finding F1) the replaced order counts
                # in full on top of the others: a replacement that exceeds the selection limit on that reckoning was not checked at all
                oe_cur = order_exposure(order)
                w0_, l0_ = position(same)
                side0 = -l0_ if order.side == "BACK" else -w0_
                if st.max_selection_exposure is not None and side0 + oe_cur > frac(st.max_selection_exposure) + slack(same) and not self.f2_tainted(same):
                    self.add("replace-accepted-over-the-selection-limit", "replace of order %d accepted: the other orders of the selection risk %s, "
                             "the order in full at its current price %s, max_selection_exposure %s" % (
                                 order._vidx, float(side0), float(oe_cur), st.max_selection_exposure))
                oe_new = order_exposure(order, price=a[2])
                if st.max_order_exposure is not None and oe_new > frac(st.max_order_exposure) + Fraction(1, 10**6):
                    self.add("replace-validated-at-old-price", "replace of order %d to price %s accepted: its worst-case loss %s exceeds max_order_exposure %s" % (
                        order._vidx, a[2], float(oe_new), st.max_order_exposure))
                w, l = position(same)
                side_now = -l if order.side == "BACK" else -w
                if st.max_selection_exposure is not None and side_now + oe_new > frac(st.max_selection_exposure) + slack(same):
                    self.add("replace-validated-at-old-price", "replace of order %d to price %s accepted: selection worst case %s exceeds %s" % (
                        order._vidx, a[2], float(side_now + oe_new), st.max_selection_exposure))
            return
        oe = order_exposure(order)
        w, l = position(same)
        side_now = -l if order.side == "BACK" else -w
        sl = slack(same)
        if result == "True":
            self.decisions += 1
            if st.max_order_exposure is not None and oe > frac(st.max_order_exposure) + Fraction(1, 10**6):
                self.add("order-limit-exceeded", "order %d accepted with worst-case loss %s > max_order_exposure %s" % (order._vidx, float(oe), st.max_order_exposure))
            if st.max_selection_exposure is not None and side_now + oe > frac(st.max_selection_exposure) + sl:
                self.add("violation-marked-order-dropped-from-exposure" if self.f2_tainted(same) else "selection-limit-exceeded-at-acceptance", "order %d accepted: selection worst case %s + %s > max_selection_exposure %s" % (
                    order._vidx, float(side_now), float(oe), st.max_selection_exposure))
            if st.max_market_exposure is not None:
                mw, os_ = self.market_worst(market, st, extra=order if order.status.name in NOT_COUNTED else None)
                if -mw > frac(st.max_market_exposure) + slack(os_, n=2 * (len(os_) + 1)):
                    retried = any(x.name == "VIOLATION" for x in order.status_log[:-1])
                    self.add("refused-order-placed-again-not-counted" if retried else
                             "violation-marked-order-dropped-from-exposure" if self.f2_tainted(os_) else "market-limit-exceeded-at-acceptance", "order %d accepted: market worst case %s > max_market_exposure %s" % (
                        order._vidx, float(-mw), st.max_market_exposure))
        elif result.startswith("False:STRATEGY_EXPOSURE:"):
            self.refusals += 1
            which = result.split(":")[2]
            if which == "order" and not (st.max_order_exposure is not None and oe > frac(st.max_order_exposure) - Fraction(1, 10**6)):
                self.add("refused-within-limit", "order %d refused for max_order_exposure %s with worst-case loss %s" % (order._vidx, st.max_order_exposure, float(oe)))
            if which == "selection" and not (st.max_selection_exposure is not None and side_now + oe > frac(st.max_selection_exposure) - sl):
                self.add("violation-marked-order-dropped-from-exposure" if self.f2_tainted(same) else "refused-within-limit", "order %d refused for max_selection_exposure %s with selection worst case %s" % (
                    order._vidx, st.max_selection_exposure, float(side_now + oe)))

    def after_update(self, run, mb):
        market = run.framework.markets.markets.get(mb.market_id)
        if market is None:
            return
        self.ticks += 1
        for sidx, st in enumerate(run.strategies):
            if st.max_selection_exposure is None:
                continue
            orders = self.counted(market, st)
            for k in {(o.selection_id, o.handicap) for o in orders}:
                if (sidx, mb.market_id, k[0], k[1]) in self.undisciplined:
                    continue
                os_ = [o for o in orders if (o.selection_id, o.handicap) == k]
                w, l = position(os_)
                worst = max(-w, -l)
                if worst > frac(st.max_selection_exposure) + slack(os_):
                    self.add("violation-marked-order-dropped-from-exposure" if self.f2_tainted(os_) else "selection-limit-exceeded", "strategy %d selection %s: worst-case loss %s > max_selection_exposure %s (orders %s)" % (
                        sidx, k, float(worst), st.max_selection_exposure, [o._vidx for o in os_]))

    def tags(self, run):
        t = set()
        if self.decisions:
            t.add("accepted")
        if self.refusals:
            t.add("refused-by-exposure")
        if self.undisciplined:
            t.add("undisciplined-key")
        return t or {"run"}


def make_oracle(sc):
    return Oracle(sc)


def directed():
    """two places are paid, five runners, orders on two of them: the market's worst case is 'two runners without orders
    win' (both orders lose); BACK 10 then BACK 5 against max_market_exposure 12 -> the second must be refused; then a
    retry of the refused order at the next update (recorded finding F18)"""
    import directed as d
    T0 = d.T0
    five = lambda: [d.runner(i, **d.BOOK) for i in range(1, 6)]
    ups = [
        d.update(T0, five(), acts={"0": [d.create(0, 0, 1, "BACK", 3.0, 10.0), ["place", "t0", None, False]]}),
        d.update(T0 + 200, five()),
        d.update(T0 + 400, five(), acts={"0": [d.create(1, 1, 2, "BACK", 3.0, 5.0), ["place", "t1", None, False]]}),
        d.update(T0 + 600, five(), acts={"0": [d.create(2, 2, 3, "LAY", 2.0, 2.0), ["place", "t2", None, False]]}),
        d.update(T0 + 800, five()),
    ]
    sc1 = d.scenario([d.market(101, ups, mtype="PLACE", winners=2)], max_market=12, max_order=50, max_sel=100)
    return [sc1]


def run(res, tier, seed, model_ok, search):
    res.rule = ("whole simulation runs with every limit configuration (each of the three limits set or None, small values so that they bind), all "
                "order kinds, prior positions built by earlier orders, fills / cancels / lapses / in-play / close afterwards; at every decision and "
                "after every update the worst case is recomputed from the individual fills and compared with the limits. non-trivial = an exposure "
                "decision was taken; distinct = scenario index")
    simcheck.run(res, "C01", tier, seed, model_ok, search, n_quick=400, n_thorough=10000, directed=directed())
    # decision domain: the real StrategyExposure control on real blotters (line-range orders, unknown ladders, every limit
    # configuration incl. 0, PLACE / REPLACE / CANCEL / UPDATE, validate_order refusing) against the model's strategyExposure
    import decisiondomain
    decisiondomain.run(res, tier, seed, model_ok, search)


def replay(payload):
    if (payload.get("replay") or {}).get("domain") == "decision":
        import decisiondomain
        return decisiondomain.replay(payload)
    return simcheck.generic_replay("C01", payload)
