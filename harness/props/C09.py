"""C09 - runner removal voids bets on the runner and reduces the others once (simulation domain)."""
from fractions import Fraction

import common
import simcheck
import simworld
from common import frac

META = {
    "level_text": ("Whole-run (removal_lists_whole_run, removals_applied_once_whole_run): after ANY run every market's own list of applied removals is a fold of a "
                   "small specification over the updates (a non-closing update appends the REMOVED runners of its book that are not in ITS list yet; nothing "
                   "else touches a list), no list ever holds a removal twice, and an update only processes what is not in the list. "
                   "Theorems (Lean 4): after the removal update every order on the removed runner has no fragments, matched 0, cancelled/lapsed 0, "
                   "voided = size (or liability) and nothing remaining, whatever its prior buckets and status (full statement, provable since fix "
                   "9e33719; SP orders are marked reconciled so that they complete, fix 7f9211a); matched fragment prices on other runners become "
                   "max(round2(p(1-af/100)), 1.01) when af >= 2.5 and are unchanged for None / 0 / below the threshold, never below 1.01; the two "
                   "market-on-close lay liability formulas; removal detection is per market, appends each (selection, handicap, factor) once and is "
                   "idempotent (fix 66f6470). Model tied to /repo by whole-simulation correspondence incl. several markets sharing selection ids."),
    "level_note": ("Trusted: Lean kernel + standard axioms; hand-written model (Mw.lean) validated by correspondence; assumption stated in the "
                   "theorem: a removed runner's adjustment factor does not change after removal; reduced prices compared up to exact half-penny ties."),
    "trusted_base": ["betfairlightweight stream cache"],
    "assumptions": ["WIN / PLACE / OTHER_PLACE market types for the SP liability scaling; other types are left unscaled by the code"],
}

PROJECTION = {"O": ["id", "status", "complete", "sm", "avg", "canc", "laps", "void", "rem", "frags", "liab"], "M": True}


def gen_opts(rng):
    return {"p_removal": 0.9, "p_suspend": 0.15, "p_inplay": 0.25, "p_close": 0.6, "markets": rng.choice([1, 2, 2, 3]),
            "event_processing": rng.random() < 0.4, "p_reopen": 0.0, "p_each_way": 0.12}


def reduce_price(p: Fraction, af):
    if af is None or af == 0 or af < Fraction(5, 2):
        return p, False
    x = p * (1 - af / 100)
    return max(common.round2(x), Fraction(101, 100)), common.is_tie2(x)


class Oracle(simcheck.BaseOracle):
    def __init__(self, sc):
        super().__init__(sc)
        self.seen_r = simworld.seen_runners(sc)
        self.index = {}
        for mi, m in enumerate(sc["markets"]):
            for ui, u in enumerate(m["updates"]):
                self.index[(m["id"], u["pt"])] = (mi, ui)
        self.snap = {}          # order idx -> (frags [(pt, price, size)], liability, matched size)
        self.removed_seen = {}  # market index -> set of (sel) already removed
        self.voided = set()
        self.n_removals = 0
        self.n_reduced = 0

    def after_update(self, run, mb):
        key = (mb.market_id, mb.publish_time_epoch)
        if key not in self.index:
            return
        mi, ui = self.index[key]
        market = run.framework.markets.markets.get(mb.market_id)
        if market is None:
            return
        mtype = self.sc["markets"][mi].get("type", "WIN")
        runners = self.seen_r[(mi, ui)]
        known = self.removed_seen.setdefault(mi, set())
        new = [r for r in runners if r["status"] == "REMOVED" and r["id"] not in known] if mb.status != "CLOSED" else []
        for r in new:
            known.add(r["id"])
        self.n_removals += len(new)
        af_of = {r["id"]: (frac(r["af"]) if r["af"] is not None else None) for r in runners}
        pt = mb.publish_time_epoch
        for o in market.blotter:
            if o.market_id != mb.market_id:
                continue
            s = o.simulated
            frs = [(f[0], frac(f[1]), frac(f[2])) for f in s.matched]
            liab = frac(getattr(o.order_type, "liability", 0) or 0)
            prev = self.snap.get(o._vidx)
            who = "order %d (%s %s on runner %d, %s)" % (o._vidx, o.side, o.order_type.ORDER_TYPE.name, o.selection_id, [x.name for x in o.status_log])
            on_removed = [r for r in new if r["id"] == o.selection_id]
            if on_removed and prev is None:
                self.voided.add(o._vidx)      # created after the removal was processed: its placement fails with RUNNER_REMOVED
            elif on_removed:
                self.voided.add(o._vidx)
                size = frac(o.order_type.size) if o.order_type.ORDER_TYPE.name == "LIMIT" else liab
                if frs or frac(s.size_matched) != 0:
                    self.add("void-not-total", "%s: still matched %s after its runner was removed" % (who, s.size_matched))
                if frac(s.size_remaining) != 0 and prev is not None:
                    self.add("void-not-total", "%s: remaining %s after its runner was removed (cancelled %s lapsed %s voided %s)" % (
                        who, s.size_remaining, s.size_cancelled, s.size_lapsed, s.size_voided))
                if frac(s.size_voided) != size and o.status is not None and o.status.name != "PENDING" and any(x.name != "VIOLATION" for x in o.status_log):
                    if frac(s.size_voided) + frac(s.size_cancelled) + frac(s.size_lapsed) != size:
                        self.add("void-not-total", "%s: voided %s of %s" % (who, s.size_voided, size))
                sent = o.bet_id is not None
                if sent and not o.complete and o.status.name not in ("PENDING",):
                    sig = "voided-sp-order-never-completes" if o.order_type.ORDER_TYPE.name != "LIMIT" else "voided-order-not-complete"
                    self.add(sig, "%s: voided but not complete after the removal update (status %s)" % (who, o.status.name))
            elif prev is not None and o._vidx not in self.voided:
                pfr, pliab, _ = prev
                # fragments that existed before this update: reduced once per new removal, in book order
                exp = list(pfr)
                tie = False
                is_moc_lay = o.order_type.ORDER_TYPE.name == "MARKET_ON_CLOSE" and o.side == "LAY"
                eliab = pliab
                for r in new:
                    af = frac(r["af"]) if r["af"] is not None else None
                    if is_moc_lay:
                        if mtype == "WIN":
                            raf = af_of.get(o.selection_id) or Fraction(0)
                            eliab = eliab * (1 - (af or 0) / (100 - raf))
                        elif mtype in ("PLACE", "OTHER_PLACE"):
                            eliab = eliab * (100 - (af or 0)) / 100
                    else:
                        nexp = []
                        for (p0, pr, sz) in exp:
                            q, t = reduce_price(pr, af)
                            tie = tie or t
                            nexp.append((p0, q, sz))
                        exp = nexp
                got = frs[:len(exp)]
                if new and not is_moc_lay and any(a[1] != b[1] for a, b in zip(got, exp)):
                    close = all(abs(a[1] - b[1]) <= Fraction(1, 100) for a, b in zip(got, exp))
                    if not (tie and close):
                        self.add("reduction-wrong", "%s: fragment prices %s after removal(s) %s, expected %s" % (
                            who, [str(a[1]) for a in got], [(r["id"], r["af"]) for r in new], [str(b[1]) for b in exp]))
                    self.n_reduced += 1
                elif new and exp and any(a[1] != b[1] for a, b in zip(pfr, exp)):
                    self.n_reduced += 1
                if not new and any(a[1] != b[1] for a, b in zip(got, pfr)) and not (mb.bsp_reconciled):
                    self.add("reduction-applied-again", "%s: fragment prices changed from %s to %s although no runner was removed in this update" % (
                        who, [str(a[1]) for a in pfr], [str(a[1]) for a in got]))
                if is_moc_lay and abs(liab - eliab) > Fraction(1, 10**6):
                    self.add("moc-liability-wrong", "%s: liability %s, expected %s" % (who, float(liab), float(eliab)))
                if any(b[1] < Fraction(101, 100) for b in frs):
                    self.add("price-below-1.01", "%s: fragment price below 1.01: %s" % (who, [str(b[1]) for b in frs]))
            self.snap[o._vidx] = (frs, liab, frac(s.size_matched))
            # a bet on a non-runner does not rest: whatever its order type and whenever it was placed (before the removal: voided;
            # after it: refused with RUNNER_REMOVED), once the update has been processed it is not live
            gone = any(r["status"] == "REMOVED" and r["id"] == o.selection_id and r.get("hc", 0) == o.handicap for r in runners)
            if gone and mb.status != "CLOSED" and o.status is not None and o.status.name in ("EXECUTABLE", "CANCELLING", "UPDATING", "REPLACING"):
                self.add("live-order-on-a-removed-runner", "%s: %s on a runner that is REMOVED in this update (matched %s, remaining %s)" % (
                    who, o.status.name, s.size_matched, s.size_remaining))
        # a removal present in the book must have been applied in THIS market (even if the same runner / factor
        # was removed in another market before): covered by the per-order checks above, counted here
        if new and len(self.sc["markets"]) > 1:
            self.multi = True

    def tags(self, run):
        t = set()
        if self.n_removals:
            t.add("removal")
        if self.voided:
            t.add("order-voided")
        if self.n_reduced:
            t.add("prices-reduced")
        if getattr(self, "multi", False):
            t.add("removal-in-multi-market-run")
        return t


def make_oracle(sc):
    return Oracle(sc)


def directed():
    """the same selection and factor removed in two markets of one run (sequential)"""
    import random
    import simgen
    out = []
    for s in range(6):
        rng = random.Random(900 + s)
        sc = simgen.gen_scenario(rng, markets=2, p_removal=1.0, p_close=0.5, p_suspend=0.0, p_inplay=0.0, strategies=1, dyadic=True, p_reopen=0.0)
        # force identical adjustment factors and removal of runner 1 in both markets
        for m in sc["markets"]:
            for u in m["updates"]:
                for r in u["runners"]:
                    r["af"] = 20.0
        out.append(sc)
    # starting-price lay liabilities on the OTHER runners, one scenario per market type that has (or has not) a non-runner formula
    import directed as d
    for mtype in ("WIN", "PLACE", "OTHER_PLACE", "OTHER"):
        ra = d.runner(1, af=30.0, atb=[(3.0, 50.0)], atl=[(3.5, 50.0)])
        rb = d.runner(2, af=20.0, atb=[(4.0, 50.0)], atl=[(5.0, 50.0)])
        rc = d.runner(3, af=50.0, atb=[(2.0, 50.0)], atl=[(2.5, 50.0)])
        gone = d.runner(2, af=20.0, status="REMOVED")
        ups = [
            d.update(d.T0, [ra, rb, rc], acts={"0": [d.create(0, 0, 1, "LAY", 3.0, 0.0, kind="MOC", liab=40.0), ["place", "t0", None, False],
                                                      d.create(1, 1, 3, "LAY", 2.5, 0.0, kind="LOC", liab=30.0), ["place", "t1", None, False],
                                                      d.create(2, 2, 3, "BACK", 2.0, 0.0, kind="MOC", liab=12.0), ["place", "t2", None, False]]}),
            d.update(d.T0 + 200, [ra, rb, rc]),
            d.update(d.T0 + 1200, [ra, gone, rc], version=2),
            d.update(d.T0 + 2200, [ra, gone, rc], version=2),
        ]
        out.append(d.scenario([d.market(101, ups, mtype=mtype)], max_live=5, multi=True, max_order=None, max_sel=None))
    return out


def run(res, tier, seed, model_ok, search):
    res.rule = ("whole simulation runs with 1..3 markets (sequential and event-grouped) sharing selection ids, removals before/after in-play, orders in "
                "every state at the moment of removal, all order types; the oracle recomputes the expected post-removal state from the pre-removal "
                "snapshot and the raw runner definitions. non-trivial = a removal hit a market with orders; distinct = scenario index")
    simcheck.run(res, "C09", tier, seed, model_ok, search, n_quick=400, n_thorough=12000, directed=directed())


def replay(payload):
    return simcheck.generic_replay("C09", payload)
