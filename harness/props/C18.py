"""C18 - the transaction-limit control counts exactly and blocks when exceeded (simulation domain + threaded stress)."""
import datetime
import threading

import common
import simcheck

META = {
    "level_text": ("Theorems (Lean 4): the total counters equal the sum of all add_transaction amounts since start-up split by `failed`, whatever "
                   "validations happened in between; the hourly counters accumulate the adds and are restarted from zero exactly by the first "
                   "validation and by any validation whose clock hour (of now + 1h) differs from the stored one, so between restarts they equal the "
                   "quantity added since the last restart; increments commute (any permutation of a multiset of add_transaction calls gives the "
                   "same counters - the model-level content of executions finishing concurrently); once the hourly figure exceeds the limit the "
                   "control is unsafe and stays so for validations in the same hour, the first validation in a new hour is evaluated on zeroed "
                   "counters; no limit never blocks; one client's adds do not touch another client's record. The counting sites (bets submitted + "
                   "failed instructions per handler) are part of the world model and tied to /repo by whole-simulation correspondence with small "
                   "limits (3, 6) so that the limit is crossed, plus an oracle that shadow-counts handler responses."),
    "level_note": ("Trusted: Lean kernel + standard axioms; hand-written model validated by correspondence. Atomicity of `with self._lock` is the "
                   "interpreter's: a 32-thread stress run (1e5 increments) is reported as a runtime observation, not a proof. Live-mode counting "
                   "sites are checked in the live domain (C12)."),
    "trusted_base": ["python datetime / threading.Lock"],
    "assumptions": ["publish times are the clock in simulation; hour boundaries are exercised through the generated publish times"],
}

PROJECTION = {"R": True, "K": True}


def gen_opts(rng):
    return {"p_removal": 0.1, "p_suspend": 0.4, "p_inplay": 0.2, "p_close": 0.3, "clients": rng.choice([1, 2]), "p_act": 0.85,
            "hour_jumps": True, "small_limits": True, "markets": rng.choice([1, 2])}


class Oracle(simcheck.BaseOracle):
    """shadow count, driven by the handler responses the orders receive (each response = one handler run on that order)"""

    def __init__(self, sc):
        super().__init__(sc)
        self.count = {}       # client index -> bets submitted (shadow)
        self.failed = {}      # client index -> failed instructions (shadow)
        self.base = {}        # client index -> shadow total at the last hourly restart
        self.key = {}         # client index -> (date, hour) of now + 1h at the last validation
        self.requests = {}    # id(order) -> FIFO of accepted requests [(kind, client index)]
        self.seen_resp = {}   # id(order) -> (place, cancel, update) response counts already attributed
        self.script_placed = set()
        self.blocked = 0
        self.unanswered_replace = False

    def total(self, ci):
        return self.count.get(ci, 0) + self.failed.get(ci, 0)

    def on_action(self, run, sidx, market, a, result, order):
        if a[0] not in ("place", "cancel", "update", "replace") or order is None:
            return
        forced = a[3] if a[0] != "replace" else a[4]
        self.attribute(run)
        self.compare(run, hourly=False)
        ci = run.client_index(order.client) if order.client is not None else 0
        if not isinstance(ci, int):
            ci = 0
        # MaxTransactionCount is the last control: was it reached by this request?
        reached = (result == "True" or result == "False:MAX_TRANSACTION_COUNT" or result.startswith("EXC:OrderUpdateError")
                   or result == "EXC:OrderError:already-placed") and not forced
        if reached:
            nxt = datetime.datetime.utcnow() + datetime.timedelta(hours=1)
            key = (nxt.date(), nxt.hour)
            if self.key.get(ci) != key:
                self.key[ci] = key
                self.base[ci] = self.total(ci)          # hourly counters restart from zero
            hourly = self.total(ci) - self.base.get(ci, 0)
            limit = self.sc["clients"][ci]["txlimit"]
            over = limit is not None and hourly > limit
            if over and result != "False:MAX_TRANSACTION_COUNT":
                self.add("not-blocked", "client %d: hourly transactions %d > limit %d but the request was not refused (%s)" % (ci, hourly, limit, result))
            if not over and result == "False:MAX_TRANSACTION_COUNT":
                self.add("blocked-below-limit", "client %d: refused at hourly count %d, limit %s" % (ci, hourly, limit))
            if result == "False:MAX_TRANSACTION_COUNT":
                self.blocked += 1
        if result == "True":
            if a[0] == "place":
                self.script_placed.add(id(order))
            self.requests.setdefault(id(order), []).append((a[0], ci))

    def after_update(self, run, mb):
        self.attribute(run)
        self.compare(run)

    def attribute(self, run):
        """attribute handler responses that arrived since the last look (handlers run before the strategy callbacks)"""
        for o in run.orders:
            r = o.responses
            cur = (0 if r.place_response is None else 1, len(r.cancel_responses), len(r.update_responses))
            old = self.seen_resp.get(id(o), (0, 0, 0))
            q = self.requests.get(id(o), [])
            if cur[0] > old[0] and id(o) in self.script_placed:
                k = next((i for i, x in enumerate(q) if x[0] == "place"), None)
                if k is not None:
                    ci = q.pop(k)[1]
                    self.count[ci] = self.count.get(ci, 0) + 1
            for resp in r.cancel_responses[old[1]:cur[1]]:
                k = next((i for i, x in enumerate(q) if x[0] in ("cancel", "replace")), None)
                if k is None:
                    continue
                kind, ci = q.pop(k)
                if kind == "replace":
                    self.count[ci] = self.count.get(ci, 0) + 1
                if resp.status == "FAILURE":
                    self.failed[ci] = self.failed.get(ci, 0) + 1
            for resp in r.update_responses[old[2]:cur[2]]:
                k = next((i for i, x in enumerate(q) if x[0] == "update"), None)
                if k is None:
                    continue
                kind, ci = q.pop(k)
                if resp.status == "FAILURE":
                    self.failed[ci] = self.failed.get(ci, 0) + 1
            self.seen_resp[id(o)] = cur

    def compare(self, run, hourly=True):
        for ci, cl in enumerate(run.clients):
            ctl = run.txc(cl)
            if ctl.failed_transaction_count != self.failed.get(ci, 0):
                self.add("failed-count", "client %d: failed_transaction_count %d, failure responses seen %d" % (
                    ci, ctl.failed_transaction_count, self.failed.get(ci, 0)))
            if ctl.transaction_count != self.count.get(ci, 0):
                # a replace whose order had completed meanwhile is skipped by replace_instructions but still counted by
                # len(order_package): no response reaches the order (recorded finding)
                unanswered = [x for oid, qq in self.requests.items() for x in qq if x[0] == "replace" and x[1] == ci]
                diff = ctl.transaction_count - self.count.get(ci, 0)
                if 0 < diff <= len(unanswered):
                    self.unanswered_replace = True
                    self.add("replace-of-completed-order-counted", "client %d: transaction_count %d but only %d bets were submitted: a replace package "
                             "whose order had completed meanwhile sent no instruction and was still counted" % (ci, ctl.transaction_count, self.count.get(ci, 0)))
                    self.count[ci] = ctl.transaction_count
                else:
                    self.add("transaction-count", "client %d: transaction_count %d, bets submitted per handler responses %d" % (
                        ci, ctl.transaction_count, self.count.get(ci, 0)))
            if hourly and ctl._next_hour is not None and ci in self.key and not self.unanswered_replace:
                hourly = self.total(ci) - self.base.get(ci, 0)
                if ctl.current_transaction_count_total != hourly:
                    self.add("hourly-count", "client %d: hourly total %d, counted since the last restart %d" % (
                        ci, ctl.current_transaction_count_total, hourly))

    def tags(self, run):
        t = set()
        if any(self.count.values()):
            t.add("transactions-counted")
        if any(self.failed.values()):
            t.add("failed-transactions")
        if self.blocked:
            t.add("blocked")
        if len(run.clients) > 1:
            t.add("multi-client")
        if len({k for k in self.key.values()}) > 1 or any(self.base.values()):
            t.add("hourly-restart")
        return t


def make_oracle(sc):
    return Oracle(sc)


def stress(res):
    """runtime observation (not a proof): 32 threads x 3125 add_transaction calls on the real control"""
    import common
    common.use_repo()
    from unittest import mock
    from flumine.controls.clientcontrols import MaxTransactionCount
    from concurrent.futures import ThreadPoolExecutor
    c = MaxTransactionCount(mock.Mock(), mock.Mock(transaction_limit=None))

    def work(i):
        for k in range(3125):
            c.add_transaction(1 + (k % 3), failed=(k % 5 == 0))
    with ThreadPoolExecutor(32) as ex:
        list(ex.map(work, range(32)))
    exp_f = 32 * sum(1 + (k % 3) for k in range(3125) if k % 5 == 0)
    exp_c = 32 * sum(1 + (k % 3) for k in range(3125) if k % 5 != 0)
    ok = (c.transaction_count, c.failed_transaction_count) == (exp_c, exp_f)
    res.runtime_observations["threaded_add_transaction_100000_calls_exact"] = ok
    if not ok:
        res.violate("lost-update-under-threads", "32 threads: counters (%d,%d) expected (%d,%d)" % (
            c.transaction_count, c.failed_transaction_count, exp_c, exp_f), {"check": "stress"})


def run(res, tier, seed, model_ok, search):
    res.rule = ("whole simulation runs with small transaction limits (3, 6, 5000, none), 1-2 clients, packages of every kind with failures (suspended "
                "markets), publish times crossing hour and day boundaries; the oracle shadow-counts handler responses and tracks the hourly restart "
                "itself; plus a 32-thread stress run on the real control. non-trivial = a transaction was counted; distinct = scenario index")
    simcheck.run(res, "C18", tier, seed, model_ok, search, n_quick=400, n_thorough=10000)
    stress(res)
    # live mode: what the real BetfairExecution handlers charge for packages of 1..3 orders of every kind with every pattern of
    # per-instruction failures, timeouts and API errors (the live histories of C12), against the instructions the exchange double
    # received in answered calls and the failures it reported
    from props import C12
    sub = common.Result()
    C12.run_live(sub, tier, seed, False, search)
    res.evaluations += sub.evaluations
    res.distribution["live-packages"] += sub.evaluations
    for v in sub.violations:
        if v["signature"] in ("transaction-count", "replace-of-completed-order-counted"):
            v = dict(v)
            v["replay"] = dict(v.get("replay") or {}, domain="live")
            res.violations.append(v)


def replay(payload):
    if (payload.get("replay") or {}).get("domain") == "live":
        from props import C12
        return C12.replay(payload)
    return simcheck.generic_replay("C18", payload)
