"""C14 - simulation is deterministic, complete and chronological (fresh-process runs; merge / filter model)."""
import json
import multiprocessing as mp
import os
import random
import subprocess
import sys

import common

HERE = os.path.dirname(os.path.dirname(os.path.dirname(os.path.abspath(__file__))))

META = {
    "level_text": ("Theorems (Lean 4, for every set of streams): the event-group merge delivers, stream by stream, exactly that stream's updates in "
                   "the stream's own order (exactly once, order preserved), for the whole run whatever the grouping (event processing on or off, "
                   "any event-group mapping, sequential or merged groups); if every stream is in publish-time order the merged sequence is "
                   "non-decreasing; the stable sort only permutes the cycles and keeps heads ordered; the listener filter lets every non-OPEN update "
                   "through, passes everything without arguments, passes an OPEN update under inplay=True iff the market is in play and under "
                   "seconds_to_start=s iff it is at most s seconds before the off, and yields a sub-sequence of the file. Tied to /repo by running "
                   "the real FlumineSimulation on generated files in FRESH interpreters, twice per scenario with different PYTHONHASHSEED values "
                   "and wall-clock offsets, and comparing the delivered (market, publish time) sequence with the model and the two runs with "
                   "each other (full canonical ledger)."),
    "level_note": ("Trusted: Lean kernel + standard axioms; hand-written model validated by correspondence. Determinism across processes, hash "
                   "seeds and wall clocks, clock == publish time inside callbacks, and restoration of the real datetime class (also when run() "
                   "raises) are runtime observations made on every scenario, not theorems (the model is a function, so its determinism is trivial)."),
    "trusted_base": ["CPython hash randomisation as the source of process-to-process variation", "betfairlightweight stream cache / JSON parsing (not modelled)"],
    "assumptions": ["each generated file holds one market and every update carries a market definition"],
}


def gen(rng):
    import simgen
    nm = rng.choice([1, 2, 2, 3, 4, 5])
    ev = rng.random() < 0.65
    sc = simgen.gen_scenario(rng, markets=nm, strategies=rng.choice([1, 2]), clients=1, event_processing=ev, p_act=0.5, p_close=0.7, p_reopen=0.0,
                             p_removal=0.0, p_inplay=0.6, p_suspend=0.3, min_updates=3, max_updates=rng.choice([4, 9, 14]), dyadic=True)
    for s in sc["strategies"]:
        s["markets"] = list(range(nm))
    # events: same event, all different, or a mix; optional grouping of two events into one group
    events = [rng.choice(["100", "100", "200", "300"]) for _ in range(nm)]
    for m, e in zip(sc["markets"], events):
        m["event"] = e
        m["delta_updates"] = True
        last_pt = m["updates"][-1]["pt"]
        first_pt = m["updates"][0]["pt"]
        m["market_time"] = rng.choice([first_pt + 1500, last_pt + 2000, first_pt - 1000, (first_pt + last_pt) // 2])
        if rng.random() < 0.35 and len(m["updates"]) > 2:
            # the start is rescheduled part-way through the file (a later market definition carries another marketTime)
            k = rng.randrange(1, len(m["updates"]))
            new_mt = m["market_time"] + rng.choice([-3000, -1500, 2500, 6000])
            for u in m["updates"][k:]:
                u["market_time"] = new_mt
    if ev and rng.random() < 0.3:
        sc["event_groups"] = {"200": "G", "300": "G"}
    sc["listener_kwargs"] = rng.choice([{}, {}, {"inplay": True}, {"inplay": False}, {"seconds_to_start": 1}, {"seconds_to_start": 2},
                                        {"max_inplay_seconds": 1}, {"inplay": True, "max_inplay_seconds": 1}, {"inplay": False, "seconds_to_start": 1}])
    # the off as the exchange reports it: the market is flagged in play while it is still SUSPENDED and re-opens in play afterwards
    # (the update that turns it in play is then not an OPEN one); a generator of its own keeps the main stream as it was
    fr = random.Random("flip|%r|%r" % (nm, sc["markets"][0]["updates"][0]["runners"]))
    for m in sc["markets"]:
        if fr.random() < 0.4:
            for a, b in zip(m["updates"], m["updates"][1:]):
                if b["inplay"] and not a["inplay"] and b["status"] == "OPEN":
                    b["status"] = "SUSPENDED"
                    break
    return sc


def child(sc, hashseed, offset, raise_at=None):
    env = dict(os.environ)
    env["PYTHONHASHSEED"] = str(hashseed)
    env["VERIF_CLOCK_OFFSET"] = str(offset)
    # the process's local time zone is part of "the process": the two fresh interpreters of a scenario get different ones
    # (POSIX TZ strings, no zoneinfo database needed); nothing a simulation computes may depend on it
    env["TZ"] = ("UTC0", "EST5", "AEST-10", "IST-5:30")[(int(hashseed) + int(offset)) % 4]
    env.pop("VERIF_RAISE_AT", None)
    if raise_at is not None:
        env["VERIF_RAISE_AT"] = str(raise_at)
    p = subprocess.run([sys.executable, os.path.join(HERE, "harness", "c14_child.py")], input=json.dumps(sc).encode(), stdout=subprocess.PIPE,
                       stderr=subprocess.PIPE, env=env, timeout=300)
    if p.returncode != 0:
        return {"error": p.stderr.decode()[-800:]}
    try:
        return json.loads(p.stdout.decode().strip().splitlines()[-1])
    except Exception as e:   # noqa
        return {"error": "unparsable child output: %r / %s" % (e, p.stdout.decode()[-300:])}


def passes(cfg, st, u, market_time):
    """the documented listener filter, written from the documentation: (new state, yielded?)"""
    prev_inplay, inplay_pt = st
    if cfg.get("max_inplay_seconds") is not None and u["inplay"] and not prev_inplay:
        inplay_pt = u["pt"]
    active = True
    if u["status"] == "OPEN":
        if cfg.get("inplay") is True:
            active = bool(u["inplay"])
        elif cfg.get("seconds_to_start"):
            active = (market_time - u["pt"]) <= cfg["seconds_to_start"] * 1000
        if cfg.get("inplay") is False and u["inplay"]:
            active = False
        if cfg.get("max_inplay_seconds") is not None and inplay_pt is not None and (u["pt"] - inplay_pt) > cfg["max_inplay_seconds"] * 1000:
            active = False
    return (u["inplay"], inplay_pt), active


def expected_streams(sc):
    cfg = sc.get("listener_kwargs") or {}
    out = {}
    for m in sc["markets"]:
        st = (False, None)
        pts = []
        for u in m["updates"]:
            st, ok = passes(cfg, st, u, u.get("market_time", m["market_time"]))
            if ok:
                pts.append(u["pt"])
        out[m["id"]] = pts
    return out


def directed_empty_stream():
    """event group of two markets, inplay=True: the second market never goes in play and its file has no closing update, so its
    stream yields nothing (regression of F19)"""
    import directed as d
    T0 = d.T0
    m1 = d.market(101, [d.update(T0, d.two()), d.update(T0 + 100, d.two(), inplay=True, version=2), d.update(T0 + 300, d.two(), inplay=True, version=2)])
    m2 = d.market(102, [d.update(T0 + 50, d.two()), d.update(T0 + 150, d.two()), d.update(T0 + 250, d.two())])
    sc = d.scenario([m1, m2], event_processing=True)
    for m in sc["markets"]:
        m["delta_updates"] = True
        m["market_time"] = T0 + 100
    sc["listener_kwargs"] = {"inplay": True}
    return sc


def directed_inplay_flip_while_suspended(with_inplay_filter=False):
    """max_inplay_seconds counts from the update that turns the market in play - also when that update is a SUSPENDED one (the off as
    the exchange reports it) and the market re-opens in play afterwards: the in-play updates later than the limit are filtered out"""
    import directed as d
    T0 = d.T0
    ups = [d.update(T0, d.two()), d.update(T0 + 500, d.two()),
           d.update(T0 + 1000, d.two(atb=[], atl=[]), status="SUSPENDED", inplay=True, version=2),
           d.update(T0 + 1400, d.two(), inplay=True, version=3), d.update(T0 + 1900, d.two(), inplay=True, version=3),
           d.update(T0 + 2600, d.two(), inplay=True, version=3), d.update(T0 + 4000, d.two(), inplay=True, version=3),
           d.update(T0 + 6000, d.two(), inplay=True, version=3)]
    sc = d.scenario([d.market(101, ups)])
    for m in sc["markets"]:
        m["delta_updates"] = True
        m["market_time"] = T0 + 1000
    sc["listener_kwargs"] = {"inplay": True, "max_inplay_seconds": 1} if with_inplay_filter else {"max_inplay_seconds": 1}
    return sc


DIRECTED = [directed_empty_stream, directed_inplay_flip_while_suspended, lambda: directed_inplay_flip_while_suspended(True)]


def _work(args):
    seed, idx = args
    rng = random.Random((seed * 7919 + idx) & 0xFFFFFFFF)
    sc = DIRECTED[idx]() if idx < len(DIRECTED) else gen(rng)
    a = child(sc, hashseed=rng.randint(1, 10**6), offset=0)
    b = child(sc, hashseed=rng.randint(1, 10**6), offset=rng.choice([3600.0, 86400.0 * 3, 12345.6]))
    last = max(u["pt"] for m in sc["markets"] for u in m["updates"])
    first = min(u["pt"] for m in sc["markets"] for u in m["updates"])
    c = child(sc, hashseed=rng.randint(1, 10**6), offset=0, raise_at=rng.choice([first, (first + last) // 2]))
    return {"idx": idx, "sc": sc, "a": a, "b": b, "c": c}


def run(res, tier, seed, model_ok, search):
    res.rule = ("file sets of 1..5 markets (equal and unequal lengths, identical publish times, same / different events, event-group mapping), "
                "event_processing on / off, listener filters (inplay True / False, seconds_to_start, max_inplay_seconds, combinations), strategies "
                "placing orders; every scenario runs three times in fresh interpreters (two hash seeds and wall clocks; one run that raises from a "
                "callback). non-trivial = more than one stream or a filter; distinct = scenario index")
    n = 600 if (tier != "quick" or search) else 48
    outs = common.pmap(_work, [(seed, i) for i in range(n)], chunksize=1)
    lines, expects, metas = [], [], []
    differing_hash = 0
    for o in outs:
        sc, a, b, c = o["sc"], o["a"], o["b"], o["c"]
        res.evaluations += 1
        payload = {"scenario_index": o["idx"], "seed": seed, "scenario": sc}
        if "error" in a or "error" in b:
            res.disagree({"scenario_index": o["idx"], "harness_error": (a.get("error") or b.get("error"))[:600]})
            continue
        cfg = sc.get("listener_kwargs") or {}
        res.distribution["markets:%d" % len(sc["markets"])] += 1
        res.distribution["event_processing:%s" % bool(sc.get("event_processing"))] += 1
        res.distribution["filter:%s" % (",".join(sorted(cfg)) or "none")] += 1
        if len(sc["markets"]) > 1 or cfg:
            res.nontrivial.add(o["idx"])
        if a.get("crash") or b.get("crash"):
            res.violate("simulation-crashed", "run died: %s" % (a.get("crash") or b.get("crash")), payload)
            continue
        # ---- determinism across processes, hash seeds, wall clocks
        if a["set_order"] != b["set_order"] or a["first_order_id"] != b["first_order_id"]:
            differing_hash += 1
        if a["out"] != b["out"]:
            k = next((i for i, (x, y) in enumerate(zip(a["out"], b["out"])) if x != y), min(len(a["out"]), len(b["out"])))
            res.violate("not-deterministic", "two runs of the same data differ at update %d: %s | %s" % (
                k, str(a["out"][k] if k < len(a["out"]) else None)[:200], str(b["out"][k] if k < len(b["out"]) else None)[:200]), payload)
        # ---- clock
        if not a["clock_ok"] or not b["clock_ok"]:
            res.violate("clock-not-publish-time", "utcnow() inside a callback differs from the publish time of the update", payload)
        if not a["restored"] or not b["restored"]:
            res.violate("clock-not-restored", "datetime.datetime is not the real class after run()", payload)
        if "error" in c:
            res.disagree({"scenario_index": o["idx"], "harness_error": c["error"][:600]})
        else:
            if c.get("crash"):
                res.distribution["run-raised"] += 1
            if not c["restored"]:
                res.violate("clock-not-restored", "datetime.datetime is not the real class after run() raised (%s)" % c.get("crash"), payload)
        # ---- completeness and order, against the files
        exp = expected_streams(sc)
        seq = [(x[0], x[1]) for x in a["out"]]
        for mid, pts in exp.items():
            got = [pt for m, pt in seq if m == mid]
            if got != pts:
                missing = [p for p in pts if p not in got]
                extra = [p for p in got if p not in pts]
                sig = "update-lost" if missing else "update-duplicated-or-unfiltered" if extra or len(got) > len(pts) else "market-order-not-preserved"
                res.violate(sig, "market %s: delivered %s, the file and filter %s give %s" % (mid, got[:12], cfg, pts[:12]), payload)
                break
        if sc.get("event_processing"):
            # markets of one event group are interleaved in publish-time order
            groups = {}
            for m in sorted(sc["markets"], key=lambda m: m["id"]):
                g = (sc.get("event_groups") or {}).get(m["event"], m["event"])
                groups.setdefault(g, []).append(m["id"])
            for g, mids in groups.items():
                if len(mids) < 2:
                    continue
                sub = [pt for m, pt in seq if m in mids]
                if sub != sorted(sub):
                    res.violate("not-chronological", "event group %s: publish times delivered %s" % (g, sub[:16]), payload)
                    break
        # ---- model
        ids = {m["id"]: i for i, m in enumerate(sorted(sc["markets"], key=lambda m: m["id"]))}
        gnum = {}
        streams = []
        for m in sorted(sc["markets"], key=lambda m: m["id"]):
            if sc.get("event_processing"):
                g = (sc.get("event_groups") or {}).get(m["event"], m["event"])
                gtok = str(gnum.setdefault(g, len(gnum) + 1))
            else:
                gtok = "-"
            raws = ",".join("%d:%s:%s:%d" % (u["pt"], u["status"], "T" if u["inplay"] else "F", u.get("market_time", m["market_time"])) for u in m["updates"])
            lines.append("merge.filter %s %s %s %s" % ("-" if cfg.get("inplay") is None else ("T" if cfg["inplay"] else "F"),
                                                      cfg.get("seconds_to_start") or "-", "-" if cfg.get("max_inplay_seconds") is None else cfg["max_inplay_seconds"], raws))
            expects.append(("filter", ",".join(str(p) for p in [pt for mm, pt in seq if mm == m["id"]]) or "."))
            metas.append(payload)
            streams.append("%d:%s:%s" % (ids[m["id"]], gtok, "+".join(str(p) for p in exp[m["id"]]) or "."))
        lines.append("merge.run " + ";".join(streams))
        expects.append(("run", ",".join("%d@%d" % (ids[m], pt) for m, pt in seq) or "."))
        metas.append(payload)
    res.runtime_observations["scenarios_with_different_hash_order_or_order_ids_between_the_two_runs"] = differing_hash
    res.runtime_observations["two_fresh_process_runs_identical"] = not any(v["signature"] == "not-deterministic" for v in res.violations)
    res.evaluations += len(lines)
    if model_ok and lines:
        answers = common.run_driver(lines)
        for line, (kind, impl), ans, pl in zip(lines, expects, answers, metas):
            if kind == "run":
                ans = ",".join("@".join(t.split("@")[:2]) for t in ans.split(",")) if ans != "." else "."
            if ans != impl:
                res.disagree({"request": line[:800], "model": ans[:600], "implementation": impl[:600], "scenario_index": pl["scenario_index"]})


def replay(payload):
    rp = payload.get("replay") or {}
    sc = rp.get("scenario")
    if not sc:
        print("no scenario in this replay:", str(payload)[:800])
        return 1
    a = child(sc, 1, 0)
    b = child(sc, 2, 3600.0)
    print("runs identical:", a.get("out") == b.get("out"), "| clock ok:", a.get("clock_ok"), "| restored:", a.get("restored"))
    print("delivered:", [(x[0], x[1]) for x in a.get("out", [])][:40])
    print("expected per market:", expected_streams(sc))
    return 1
