"""C10 - trade and runner accounting follows the real state of the orders (simulation domain)."""
import datetime

import simcheck

META = {
    "level_text": ("Cool-downs: an unforced placement that validate_order lets through is outside both cool-down windows - no exception at an elapsed time of "
                   "exactly zero since fix F25 - and a placement refused for a cool-down is inside it (cool_downs_respected, cool_down_refusal_is_inside). "
                   "Theorems (Lean 4) over the order / trade / runner-context state machines of the world model: RunnerContext.place adds a trade "
                   "to trades and live_trades at most once and never removes; reset removes exactly that trade from live_trades; a trade's "
                   "status log gains COMPLETE only through complete_trade, which is reached only when the trade is LIVE, not flagged "
                   "pending_orders and all its orders are complete, and it then frees exactly its slot; an order status update to a "
                   "complete non-VIOLATION status completes the trade iff it was the last live order; a completed order is never made "
                   "executable again (fix 4d8e701); validate_order refuses a placement that would exceed max_trade_count / "
                   "max_live_trade_count or fall inside a cool-down. The lockout through a VIOLATION set by a refused cancel/update/replace "
                   "(F2/F10) is a recorded known finding with a Lean witness. Model tied to /repo by whole-simulation correspondence "
                   "(trades, runner contexts, timestamps after every update) and an oracle that recounts from the blotter."),
    "level_note": ("Trusted: Lean kernel + standard axioms; hand-written world model validated by correspondence. Trades flagged pending_orders "
                   "are excluded by the property; an order created in a trade but never placed keeps the trade open (quantifier: every created "
                   "order is placed); forced placements bypass validate_order by design."),
    "trusted_base": [],
    "assumptions": ["live-mode (order stream) accounting is checked in the live domain of C11"],
}

PROJECTION = {"R": True, "O": ["id", "status", "complete"], "T": True, "C": True}


def gen_opts(rng):
    return {"p_removal": 0.25, "p_suspend": 0.35, "p_inplay": 0.3, "p_close": 0.4, "strategies": rng.choice([1, 2]), "p_act": 0.75,
            "p_handicap": 0.2}       # runners that are a selection id PLUS a handicap: the runner context is keyed by both


def own_elapsed(then):
    # seconds since `then` on the (simulated) clock, computed here and not read from the runner context: sub-second gaps count, and so
    # does a gap of exactly zero (a trade that completes at an update and a placement in the callback of that same update)
    import datetime
    if then is None:
        return None
    return (datetime.datetime.utcnow() - then).total_seconds()


class Oracle(simcheck.BaseOracle):
    def __init__(self, sc):
        super().__init__(sc)
        self.forced = set()      # (strategy idx, market id, sel) where a forced placement happened (controls bypassed)
        self.n_checked = 0
        self.n_complete = 0
        self.multi = False
        self.last_placed = {}    # (strategy idx, runner lookup) -> simulated time of the last accepted, executed placement (own record)

    def before_action(self, run, sidx, market, a, order, state):
        self.pre = None
        if a[0] == "place" and order is not None:
            ctx = order.trade.strategy._invested.get(order.lookup)
            self.pre_msg = order.violation_msg
            self.pre = (order, None) if ctx is None else (
                order, {"live": order.trade.id in ctx.live_trades, "known": order.trade.id in ctx.trades,
                        "reset": own_elapsed(ctx.datetime_last_reset), "placed": own_elapsed(ctx.datetime_last_placed),
                        # the oracle's own record of the last placement on this runner (any trade of the strategy, live or new): the
                        # context's timestamp is what the code under test maintains, so it is not what the accept clause is judged by
                        "placed_own": own_elapsed(self.last_placed.get((sidx, order.lookup))),
                        "n_live": ctx.live_trade_count, "n": ctx.trade_count})

    def on_action(self, run, sidx, market, a, result, order):
        if a[0] == "place" and a[3] and order is not None:
            self.forced.add((sidx, market.market_id, order.selection_id))
        placed_now = a[0] == "place" and result == "True" and order is not None
        if a[0] == "place" and result == "True" and order is not None and not a[3]:
            # accepted, unforced placement: the limits held counting this trade
            st = order.trade.strategy
            ctx = st.get_runner_context(*order.lookup)
            key = (sidx, market.market_id, order.selection_id)
            pre = self.pre[1] if (getattr(self, "pre", None) and self.pre[0] is order) else None
            # the multi-order shortcut applies only to a trade that was LIVE on this runner before the request
            shortcut = st.multi_order_trades and pre is not None and pre["live"]
            if key not in self.forced:
                if ctx.trade_count > st.max_trade_count:
                    self.add("max-trade-count-exceeded", "strategy %d runner %s: trade_count %d > max %d after an accepted placement" % (
                        sidx, order.lookup, ctx.trade_count, st.max_trade_count))
                if ctx.live_trade_count > st.max_live_trade_count and not shortcut:
                    self.add("max-live-trade-count-exceeded", "strategy %d runner %s: live_trade_count %d > max %d after an accepted placement" % (
                        sidx, order.lookup, ctx.live_trade_count, st.max_live_trade_count))
                if pre is not None and not shortcut:
                    if pre["reset"] is not None and pre["reset"] < order.trade.reset_seconds:
                        self.add("cool-down-ignored", "strategy %d runner %s: order accepted %.3fs after the last reset, reset_seconds %s" % (
                            sidx, order.lookup, pre["reset"], order.trade.reset_seconds))
                    if pre["placed"] is not None and pre["placed"] < order.trade.place_reset_seconds:
                        self.add("cool-down-ignored", "strategy %d runner %s: order accepted %.3fs after the last placement, place_reset_seconds %s" % (
                            sidx, order.lookup, pre["placed"], order.trade.place_reset_seconds))
                    elif pre["placed"] is not None and pre.get("placed_own") is not None and pre["placed_own"] < order.trade.place_reset_seconds:
                        # (only for a context that knows of a placement: a context created afresh - market removed and seen again -
                        # legitimately starts without one)
                        self.add("cool-down-ignored", "strategy %d runner %s: order accepted %.3fs after the last placement on the runner (own record; the "
                                 "context's datetime_last_placed is %s s old), place_reset_seconds %s" % (
                                     sidx, order.lookup, pre["placed_own"], pre["placed"], order.trade.place_reset_seconds))

        if placed_now:
            import datetime
            self.last_placed[(sidx, order.lookup)] = datetime.datetime.utcnow()
        if a[0] == "place" and result.startswith("False") and order is not None and getattr(self, "pre", None) and self.pre[0] is order \
                and self.pre[1] is not None:
            # refused by a cool-down: then the clock really is inside that window (otherwise the strategy is locked out of a runner
            # it may trade again)
            pre, msg = self.pre[1], order.violation_msg or ""
            if msg == (getattr(self, "pre_msg", None) or ""):
                msg = ""        # (the message of an EARLIER refusal of this order: this request was refused for another reason)
            if "reset_elapsed_seconds" in msg and (pre["reset"] is None or pre["reset"] >= order.trade.reset_seconds):
                self.add("refused-outside-the-cool-down", "strategy %d runner %s: order refused (%s) %ss after the last reset, reset_seconds %s" % (
                    sidx, order.lookup, msg[-60:], pre["reset"], order.trade.reset_seconds))
            if "placed_elapsed_seconds" in msg and (pre["placed"] is None or pre["placed"] >= order.trade.place_reset_seconds):
                self.add("refused-outside-the-cool-down", "strategy %d runner %s: order refused (%s) %ss after the last placement, place_reset_seconds %s" % (
                    sidx, order.lookup, msg[-60:], pre["placed"], order.trade.place_reset_seconds))

    def recount(self, run, where):
        for si, st in enumerate(run.strategies):
            for (mid, sel, hc), ctx in st._invested.items():
                self.n_checked += 1
                trades = [t for t in run.trade_order if t.strategy is st and t.market_id == mid and t.selection_id == sel and t.handicap == hc]
                by_id = {t.id: t for t in trades}
                # trades placed (execute=True) at least once = those the context knows
                for tid in ctx.trades:
                    if tid not in by_id:
                        self.add("unknown-trade-in-context", "context %s lists an unknown trade" % ((si, mid, sel),))
                if len(set(ctx.trades)) != len(ctx.trades) or len(set(ctx.live_trades)) != len(ctx.live_trades):
                    self.add("duplicate-trade-in-context", "context %s: trades %s live %s" % ((si, mid, sel), ctx.trades, ctx.live_trades))
                expected_live = set()
                for tid in ctx.trades:
                    t = by_id.get(tid)
                    if t is None or t.pending_orders:
                        continue
                    placed = [o for o in t.orders if o.status_log]
                    if any(not o.complete for o in placed):
                        expected_live.add(tid)
                got = set(ctx.live_trades)
                if got != expected_live:
                    extra = got - expected_live
                    missing = expected_live - got
                    sig = "live-trades-mismatch"
                    if extra and not missing:
                        # charged although every order is complete: is the last one a VIOLATION (refused request on a live order)?
                        lastv = all(any(o.status is not None and o.status.name == "VIOLATION" and any(z.name != "VIOLATION" for z in o.status_log)
                                        for o in by_id[x].orders) for x in extra if x in by_id)
                        # (known finding F16 is about a completed trade that was given a further order afterwards; a completed trade
                        # that simply was never taken off the live list is something else)
                        def reused(t):
                            done = getattr(t, "date_time_complete", None)
                            return done is not None and any(o.status_log and o.date_time_created >= done for o in t.orders)
                        stale = all(by_id[x].status.name == "COMPLETE" and reused(by_id[x]) for x in extra if x in by_id)
                        sig = "locked-out-by-violation-of-live-order" if lastv else ("completed-trade-reused-not-reopened" if stale else "locked-out")
                    elif missing:
                        sig = "live-trade-not-charged"
                    self.add(sig, "%s context %s: live_trades %s but trades with an incomplete order are %s" % (
                        where, (si, mid, sel), sorted(by_id[x]._vidx for x in got if x in by_id), sorted(by_id[x]._vidx for x in expected_live)))
        for t in run.trade_order:
            names = [x.name for x in t.status_log]
            placed = [o for o in t.orders if o.status_log]
            if names.count("COMPLETE") > 1 and len(placed) <= 1:
                self.add("trade-completed-twice", "trade %d status log %s" % (t._vidx, names))
            if "COMPLETE" in names:
                self.n_complete += 1
                i = names.index("COMPLETE")
                pass
            # (a completed trade that is given a further order stays COMPLETE until the placement is executed: the new
            #  order is PENDING, the runner context is charged again at once - only acknowledged live orders count here)
            if t.status.name == "COMPLETE" and any(not o.complete and o.status.name != "PENDING" for o in placed):
                self.add("trade-complete-with-live-order", "trade %d is COMPLETE but order(s) %s are live" % (
                    t._vidx, [o._vidx for o in placed if not o.complete]))
            if t.status.name == "COMPLETE" and t.orders and all(o.status_log and all(z.name == "VIOLATION" for z in o.status_log) for o in t.orders):
                # none of its orders ever reached the exchange (refused by a control): nothing completed, the runner's cool-down
                # after a completed trade must not start
                self.add("trade-completed-by-a-refused-order", "trade %d is COMPLETE (log %s) although every order of it was refused before being sent" % (
                    t._vidx, names))
            if len(placed) > 1:
                self.multi = True

    def in_callback(self, run, strategy, market, market_book):
        self.recount(run, "in callback")

    def after_update(self, run, mb):
        self.recount(run, "after update")

    def tags(self, run):
        t = set()
        if self.n_checked:
            t.add("contexts")
        if self.n_complete:
            t.add("trade-completed")
        if self.multi:
            t.add("multi-order-trade")
        if any(len(o.status_log) > 2 for o in run.orders):
            t.add("request-on-live-order")
        return t


def make_oracle(sc):
    return Oracle(sc)


def run(res, tier, seed, model_ok, search):
    res.rule = ("whole simulation runs with single and multi-order trades, replacements, fills, cancels, lapses, voids, failed placements and "
                "failure responses, max_trade_count in {2,3,1e6}, max_live_trade_count in {1,2,5}, multi_order_trades on/off, cool-downs; the "
                "oracle recounts live trades from the orders inside every callback and after every update. non-trivial = a runner context "
                "existed; distinct = scenario index. Plus the live histories of C11 (stream / response races), recount after every event")
    simcheck.run(res, "C10", tier, seed, model_ok, search, n_quick=400, n_thorough=12000)
    # live-exchange double (the histories of C11, where the order stream and the REST responses race): after every event the
    # runner is charged with exactly the placed trades that still have an order that is not complete
    from props import C11
    sub = C11.live_findings(tier, seed, search)
    res.evaluations += sub.evaluations
    res.distribution["live-histories"] += sub.evaluations
    for v in sub.violations:
        if v["signature"] in ("live-trade-accounting", "live-processing-crashed"):
            res.violations.append(v)


def replay(payload):
    if "scenario" not in (payload.get("replay") or {}):
        from props import C11
        return C11.replay(payload)        # a live-domain history
    return simcheck.generic_replay("C10", payload)
