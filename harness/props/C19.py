"""C19 - order references are unique, valid and round-trip (pure domain + a second real framework instance)."""
import random
import string
import threading

import common

META = {
    "level_text": ("The bet-id step that follows the lookup by reference never hands an update to an order of another bet (update_never_misattributed; "
                   "pickByBet is compared with every such decision of the live histories). "
                   "The cleared-orders path recovers the order id with the blotter module's own (regenerated) hash length, for every separator, and attaches the "
                   "cleared order to exactly the order the reference was built for (cleared_attaches_to_its_order). "
                   "Theorems (Lean 4, for every input): the separator check accepts exactly the one-character strings of the exchange's set and the "
                   "setter leaves the old separator on refusal (so the separator is valid in every reachable state); a reference hash+sep+id is at "
                   "most 32 characters for every strategy name (the hash has 13 characters) and every accepted separator, given an id below 10^18; "
                   "every character of it is accepted by the exchange (the regenerated set is proved equal to letters, digits and -._+*:;~ on ASCII); "
                   "the fixed-offset split returns the hash and the id for ANY one-character separator (including digits and hex letters), and a "
                   "witness shows it fails for the empty one; distinct ids give distinct references and the decimal numeral is injective; a receiving "
                   "instance resolves a reference to an order with exactly that id in that market, creates it under the producing strategy when "
                   "registered hashes are distinct, drops it when the strategy is not registered, finds it again afterwards, and sees strategies "
                   "registered later. Tied to /repo by regenerated constants (hash length, character set, default separator) and correspondence on "
                   "real orders, real strategies and a second real Flumine instance fed through _process_current_orders."),
    "level_note": ("Trusted: Lean kernel + standard axioms; SHA-1 prefix (13 lower-case hex characters) and uuid1().time (natural number below 10^18 "
                   "until the year 4751, distinct per call) are parameters: checked on every generated order by the oracle, uniqueness in tight "
                   "loops / 8 threads / simulated clock is a runtime observation, not a theorem."),
    "trusted_base": ["hashlib.sha1, uuid.uuid1 (libuuid / CPython)", "betfairlightweight CurrentOrder resource"],
    "assumptions": ["registered strategies have pairwise distinct names (the code only warns otherwise); same-name strategies are exercised in "
                    "the correspondence (model: later registration wins) but are outside the attribution theorem"],
}

EXCHANGE_SET = set("-._+*:;~") | set(string.ascii_letters) | set(string.digits)     # Betfair documentation, typed by hand
HEX = set("0123456789abcdef")


def enc(s):
    return "_".join(str(ord(c)) for c in s) if s else "."


def dec(t):
    return "" if t == "." else "".join(chr(int(x)) for x in t.split("_"))


def sep_candidates(rng, n):
    out = [""] + [chr(i) for i in range(0, 256)] + ["é", "ß", "Ω", "中", " ", "𝔸", "٣", "²", "Ⅷ"]
    pool = [chr(i) for i in range(32, 127)]
    for a in "-._+*:;~aZ09 #é":
        for b in "-._+*:;~aZ09 #":
            out.append(a + b)
    for _ in range(n):
        k = rng.choice([0, 1, 1, 2, 2, 3])
        out.append("".join(rng.choice(pool + ["é", "中"]) for _ in range(k)))
    return out


def gen_name(rng):
    r = rng.random()
    if r < 0.05:
        return ""
    if r < 0.25:
        return "".join(rng.choice("aé中Ω𝔸 \t-_/\\'\"") for _ in range(rng.randint(1, 12)))
    if r < 0.35:
        return "".join(rng.choice(string.printable) for _ in range(rng.randint(200, 1500)))
    return "".join(rng.choice(string.ascii_letters + string.digits + "_- ") for _ in range(rng.randint(1, 40)))


def run_pure(res, tier, seed, model_ok, search):
    common.use_repo()
    from unittest import mock
    from flumine import BaseStrategy
    from flumine.order.trade import Trade
    from flumine.order.order import BetfairOrder, BaseOrder
    from flumine.order import ordertype as ot
    from flumine.order import process as process_mod
    from flumine import utils as futils, config
    rng = random.Random(seed * 7 + 1)
    H = process_mod.STRATEGY_NAME_HASH_LENGTH
    big = tier != "quick" or search
    reqs = []   # (line, impl answer)
    strategy = BaseStrategy(market_filter={}, name="x")
    trade = Trade("1.1", 1, 0, strategy)

    # ---- separators: the static check, the constructor and the setter
    for s in sep_candidates(rng, 3000 if big else 600):
        impl = bool(BetfairOrder.is_valid_customer_order_ref_character(s))
        spec = len(s) == 1 and s in EXCHANGE_SET
        res.evaluations += 1
        res.distribution["sep:len%d:%s" % (min(len(s), 3), "valid" if spec else "invalid")] += 1
        if spec:
            res.nontrivial.add("sep " + s)
        if impl != spec:
            res.violate("separator-validation", "separator %r: accepted=%s, the exchange's rule says %s" % (s, impl, spec), {"sep": s})
        reqs.append(("ref.valid " + enc(s), "T" if impl else "F"))
        # constructor
        try:
            o = trade.create_order("BACK", ot.LimitOrder(2.0, 2.0), sep=s)
            made = True
        except ValueError:
            made = False
        if made != spec:
            res.violate("separator-validation", "create_order(sep=%r) %s" % (s, "accepted" if made else "refused"), {"sep": s, "via": "constructor"})
        # setter on an order with a valid separator: refusal must leave the old one
        o = trade.create_order("BACK", ot.LimitOrder(2.0, 2.0), sep=":")
        try:
            o.sep = s
            ok = True
        except ValueError:
            ok = False
        after = o.sep
        if ok != spec or after != (s if spec else ":"):
            res.violate("separator-validation", "order.sep = %r: accepted=%s, separator afterwards %r" % (s, ok, after), {"sep": s, "via": "setter"})
        reqs.append(("ref.setsep %s %s" % (enc(":"), enc(s)), "%s %s" % (enc(after), "T" if ok else "F")))

    # ---- references of real orders of real strategies
    n = 20000 if big else 3000
    seps = sorted(EXCHANGE_SET)
    seen_ids = set()
    for i in range(n):
        name = gen_name(rng)
        st = BaseStrategy(market_filter={}, name=name)
        tr = Trade("1.%d" % rng.randint(1, 3), rng.randint(1, 5), 0, st)
        sep = rng.choice(seps) if rng.random() < 0.8 else config.order_sep
        o = tr.create_order(rng.choice(["BACK", "LAY"]), ot.LimitOrder(2.0, 2.0), sep=sep)
        ref = o.customer_order_ref
        h = st.name_hash
        res.evaluations += 1
        res.nontrivial.add(ref)
        res.distribution["name:" + ("empty" if not name else "unicode" if any(ord(c) > 127 for c in name) else "long" if len(name) > 100 else "plain")] += 1
        res.distribution["sep-class:" + ("digit" if sep.isdigit() else "hex-letter" if sep in "abcdef" else "letter" if sep.isalpha() else "punct")] += 1
        # parameters of the theorems, checked on the real objects
        if len(h) != H or not set(h) <= HEX:
            res.violate("hash-shape", "strategy %r: name_hash %r is not %d lower-case hex characters" % (name[:30], h, H), {"name": name})
        if not (o.id.isdigit() and o.id.isascii() and str(int(o.id)) == o.id and int(o.id) < 10 ** 18):
            res.violate("id-shape", "order id %r is not a decimal numeral below 10^18" % o.id, {"id": o.id})
            continue
        if o.id in seen_ids:
            res.violate("duplicate-reference", "order id %s created twice in one run" % o.id, {"id": o.id})
        seen_ids.add(o.id)
        # the property, on the real reference
        if len(ref) > 32:
            res.violate("reference-too-long", "reference %r has %d characters (strategy %r)" % (ref, len(ref), name[:30]), {"name": name, "sep": sep})
        if not set(ref) <= EXCHANGE_SET:
            res.violate("reference-charset", "reference %r contains %r" % (ref, sorted(set(ref) - EXCHANGE_SET)), {"name": name, "sep": sep})
        got_h, got_id = ref[:process_mod.STRATEGY_NAME_HASH_LENGTH], ref[process_mod.STRATEGY_NAME_HASH_LENGTH + 1:]
        if got_h != h or got_id != o.id:
            res.violate("split-does-not-recover", "reference %r splits into (%r, %r), produced by (%r, %r)" % (ref, got_h, got_id, h, o.id),
                        {"name": name, "sep": sep})
        reqs.append(("ref.build %s %s %s" % (enc(h), enc(sep), o.id), "%s %d %s %s %s" % (
            enc(ref), len(ref), "T" if all(BetfairOrder.is_valid_customer_order_ref_character(c) for c in ref) else "F", enc(got_h), enc(got_id))))
    res.evaluations += len(reqs)
    if model_ok:
        answers = common.run_driver([r[0] for r in reqs])
        for (line, impl), ans in zip(reqs, answers):
            if ans != impl:
                res.disagree({"request": line, "decoded": [dec(t) if t[0].isdigit() or t == "." else t for t in line.split(" ")[1:]][:3],
                              "model": ans, "implementation": impl})
    for r in reqs[::max(1, len(reqs) // 4)][:4]:
        res.sample({"request": r[0], "implementation": r[1]})


# ---------------------------------------------------------------- second instance

def current_order(ref, market_id, bet_id, sel, side="BACK"):
    from betfairlightweight.resources.bettingresources import CurrentOrder
    return CurrentOrder(**{
        "betId": str(bet_id), "marketId": market_id, "selectionId": sel, "handicap": 0.0, "priceSize": {"price": 2.0, "size": 2.0},
        "bspLiability": 0.0, "side": side, "status": "EXECUTABLE", "persistenceType": "LAPSE", "orderType": "LIMIT",
        "placedDate": "2030-01-01T10:00:00.000Z", "averagePriceMatched": 0.0, "sizeMatched": 0.0, "sizeRemaining": 2.0,
        "sizeLapsed": 0.0, "sizeCancelled": 0.0, "sizeVoided": 0.0, "customerOrderRef": ref, "customerStrategyRef": "host"})


def run_instances(res, tier, seed, model_ok, search):
    common.use_repo()
    from unittest import mock
    from flumine import Flumine, clients, BaseStrategy
    from flumine.order.trade import Trade
    from flumine.order import ordertype as ot
    from flumine.events import events
    from flumine.order import process as process_mod
    rng = random.Random(seed * 11 + 5)
    n = 1500 if (tier != "quick" or search) else 150
    seps = sorted(EXCHANGE_SET)
    lines, impls, payloads = [], [], []
    for case in range(n):
        kr = random.Random("cleared|%r|%r" % (seed, case))
        k = rng.randint(1, 4)
        names = []
        while len(names) < k:
            nm = gen_name(rng) or "S%d" % len(names)
            if nm not in names:
                names.append(nm)
        if k > 1 and rng.random() < 0.15:
            # names that differ only in their non-ASCII characters ("all strategy names, including unicode": the hash must tell them apart)
            base = rng.choice(["", "caf", "S_1 ", "strategy-"])
            pool = ["\u00e9", "\u4e2d", "\u03a9", "\u4e00", "\u4e8c", "\u7b56\u7565", "\U0001d538"] + ([""] if base else [])
            rng.shuffle(pool)
            names = [base + pool[i] for i in range(k)]
        same_name = rng.random() < 0.06 and k > 1
        if same_name:
            names[-1] = names[0]
        # producer: real strategies and orders
        prod = [BaseStrategy(market_filter={}, name=nm) for nm in names]
        orders = []
        for i in range(rng.randint(1, 6)):
            j = rng.randrange(k)
            mkt = "1.%d" % rng.randint(1, 2)
            o = Trade(mkt, rng.randint(1, 3), 0, prod[j]).create_order("BACK", ot.LimitOrder(2.0, 2.0), sep=rng.choice(seps))
            orders.append((j, mkt, o))
        ops = []
        pending = list(range(k))
        rng.shuffle(pending)
        for _ in range(rng.randint(3, 12)):
            if pending and rng.random() < 0.4:
                ops.append(("A", pending.pop()))
            else:
                ops.append(("U", rng.randrange(len(orders))))
        # receiving instance: a second real framework
        fw = Flumine(client=clients.BetfairClient(mock.Mock(lightweight=False), username="u"))
        fw.log_control = lambda e: None
        recv = {}          # producer strategy index -> registration order in the second instance
        recv_objs = []
        known = {}         # producer order index -> order object of the second instance
        out = []
        mops = []
        ok_case = True
        try:
            for op, x in ops:
                if op == "A":
                    st = BaseStrategy(market_filter={}, name=names[x])
                    fw.add_strategy(st)
                    recv[x] = len(recv_objs)
                    recv_objs.append(st)
                    mops.append("A:" + enc(prod[x].name_hash))
                    continue
                j, mkt, o = orders[x]
                ref = o.customer_order_ref
                before = {id(y) for m in fw.markets for y in m.blotter}
                co = current_order(ref, mkt, 1000 + x, o.selection_id)
                fw._process_current_orders(events.CurrentOrdersEvent([mock.Mock(orders=[co], client=fw.clients.get_default())]))
                after = [y for m in fw.markets for y in m.blotter]
                new = [y for y in after if id(y) not in before]
                mops.append("U:%s:%s" % (mkt.split(".")[1], enc(ref)))
                hit = [y for y in after if y.responses.current_order is co]
                # ---- oracle: what the property promises
                if not same_name:
                    if x in known:
                        exp = ("E", known[x])
                    elif j in recv:
                        exp = ("C", None)
                    else:
                        exp = ("D", None)
                    if exp[0] == "E":
                        if new or hit != [exp[1]]:
                            res.violate("update-misattributed", "update for known order %s went to %s (new orders %d)" % (
                                o.id, [y.id for y in hit], len(new)), {"names": names, "ops": ops, "case": case})
                            ok_case = False
                    elif exp[0] == "C":
                        if len(new) != 1 or new[0].id != o.id or new[0].trade.strategy is not recv_objs[recv[j]] or new[0].market_id != mkt \
                                or hit != new:
                            res.violate("reference-not-recovered", "reference %r of strategy %r (registered) resolved to %s" % (
                                ref, names[j][:20], [(y.id, y.trade.strategy.name[:20]) for y in new] or "nothing"),
                                {"names": names, "ops": ops, "case": case})
                            ok_case = False
                        else:
                            known[x] = new[0]
                    else:
                        if new or hit:
                            res.violate("update-misattributed", "reference %r of an unregistered strategy was given to %s" % (
                                ref, [(y.id, y.trade.strategy.name[:20]) for y in new + hit]), {"names": names, "ops": ops, "case": case})
                            ok_case = False
                # ---- the same reference coming back on the cleared-orders path (listClearedOrders after settlement, live only):
                # it recovers exactly the order that produced it, whatever separator that order was created with
                k_item = None
                if not same_name and kr.random() < 0.5:
                    from flumine.clients import ExchangeType
                    clr = mock.Mock(customer_order_ref=ref)
                    fw._process_cleared_orders(mock.Mock(exchange=ExchangeType.BETFAIR, event=mock.Mock(market_id=mkt, orders=[clr])))
                    got = [y for m in fw.markets for y in m.blotter if y.cleared_order is clr]
                    want = [known[x]] if x in known else []
                    res.distribution["inst:cleared-order " + ("known" if want else "unknown")] += 1
                    k_item = ("K:%s:%s" % (mkt.split(".")[1], enc(ref)),
                              ("K%d/%s" % (recv_objs.index(got[0].trade.strategy), enc(got[0].id))) if got else "K-")
                    if got != want:
                        res.violate("cleared-order-not-recovered", "cleared order with reference %r (separator %r) was attached to %s, expected %s" % (
                            ref, o.sep, [y.id for y in got] or "nothing", [y.id for y in want] or "nothing"),
                            {"names": names, "ops": ops, "case": case})
                        ok_case = False
                # ---- canonical answer for the model comparison
                if hit and not new:
                    y = hit[0]
                    out.append("E%d/%s" % (recv_objs.index(y.trade.strategy), enc(y.id)))
                elif new:
                    y = new[0]
                    out.append("C%d/%s" % (recv_objs.index(y.trade.strategy), enc(y.id)))
                    if same_name:
                        known[x] = y
                else:
                    out.append("D")
                if k_item is not None:
                    mops.append(k_item[0])
                    out.append(k_item[1])
        finally:
            for ex in (fw.simulated_execution, fw.betfair_execution, fw.betdaq_execution):
                ex.shutdown()
        res.evaluations += 1
        res.distribution["inst:" + ("same-name" if same_name else "distinct")] += 1
        if any(x.startswith("C") for x in out) and any(x.startswith("E") for x in out):
            res.nontrivial.add("inst %d" % case)
        if any(x == "D" for x in out):
            res.distribution["inst:dropped-unregistered"] += 1
        if any(op == "A" for op, _ in ops[1:]) and any(x.startswith("C") for x in out):
            res.distribution["inst:late-registration"] += 1
        lines.append("ref.inst " + ";".join(mops))
        impls.append(",".join(out) if out else ".")
        payloads.append({"names": names, "ops": ops, "case": case})
    if model_ok:
        answers = common.run_driver(lines)
        for line, impl, ans, pl in zip(lines, impls, answers, payloads):
            if ans != impl:
                res.disagree({"request": line[:2000], "model": ans, "implementation": impl, "case": pl})


def uniqueness(res, tier, search):
    """runtime observation: ids of orders created in a tight loop, from 8 threads, under the simulated clock"""
    common.use_repo()
    from flumine import BaseStrategy, config
    from flumine.order.trade import Trade
    from flumine.order import ordertype as ot
    from flumine.simulation import utils as simutils
    n = 400000 if (tier != "quick" or search) else 40000
    st = BaseStrategy(market_filter={}, name="u")
    tr = Trade("1.1", 1, 0, st)
    lo = ot.LimitOrder(2.0, 2.0)

    def make(k, sink):
        for _ in range(k):
            sink.append(tr.create_order("BACK", lo).customer_order_ref)
            tr.orders.clear()

    refs = []
    make(n, refs)
    res.runtime_observations["tight_loop_%d_refs_distinct" % n] = len(set(refs)) == n
    if len(set(refs)) != n:
        res.violate("duplicate-reference", "%d orders created in a tight loop carry %d distinct references" % (n, len(set(refs))), {"mode": "loop"})
    sinks = [[] for _ in range(8)]
    ths = [threading.Thread(target=make, args=(n // 8, s)) for s in sinks]
    for t in ths:
        t.start()
    for t in ths:
        t.join()
    allr = [r for s in sinks for r in s]
    res.runtime_observations["8_threads_%d_refs_distinct" % len(allr)] = len(set(allr)) == len(allr)
    if len(set(allr)) != len(allr):
        res.violate("duplicate-reference", "%d orders created from 8 threads carry %d distinct references" % (len(allr), len(set(allr))), {"mode": "threads"})
    # simulated clock
    config.simulated = True
    try:
        refs2 = []
        import datetime as _dt
        sdt = simutils.SimulatedDateTime()
        with sdt:
            sdt(_dt.datetime(2030, 1, 1))      # the clock stands still for the whole loop
            make(n // 4, refs2)
        res.runtime_observations["simulated_clock_%d_refs_distinct" % len(refs2)] = len(set(refs2)) == len(refs2)
        if len(set(refs2)) != len(refs2) or set(refs2) & set(refs):
            res.violate("duplicate-reference", "orders created under the simulated clock repeat references", {"mode": "simulated"})
    finally:
        config.simulated = False
    # coarse / frozen system clock (a platform whose wall clock ticks every 15.6 ms, or a test harness that freezes it):
    # distinctness must not rest on the clock having advanced between two orders
    import time as _time
    real = {k: getattr(_time, k) for k in ("time_ns", "time", "monotonic_ns", "monotonic", "perf_counter_ns", "perf_counter")}
    refs3 = []
    for tick_ns in (15_600_000, 10**12):
        base = real["time_ns"]()
        coarse = lambda base=base, tick_ns=tick_ns: base + ((real["time_ns"]() - base) // tick_ns) * tick_ns
        try:
            _time.time_ns = coarse
            _time.time = lambda: coarse() / 1e9
            _time.monotonic_ns = coarse
            _time.monotonic = lambda: coarse() / 1e9
            _time.perf_counter_ns = coarse
            _time.perf_counter = lambda: coarse() / 1e9
            burst = []
            make(20000, burst)
            sinks3 = [[] for _ in range(4)]
            ths3 = [threading.Thread(target=make, args=(5000, s)) for s in sinks3]
            for t in ths3:
                t.start()
            for t in ths3:
                t.join()
            burst += [r for s in sinks3 for r in s]
        finally:
            for k, v in real.items():
                setattr(_time, k, v)
        res.runtime_observations["coarse_clock_tick_%dns_%d_refs_distinct" % (tick_ns, len(burst))] = len(set(burst)) == len(burst)
        if len(set(burst)) != len(burst):
            res.violate("duplicate-reference", "%d orders created while the system clock ticks every %d ns carry %d distinct references" % (
                len(burst), tick_ns, len(set(burst))), {"mode": "coarse-clock", "tick_ns": tick_ns})
        refs3 += burst
    res.evaluations += n + len(allr) + len(refs2) + len(refs3)
    if max(len(r) for r in refs + allr + refs2) > 32:
        res.violate("reference-too-long", "a reference longer than 32 characters", {"mode": "loop"})


def run(res, tier, seed, model_ok, search):
    res.rule = ("separators: '', every code point 0..255, unicode digits/letters, two-character strings, random strings, through the static check, "
                "the constructor and the setter; references of real orders of real strategies with empty / unicode / 1500-character names and "
                "every accepted separator (digits and hex letters included); op sequences (register strategy | order-stream update) on a second "
                "real Flumine instance; ids from tight loops, 8 threads, simulated clock, coarse (15.6 ms) and frozen system clock. non-trivial = valid separator / distinct reference / "
                "case with creation and later lookup")
    run_pure(res, tier, seed, model_ok, search)
    run_instances(res, tier, seed, model_ok, search)
    uniqueness(res, tier, search)
    # live mode (the histories of C11: requests, responses and order-stream snapshots interleave, replaced bets keep the reference of
    # the bet they replace): an update is never attributed to another order
    from props import C11
    sub = C11.live_findings(tier, seed, search)
    res.evaluations += sub.evaluations
    res.distribution["live-histories"] += sub.evaluations
    for v in sub.violations:
        if v["signature"] in ("update-misattributed", "live-processing-crashed"):
            res.violations.append(v)
    # the other exchange: Betdaq's integer customer reference, looked up over all markets by process_betdaq_current_orders; batches
    # hold updates whose reference matches no local order before AND after the update of a known order
    import betdaqdomain
    sub = common.Result()
    betdaqdomain.run(sub, tier, seed, False, search)
    res.evaluations += sub.evaluations
    res.distribution["betdaq-histories"] += sub.evaluations
    for v in sub.violations:
        if v["signature"] in ("update-misattributed", "betdaq-processing-crashed"):
            res.violations.append(v)


def replay(payload):
    if (payload.get("replay") or {}).get("domain") == "betdaq":
        import betdaqdomain
        return betdaqdomain.replay(payload)
    if payload.get("signature") in ("update-misattributed", "live-processing-crashed"):
        from props import C11
        return C11.replay(payload)        # a live-domain history
    print("failing input:", payload.get("replay"))
    return 1
