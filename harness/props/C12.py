"""C12 - exchange call faults never strand an order or lose a transaction count (live domain + simulation domain)."""
import random

import common
import simcheck

META = {
    "level_text": ("Theorems (Lean 4, for every report): every outcome of a cancel, update or replace call - SUCCESS, FAILURE with or without "
                   "BET_TAKEN_OR_LAPSED, TIMEOUT, a report that is missing - and the reset after exhausted retries leave the order executable or "
                   "complete (never cancelling / updating / replacing); a placement leaves it executable or complete, or pending only for an "
                   "asynchronous acknowledgement or a TIMEOUT; no handler revives an order that completed in the meantime; the retry counter "
                   "never exceeds the configured maximum (at most 1 + 3 calls per package); the charges add up to the bets submitted by answered "
                   "calls plus the failed instructions reported; the simulated handlers settle likewise (C03), a whole simulated package of any "
                   "kind settles every one of its orders, and - by induction over every function of an update, for every run whose requests go "
                   "through the order's own market - in every reachable state an order in an in-flight status is listed by a queued package "
                   "whose execution settles it (no_order_stranded_whole_run). Tied to /repo by running the real "
                   "BetfairExecution handlers synchronously against an exchange double (real betfairlightweight response resources) for every "
                   "kind, 1..3 orders, random report assignments, API errors on the 1st..4th attempt and orders completing through the order "
                   "stream between request and response; and by the whole-simulation correspondence for the simulated execution."),
    "level_note": ("Trusted: Lean kernel + standard axioms; hand-written per-order model validated by correspondence. Positional pairing of "
                   "reports with orders (place / update / replace) is checked by the oracle, not proved; a non-BetfairError exception inside the "
                   "API call (F9) is outside 'transport or API errors' and reported as a note."),
    "trusted_base": ["betfairlightweight response resources", "unittest.mock for the HTTP session and the betting endpoint"],
    "assumptions": [],
}

PROJECTION = {"R": True, "O": ["id", "status", "complete", "log"], "T": True, "K": True, "Q": True}
ERRORS = ["BET_TAKEN_OR_LAPSED", "BET_ACTION_ERROR", "INVALID_BET_SIZE", "ERROR_IN_ORDER", "MARKET_SUSPENDED"]


def gen_opts(rng):
    return {"p_removal": 0.2, "p_suspend": 0.5, "p_inplay": 0.3, "p_close": 0.3, "p_act": 0.9, "clients": rng.choice([1, 2]), "small_limits": True,
            "hour_jumps": True}


def canon(o):
    return ":".join([str(o._mid), o.status.name if o.status else "-", "T" if o.complete else "F", str(o.bet_id) if o.bet_id else "-",
                     "+".join(x.name for x in o.status_log) or ".", str(len(o.responses.cancel_responses)), str(len(o.responses.update_responses)),
                     common.tok(o.size_remaining)])


def one_case(res, rng, case, seed):
    common.use_repo()
    import livedomain as ld
    from flumine.order.order import OrderStatus
    w = ld.LiveWorld(rng, async_orders=rng.random() < 0.2)
    payload = {"case": case, "seed": seed}
    try:
        kind = rng.choice(["place", "place", "cancel", "update", "replace"])
        n = rng.randint(1, 3)
        orders = w.place(n)
        pkg = w.pending.pop(0)
        stuck = lambda o: o.status in (OrderStatus.CANCELLING, OrderStatus.UPDATING, OrderStatus.REPLACING)
        steps = []

        def run_package(pkg, kind_name):
            errors = rng.choice([0, 0, 0, 1, 2, 3, 4])
            outcome = []
            for o in list(pkg):
                st = rng.choice(["SUCCESS", "SUCCESS", "FAILURE", "TIMEOUT"])
                oc = {"status": st}
                if kind_name == "place":
                    oc["order_status"] = rng.choice(["EXECUTABLE", "EXECUTABLE", "EXECUTION_COMPLETE", "EXPIRED"] + (["PENDING"] if w.async_orders else []))
                    oc["error"] = rng.choice(ERRORS)
                elif kind_name == "cancel":
                    oc["error"] = rng.choice(ERRORS)
                    oc["partial"] = rng.random() < 0.2
                    oc["drop"] = rng.random() < 0.15
                outcome.append(oc)
            if kind_name == "cancel" and rng.random() < 0.3:
                pass
            before_counts = (w.client.transaction_count_total,)
            answered, calls, at_call, reports = w.execute(pkg, outcome, errors=errors)
            steps.append((kind_name, len(at_call), errors, answered))
            # ---- oracle
            if calls > 4:
                res.violate("too-many-retries", "%s package: %d calls to the exchange" % (kind_name, calls), payload)
            for o in at_call:
                if stuck(o):
                    res.violate("order-left-in-flight", "%s handler returned with order %d still %s (reports %s, api errors %d)" % (
                        kind_name, o._mid, o.status.name, [x[1].get("status") for x in reports], errors), payload)
                if o.trade.status.name == "PENDING":
                    res.violate("trade-left-pending", "trade of order %d left in its transient PENDING state after the %s handler" % (o._mid, kind_name), payload)
                if o.status == OrderStatus.PENDING and kind_name == "place":
                    oc = next((x[1] for x in reports if x[0] is o), None)
                    may = answered and oc is not None and (oc["status"] == "TIMEOUT" or (oc["status"] == "SUCCESS" and oc.get("order_status") == "PENDING"))
                    if not may:
                        res.violate("order-left-pending", "order %d still PENDING after the place handler (answered=%s, report %s)" % (o._mid, answered, oc), payload)
            if kind_name == "cancel" and answered:
                for o in at_call:
                    for r in o.responses.cancel_responses:
                        if str(r.instruction.bet_id) != str(o.bet_id):
                            res.violate("report-applied-to-wrong-order", "order %d (bet %s) was given the cancel report of bet %s" % (
                                o._mid, o.bet_id, r.instruction.bet_id), payload)
                for o, oc in reports:
                    if o is None or oc.get("drop"):
                        continue
                    exp_complete = (oc["status"] == "SUCCESS" and not oc.get("partial_left")) or (oc["status"] == "FAILURE" and oc.get("error") == "BET_TAKEN_OR_LAPSED")
                    bet = w.ex.bets.get(int(o.bet_id)) if o.bet_id else None
                    if oc["status"] == "SUCCESS" and bet is not None and (bet["remaining"] == 0) != o.complete:
                        res.violate("report-applied-to-wrong-order", "order %d: the exchange cancelled %s of bet %s (remaining %s) but the order is %s" % (
                            o._mid, oc.get("size_cancelled"), o.bet_id, bet["remaining"], o.status.name), payload)
            # ---- model ops
            if not answered:
                for o in at_call:
                    w.ops.append("RS:%d:%s" % (o._mid, "T" if kind_name == "place" else "F"))
                return
            if kind_name == "place":
                for o, oc in reports:
                    bet = next((b for b in w.ex.bets.values() if b["ref"] == o.customer_order_ref and "replaces" not in b), None)
                    ost = oc.get("order_status", "EXECUTABLE") if oc["status"] == "SUCCESS" else None
                    ok = bet and oc["status"] == "SUCCESS"
                    w.ops.append("PR:%d:%s:%s:%s:%s" % (o._mid, oc["status"][0], ld.STATUS_TOK[ost], bet["bet_id"] if ok else "-",
                                                        common.tok(bet["matched"]) if ok else "0"))
            elif kind_name == "cancel":
                for o, oc in reports:
                    if o is None:
                        continue
                    if oc.get("drop"):
                        w.ops.append("CM:%d" % o._mid)
                    else:
                        w.ops.append("CR:%d:%s:%s:%s" % (o._mid, oc["status"][0], "T" if oc.get("error") == "BET_TAKEN_OR_LAPSED" else "F",
                                                         common.tok(oc.get("size_cancelled", 0.0))))
            elif kind_name == "update":
                for o, oc in reports:
                    w.ops.append("UR:%d:%s" % (o._mid, oc["status"][0]))
            else:
                for o, oc in reports:
                    w.ops.append("RR:%d:%s" % (o._mid, oc["status"][0]))
                    if oc.get("new_bet"):
                        new = next((x for x in o.trade.orders if x.bet_id is not None and str(x.bet_id) == str(oc["new_bet"])), None)
                        if new is not None:
                            new._mid = len(w.orders)
                            w.orders.append(new)
                            w.ops.append("RP:%d:%d:%d:%s" % (o._mid, new._mid, oc["new_bet"], common.tok(oc["new_size"])))

        if kind == "place":
            # optionally the stream reports a bet before the response: only possible once the exchange has it - skipped for PLACE
            run_package(pkg, "place")
        else:
            # bring the orders to rest first (successful placement), then the request under test
            w.execute(pkg, [{"status": "SUCCESS", "order_status": "EXECUTABLE"} for _ in orders], errors=0)
            for o in orders:
                bet = next(b for b in w.ex.bets.values() if b["ref"] == o.customer_order_ref)
                w.ops.append("PR:%d:S:E:%d:0" % (o._mid, bet["bet_id"]))
            with w.market.transaction() as t:
                from flumine.exceptions import OrderUpdateError
                for o in orders:
                    try:
                        if kind == "cancel":
                            t.cancel_order(o, force=True)
                        elif kind == "update":
                            t.update_order(o, "PERSIST", force=True)
                        else:
                            t.replace_order(o, 3.0, force=True)
                        w.ops.append({"cancel": "CQ", "update": "UQ", "replace": "RQ"}[kind] + ":%d" % o._mid)
                    except OrderUpdateError:
                        pass
            pkg2 = w.pending.pop(0)
            # between request and response: the exchange matches some bets and the order stream says so
            completed_meanwhile = []
            if rng.random() < 0.4:
                victim = rng.choice(orders)
                bet = next(b for b in w.ex.bets.values() if b["ref"] == victim.customer_order_ref)
                bet.update(matched=bet["size"], remaining=0.0, status="EXECUTION_COMPLETE")
                w.send_snapshot([bet])
                w.ops.append("SN:%d:%d:C:%s:0" % (victim._mid, bet["bet_id"], common.tok(bet["size"])))
                completed_meanwhile.append(victim)
            run_package(pkg2, kind)
            res.distribution["live:completed-meanwhile"] += len(completed_meanwhile)
        # ---- transaction counts
        ctl = [c for c in w.client.trading_controls if c.NAME == "MAX_TRANSACTION_COUNT"][0]
        if ctl.transaction_count != w.charged or ctl.failed_transaction_count != w.failed_reported:
            sig = "transaction-count"
            # a replace package whose order completed meanwhile: the skipped instruction is still counted (recorded finding F7b)
            if kind == "replace" and any(s[0] == "replace" for s in steps) and ctl.transaction_count > w.charged and completed_meanwhile:
                sig = "replace-of-completed-order-counted"
            res.violate(sig, "client charged %d bets / %d failures; the exchange received %d placement or replacement instructions in answered calls and "
                        "reported %d failures (%s)" % (ctl.transaction_count, ctl.failed_transaction_count, w.charged, w.failed_reported, steps), payload)
        res.evaluations += 1
        res.distribution["live:%s:%d" % (kind, n)] += 1
        for s in steps:
            res.distribution["live:api-errors:%d" % s[2]] += 1
        res.nontrivial.add("live %d" % case)
        line = "live " + ";".join(w.ops)
        impl = ",".join(canon(o) for o in w.orders)
        return line, impl, payload
    finally:
        w.shutdown()


def run_live(res, tier, seed, model_ok, search):
    rng = random.Random(seed * 31 + 9)
    n = 3000 if (tier != "quick" or search) else 250
    lines, impls, payloads = [], [], []
    for case in range(n):
        try:
            r = one_case(res, random.Random(rng.getrandbits(32)), case, seed)
        except Exception as e:  # noqa
            import traceback
            res.violate("handler-crashed", "live handler raised: %s" % traceback.format_exc()[-400:], {"case": case, "seed": seed})
            continue
        if r:
            lines.append(r[0]); impls.append(r[1]); payloads.append(r[2])
    res.evaluations += len(lines)
    if model_ok and lines:
        answers = common.run_driver(lines)
        for line, impl, ans, pl in zip(lines, impls, answers, payloads):
            if ans != impl:
                res.disagree({"request": line[:1200], "model": ans[:800], "implementation": impl[:800], "case": pl})
    if model_ok:
        calls = common.run_driver(["live.calls %d" % k for k in range(6)])
        if calls != ["1", "2", "3", "4", "4", "4"]:
            res.disagree({"request": "live.calls", "model": calls})


from props import C18 as _c18


class Oracle(_c18.Oracle):
    """simulated execution: the shadow transaction count of C18, and after every update no order is left in flight
    without a queued package"""

    def after_update(self, run, mb):
        super().after_update(run, mb)
        fw = run.framework
        queued = {id(o) for p in fw.handler_queue for o in p._orders}
        for o in run.orders:
            if o.market_id != mb.market_id:
                continue      # requests still queued when a market's file ends are dropped with the queue (end of data, not a fault)
            if o.status is not None and o.status.name in ("PENDING", "CANCELLING", "UPDATING", "REPLACING") and id(o) not in queued:
                # (no_order_stranded_whole_run: an order in an in-flight status - PENDING included: the replacement order of a replace
                # passes through it - is listed by a queued package)
                self.add("order-left-in-flight", "simulated: order %d is %s with no package queued" % (o._vidx, o.status.name))
        for t in run.trade_order:
            if t.market_id == mb.market_id and t.status.name == "PENDING":
                self.add("trade-left-pending", "simulated: trade %d left PENDING after the update" % t._vidx)

    def tags(self, run):
        return super().tags(run) | {"sim-run"}


def make_oracle(sc):
    return Oracle(sc)


def directed():
    """an UPDATE (and a REPLACE) package of two orders whose first order is fully matched while the request waits out its
    latency: every report must still reach the order it belongs to, and the second order must come back to rest"""
    import directed as d
    T0 = d.T0
    out = []
    for kind in ("update", "replace"):
        req = (lambda t: ["update", t, "PERSIST", False]) if kind == "update" else (lambda t: ["replace", t, 3.5, None, False])
        ups = [
            d.update(T0, d.two(), acts={"0": [d.create(0, 0, 1, "BACK", 3.0, 4.0), ["place", "t0", None, False],
                                               d.create(1, 1, 1, "BACK", 3.0, 50.0), ["place", "t1", None, False]]}),
            d.update(T0 + 200, d.two()),
            d.update(T0 + 300, d.two(), acts={"0": [["bbegin", 0], req("t0"), req("t1"), ["bend"]]}),
            d.update(T0 + 400, d.two(trd=[(3.0, 40.0)])),
            d.update(T0 + 700, d.two(trd=[(3.0, 40.0)])),
            d.update(T0 + 1700, d.two(trd=[(3.0, 40.0)])),
        ]
        out.append(d.scenario([d.market(101, ups)]))
    return out


def run(res, tier, seed, model_ok, search):
    res.rule = ("live: packages of 1..3 orders of every kind through the real BetfairExecution handlers with random SUCCESS / FAILURE (five error "
                "codes) / TIMEOUT reports, dropped and partial cancel reports, API errors on attempts 1..4, orders completed through the order "
                "stream between request and response; simulated: whole runs with failing responses. non-trivial = a handler ran; distinct = case")
    run_live(res, tier, seed, model_ok, search)
    simcheck.run(res, "C12", tier, seed, model_ok, search, n_quick=200, n_thorough=6000, directed=directed())


def replay(payload):
    rp = payload.get("replay") or {}
    if "scenario" in rp:
        return simcheck.generic_replay("C12", payload)
    res = common.Result()
    seed, case = rp.get("seed", 0), rp.get("case", 0)
    rng = random.Random(seed * 31 + 9)
    for c in range(case + 1):
        sub = random.Random(rng.getrandbits(32))
        if c == case:
            r = one_case(res, sub, c, seed)
            print("ops:", r[0] if r else None)
            print("implementation:", r[1] if r else None)
    for v in res.violations:
        print("ORACLE", v["signature"], v["what"])
    return 1
