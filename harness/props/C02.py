"""C02 - refused requests change nothing; accepted requests are sent exactly once (transaction domain + simulation domain)."""
import random

import common
import simcheck

META = {
    "level_text": ("A forced placement of an order that is in the blotter, or complete, is refused like an unforced one and files nothing "
                   "(forced_place_of_a_placed_order_refused). "
                   "Theorems (Lean 4, for every list of requests): chunks re-assembles to its input and every chunk holds between 1 and n items; "
                   "grouping by market version yields one group per version holding exactly the requests of that version in request order; every "
                   "package holds at most the regenerated per-call limit (200/60/60/60), is not empty, and contains only orders requested with its "
                   "market version; for every version the packages of that version, read in sending order, are exactly the requests of that version "
                   "in request order (so every accepted request is in exactly one package); as multisets the packages of a pending list are a "
                   "permutation of its requests, and execute() appends to the handler queue packages holding exactly the pending requests of the "
                   "transaction, each once, leaving what was queued before untouched; the queue grows by exactly those packages with the "
                   "matching kind, market and client; execute() leaves all four pending lists empty; the pending flag is set whenever something is "
                   "waiting (invariant over place/cancel/update/replace/execute) so leaving the transaction sends it; an accepted request is filed "
                   "exactly once and anything else files nothing; a request rejected by the order's guard changes no order, trade, market or queue "
                   "entry; validation that passes touches only the runner-context table and the client's hourly counters; force=True equals the "
                   "unforced request whenever the controls pass. Tied to /repo by a transaction-domain correspondence (real Market, Transaction, "
                   "orders and packages, 0..450 requests per kind, mixed versions, explicit execute() calls, Betfair / simulated / Betdaq clients) "
                   "and whole-simulation correspondence with before/after snapshots of every refused request."),
    "level_note": ("Trusted: Lean kernel + standard axioms; hand-written model validated by correspondence. Betdaq limits (10/10/50) are read from "
                   "the package class by the oracle; the Lean theorems are parametric in the limit only through packLimit (Betfair values). Known "
                   "finding F2 (a refused cancel/update/replace marks the live order VIOLATION and clears update_data) is reported, not hidden."),
    "trusted_base": ["unittest.mock stand-in for the framework object that receives packages in the transaction domain"],
    "assumptions": ["creation of an empty runner context by StrategyExposure on a refused PLACE is not a change of the runner accounting "
                    "(no trade is recorded in it)"],
}

PROJECTION = {"R": True, "O": ["id", "status", "complete", "log", "betid", "inblotter", "pers", "price"], "T": True, "C": True, "M": True, "Q": True}

LIMITS = {"PLACE": 200, "CANCEL": 60, "UPDATE": 60, "REPLACE": 60}      # the exchange's documented per-call instruction limits


def gen_opts(rng):
    return {"p_removal": 0.1, "p_suspend": 0.4, "p_inplay": 0.2, "p_close": 0.3, "p_act": 0.95, "clients": rng.choice([1, 2, 2]),
            "small_limits": rng.random() < 0.5, "markets": rng.choice([1, 2])}


# ------------------------------------------------------------------ transaction domain

def run_txn(res, tier, seed, model_ok, search):
    common.use_repo()
    from unittest import mock
    from flumine import clients, BaseStrategy
    from flumine.markets.market import Market
    from flumine.order.trade import Trade
    from flumine.order import ordertype as ot
    from flumine.order.orderpackage import BetfairOrderPackage, BetdaqOrderPackage, OrderPackageType
    rng = random.Random(seed * 13 + 3)
    n_cases = 400 if (tier != "quick" or search) else 60
    lines, impls, payloads = [], [], []
    for case in range(n_cases):
        exch = rng.choice(["betfair", "betfair", "simulated", "betdaq"])
        if exch == "betfair":
            client = clients.BetfairClient(mock.Mock(lightweight=False), username="u")
        elif exch == "simulated":
            client = clients.SimulatedClient(username="u")
        else:
            client = clients.BetdaqClient(mock.Mock(lightweight=False), username="u")
        from flumine.clients import ExchangeType
        client.execution = mock.Mock(EXCHANGE={"betfair": ExchangeType.BETFAIR, "simulated": ExchangeType.SIMULATED, "betdaq": ExchangeType.BETDAQ}[exch])
        sent = []
        fw = mock.Mock()
        fw.trading_controls = []
        fw.process_order_package = lambda p: sent.append(p)
        book = mock.Mock(publish_time=123, bet_delay=0, runners=[])
        market = Market(fw, "1.%d" % case, book)
        strategy = BaseStrategy(market_filter={}, name="s")
        versions = [None] + rng.sample(range(1, 9), rng.randint(0, 3))
        requests = {"PLACE": [], "CANCEL": [], "UPDATE": [], "REPLACE": []}    # accepted (order, version) in request order
        n_total = rng.choice([0, 1, 5, 30, 61, 130, 210, 450])
        ops_log = []
        is_betdaq = exch == "betdaq"
        pkg_cls = BetdaqOrderPackage if is_betdaq else BetfairOrderPackage
        # with some probability the with-block is left by an exception after the last request (a rejected request the
        # strategy does not catch): everything accepted before must still be delivered, exactly once
        boom_after = rng.randrange(1, n_total + 1) if (n_total and rng.random() < 0.25) else None

        class Boom(Exception):
            pass

        import contextlib
        with contextlib.suppress(Boom), market.transaction(client=client) as t:
            for i in range(n_total):
                if boom_after is not None and i == boom_after:
                    ops_log.append(("EXEC",))       # leaving the block flushes what is pending
                    raise Boom()
                kind = rng.choice(["PLACE", "PLACE", "CANCEL", "UPDATE", "REPLACE"])
                if is_betdaq and kind in ("REPLACE",):
                    kind = "CANCEL"
                v = rng.choice(versions)
                trade = Trade(market.market_id, 1 + i % 3, 0, strategy)
                if is_betdaq:
                    o = trade.create_betdaq_order("BACK", ot.BetdaqLimitOrder(2.0, 2.0, 1, 0, 0))
                else:
                    o = trade.create_order("BACK", ot.LimitOrder(2.0, 2.0))
                o._vidx = i
                try:
                    if kind == "PLACE":
                        ok = t.place_order(o, market_version=v, force=True)
                        if ok:
                            requests["PLACE"].append((o, v))
                    else:
                        # an order resting at the exchange
                        o.update_client(client)
                        o.bet_id = str(1000 + i)
                        market.blotter[o.id] = o
                        o.executable()
                        if kind == "CANCEL":
                            ok = t.cancel_order(o, force=True)
                            v = None
                        elif kind == "UPDATE":
                            ok = t.update_order(o, "PERSIST", force=True) if not is_betdaq else t.update_order(o, size_delta=1.0, force=True)
                            v = None
                        else:
                            ok = t.replace_order(o, 3.0, market_version=v, force=True)
                        if ok:
                            requests[kind].append((o, v))
                except Exception as e:   # noqa
                    res.violate("transaction-crash", "%s request raised %r (%s client)" % (kind, e, exch), {"case": case, "exchange": exch})
                    break
                ops_log.append((kind, i, v))
                if rng.random() < 0.02:
                    t.execute()
                    ops_log.append(("EXEC",))
        # ---- oracle on the delivered packages
        res.evaluations += 1
        tag = "txn:%s:%s" % (exch, "0" if n_total == 0 else "<=60" if n_total <= 60 else ">limit")
        res.distribution[tag] += 1
        if n_total > 60:
            res.nontrivial.add("txn %d" % case)
        leftover = len(t._pending_place) + len(t._pending_cancel) + len(t._pending_update) + len(t._pending_replace)
        if leftover or t._pending_orders:
            res.violate("left-queued-after-transaction", "%d requests still pending after the transaction ended (flag %s)" % (leftover, t._pending_orders),
                        {"case": case, "exchange": exch, "ops": ops_log[:50]})
        delivered = {}
        for p in sent:
            kind = p.package_type.name
            limit = pkg_cls.order_limit(p.package_type)
            if not is_betdaq and limit != LIMITS[kind]:
                res.violate("package-limit-constant", "order_limit(%s) = %s, the exchange allows %s per call" % (kind, limit, LIMITS[kind]), {"case": case})
            exp_limit = LIMITS[kind] if not is_betdaq else limit
            if len(p._orders) > exp_limit or len(p._orders) == 0:
                res.violate("package-size", "%s package with %d instructions (limit %d)" % (kind, len(p._orders), exp_limit), {"case": case, "exchange": exch})
            if type(p) is not pkg_cls:
                res.violate("package-class", "%s package for a %s client" % (type(p).__name__, exch), {"case": case})
            for o in p._orders:
                delivered.setdefault((kind, id(o)), []).append(p)
        for kind, reqs in requests.items():
            for o, v in reqs:
                ps = delivered.get((kind, id(o)), [])
                if len(ps) != 1:
                    res.violate("not-delivered-exactly-once", "%s request for order %d delivered %d times" % (kind, o._vidx, len(ps)),
                                {"case": case, "exchange": exch, "ops": ops_log[:80]})
                    break
                if ps[0]._market_version != v:
                    res.violate("package-market-version", "%s request for order %d made with version %s travels in a package of version %s" % (
                        kind, o._vidx, v, ps[0]._market_version), {"case": case, "exchange": exch})
                    break
        n_req = sum(len(r) for r in requests.values())
        n_del = sum(len(p._orders) for p in sent)
        if n_del != n_req:
            res.violate("not-delivered-exactly-once", "%d accepted requests, %d instructions delivered" % (n_req, n_del), {"case": case, "exchange": exch, "ops": ops_log[:80]})
        # request order within a version: flatten the packages of each (kind, version) in sending order
        for kind, reqs in requests.items():
            for v in {v for _, v in reqs}:
                got = [o._vidx for p in sent if p.package_type.name == kind and p._market_version == v for o in p._orders]
                exp = [o._vidx for o, vv in reqs if vv == v]
                if got != exp:
                    res.violate("request-order", "%s version %s: delivered order %s, requested %s" % (kind, v, got[:20], exp[:20]), {"case": case, "exchange": exch})
        # ---- model: segments between execute() calls, per kind
        if not is_betdaq:
            seg = {"PLACE": [], "CANCEL": [], "UPDATE": [], "REPLACE": []}
            segs = []
            for op in ops_log + [("EXEC",)]:
                if op[0] == "EXEC":
                    segs.append(seg)
                    seg = {"PLACE": [], "CANCEL": [], "UPDATE": [], "REPLACE": []}
                else:
                    seg[op[0]].append((op[1], op[2]))
            k = 0
            for sg in segs:
                for kind in ("PLACE", "CANCEL", "UPDATE", "REPLACE"):
                    if not sg[kind]:
                        continue
                    line = "packs %s %s" % (kind, ",".join("%d:%s" % (i, "-" if v is None else v) for i, v in sg[kind]))
                    n_packs = 0
                    # the implementation's packages for this segment and kind are the next ones of that kind in `sent`
                    exp_orders = {i for i, _ in sg[kind]}
                    got = []
                    for p in sent:
                        if p.package_type.name == kind and p._orders and p._orders[0]._vidx in exp_orders:
                            got.append("%s=%s" % ("-" if p._market_version is None else p._market_version, "+".join(str(o._vidx) for o in p._orders)))
                    lines.append(line)
                    impls.append(";".join(got) if got else ".")
                    payloads.append({"case": case, "exchange": exch})
    res.evaluations += len(lines)
    if model_ok and lines:
        answers = common.run_driver(lines)
        for line, impl, ans, pl in zip(lines, impls, answers, payloads):
            if ans != impl:
                res.disagree({"request": line[:1500], "model": ans[:1500], "implementation": impl[:1500], "case": pl})


# ------------------------------------------------------------------ simulation domain

class Oracle(simcheck.BaseOracle):
    def __init__(self, sc):
        super().__init__(sc)
        self.snap = None
        self.refused = 0
        self.accepted = []      # (kind, order, version) accepted since the last callback end
        self.sent = []          # packages seen at process_order_package
        self.batches = 0
        self._orig = None

    def on_start(self, run):
        fw = run.framework
        self._orig = fw.process_order_package
        oracle = self

        def wrapped(package):
            oracle.sent.append(package)
            return oracle._orig(package)

        fw.process_order_package = wrapped

    def snapshot(self, run, market, o):
        b = market.blotter
        ctx = o.trade.strategy._invested.get(o.lookup)
        ot = o.order_type
        return {
            "status": o.status, "log": tuple(o.status_log), "update_data": dict(o.update_data), "persistence": getattr(ot, "persistence_type", None),
            "price": getattr(ot, "price", None), "size": getattr(ot, "size", None),
            "sizes": (o.simulated.size_matched, o.simulated.size_cancelled, o.simulated.size_lapsed, o.simulated.size_voided),
            "trade": (o.trade.status, tuple(o.trade.status_log), tuple(id(x) for x in o.trade.orders)),
            "in_blotter": o.id in b, "blotter_len": len(b), "live": tuple(id(x) for x in b._live_orders),
            "ctx": (tuple(ctx.trades), tuple(ctx.live_trades)) if ctx else ((), ()),
            "queue": len(run.framework.handler_queue), "bet_id": o.bet_id, "client": id(o.client) if o.id in b else None,
        }

    def before_action(self, run, sidx, market, a, order, state):
        self.snap = None
        if a[0] == "bbegin":
            self.batches += 1
        if order is not None and a[0] in ("place", "cancel", "update", "replace"):
            t = state.get("t")
            pend = (len(t._pending_place), len(t._pending_cancel), len(t._pending_update), len(t._pending_replace)) if t else None
            self.snap = (order, self.snapshot(run, market, order), pend, len(self.sent))

    def on_action(self, run, sidx, market, a, result, order):
        if a[0] not in ("place", "cancel", "update", "replace") or order is None or self.snap is None or self.snap[0] is not order:
            return
        before, pend_before, sent_before = self.snap[1], self.snap[2], self.snap[3]
        if result == "True":
            if a[0] == "place" and (before["in_blotter"] or (before["status"] is not None and before["status"].name == "EXECUTION_COMPLETE")):
                # an order that has been placed before is not in a state that permits a placement, forced or not: force skips the
                # controls "but nothing else"
                self.add("placed-order-placed-again", "place%s of order %d, %s, was accepted" % (
                    " (forced)" if a[3] else "", idx_of(order), "already in the blotter" if before["in_blotter"] else "complete"))
            version = a[2] if a[0] == "place" else (a[3] if a[0] == "replace" else None)
            self.accepted.append((a[0].upper(), order, version))
            return
        if not (result.startswith("False:") or result.startswith("EXC:")):
            return
        self.refused += 1
        after = self.snapshot(run, market, order)
        idx = order._vidx
        if len(self.sent) != sent_before or after["queue"] != before["queue"]:
            self.add("refused-request-sent-something", "%s on order %d refused (%s) but a package was delivered" % (a[0], idx, result))
        new_order = not before["in_blotter"] and before["bet_id"] is None
        diff = sorted(k for k in before if before[k] != after[k])
        if new_order:
            # permitted: marked as a violation, stays out of the blotter
            allowed = {"status", "log", "update_data"}
            if after["in_blotter"]:
                self.add("refused-order-in-blotter", "refused new order %d is in the blotter" % idx)
            # (an order that already carries a status - e.g. a replacement order whose re-placement failed and was completed at
            # once - is left as it is by violation(), fix 0b9ab18)
            if result.startswith("False:") and before["status"] in (None,) and (after["status"] is None or after["status"].name != "VIOLATION"):
                self.add("refused-order-not-marked", "new order %d refused by a control (%s) is %s" % (idx, result, after["status"]))
            if set(diff) - allowed:
                self.add("refused-place-changed-state", "refused %s of new order %d changed %s" % (a[0], idx, sorted(set(diff) - allowed)))
        elif diff:
            if "client" in diff:
                self.add("refused-place-overwrites-client", "place of order %d, already in the blotter, was refused (%s) but the order now belongs to "
                         "another client" % (idx, result))
                diff = [k for k in diff if k != "client"]
                if not diff:
                    return
            if result.startswith("False:") and set(diff) <= {"status", "log", "update_data", "trade", "live"} and after["status"] is not None \
                    and after["status"].name == "VIOLATION":
                self.add("refused-request-marks-sent-order-violation", "%s on order %d refused by a control (%s): the order at the exchange is now "
                         "VIOLATION, changed %s" % (a[0], idx, result, diff))
            else:
                self.add("refused-request-changed-state", "%s on order %d refused (%s) but changed %s" % (a[0], idx, result, diff))

    def in_callback(self, run, strategy, market, market_book):
        # the transaction(s) of this callback have ended: everything accepted has been delivered exactly once
        for kind, o, v in self.accepted:
            ps = [p for p in self.sent if p.package_type.name == kind and o in p._orders]
            if len(ps) != 1:
                self.add("not-delivered-exactly-once", "%s request for order %d is in %d packages after the callback" % (kind, o._vidx, len(ps)))
            elif ps[0]._market_version != v:
                self.add("package-market-version", "%s request for order %d (version %s) travels with version %s" % (kind, o._vidx, v, ps[0]._market_version))
        n_req = len(self.accepted)
        n_del = sum(len(p._orders) for p in self.sent)
        if n_req != n_del:
            self.add("not-delivered-exactly-once", "%d accepted requests but %d instructions delivered in this callback" % (n_req, n_del))
        for p in self.sent:
            if len(p._orders) > LIMITS[p.package_type.name] or not p._orders:
                self.add("package-size", "%s package with %d instructions" % (p.package_type.name, len(p._orders)))
        self.accepted = []
        self.sent = []

    def tags(self, run):
        t = set()
        if self.refused:
            t.add("request-refused")
        if self.batches:
            t.add("batched-transaction")
        return t or {"run"}


def idx_of(order):
    return getattr(order, "_vidx", -1)


def make_oracle(sc):
    return Oracle(sc)


def run(res, tier, seed, model_ok, search):
    res.rule = ("transaction domain: real Market / Transaction / orders with 0..450 forced requests of mixed kinds and market versions, explicit "
                "execute() calls, Betfair / simulated / Betdaq clients, packages captured at process_order_package; simulation domain: every refused "
                "request compared with a before/after snapshot (order, trade, blotter, runner context, queue), every accepted request traced to "
                "exactly one package by the end of the callback. non-trivial = more requests than one package holds / a refused request; "
                "distinct = case index")
    run_txn(res, tier, seed, model_ok, search)
    simcheck.run(res, "C02", tier, seed, model_ok, search, n_quick=300, n_thorough=8000)


def replay(payload):
    rp = payload.get("replay") or {}
    if "scenario" in rp:
        return simcheck.generic_replay("C02", payload)
    print("failing input:", rp)
    return 1
