"""C13 - strategies are isolated from each other and from callback errors (simulation domain, metamorphic runs)."""
import copy
import multiprocessing as mp
import os
import random

import common
import simcheck

META = {
    "level_text": ("Theorems (Lean 4): for arbitrary callbacks (a behaviour function that may return anything or raise at any invocation) the "
                   "calls one strategy receives during an update depend only on its own callbacks - whatever the other strategies and the "
                   "middleware do, including raising (containment); every subscribed strategy is asked check_market_book exactly once per update; "
                   "process_market_book is reached iff the strategy's own check returned True (a raising check counts as False); all middleware "
                   "run, and run before any strategy callback, whoever raises; matching a strategy's orders leaves the market table (books and "
                   "traded-volume analytics) exactly as it was and every strategy's matching starts from a fresh copy built from the analytics "
                   "alone (the per-strategy copy of the traded volume). The end-to-end isolation statement (ledger of A in run(A+B) = ledger of A in "
                   "run(A)) is checked metamorphically on the real simulation: run(all), run(each strategy alone), run(reversed registration), and "
                   "the whole-world model is compared with the combined run; error containment by running each injected exception against the "
                   "run in which that invocation is a no-op."),
    "level_note": ("Trusted: Lean kernel + standard axioms; hand-written model validated by correspondence. The global non-interference theorem "
                   "over whole runs is NOT proved (only its two mechanisms: dispatch containment and the untouched market table); it is "
                   "validated by the metamorphic oracle. Sports-data / raw-data / custom-event dispatch (live framework) is not exercised here."),
    "trusted_base": [],
    "assumptions": ["bet ids and order ids are compared after renumbering; the clients' transaction limit is not reached (shared counter); "
                    "isolation concerns simulated_strategy_isolation = True"],
}

PROJECTION = None     # the combined run is compared with the world model on the full canonical line

LEDGER_FIELDS = (1, 2, 3, 5, 6, 7, 8, 9, 10, 12, 13, 14, 15, 17, 18, 19, 20)    # status .. completed; no id / bet id / piq / blotter flag / client


def gen_opts(rng):
    return {"strategies": rng.choice([2, 2, 3]), "isolation": True, "clients": 1, "p_act": 0.85, "p_removal": 0.15, "p_suspend": 0.3,
            "p_inplay": 0.3, "p_close": 0.5, "markets": rng.choice([1, 2])}


def gen(rng):
    import simgen
    sc = simgen.gen_scenario(rng, **gen_opts(rng))
    for c in sc["clients"]:
        c["txlimit"] = None
    for s in sc["strategies"]:
        s["markets"] = list(range(len(sc["markets"])))
    return sc


def directed_multi():
    import directed
    return [sc for sc in directed.all_scenarios() if len(sc["strategies"]) >= 2 and all(c.get("txlimit") is None for c in sc["clients"])]


def sub_scenario(sc, keep):
    """the scenario with only the strategies in `keep` (list of old indices, in the new registration order)"""
    out = copy.deepcopy(sc)
    out["strategies"] = [copy.deepcopy(sc["strategies"][i]) for i in keep]
    remap = {str(old): str(new) for new, old in enumerate(keep)}
    for m in out["markets"]:
        for u in m["updates"]:
            u["acts"] = {remap[k]: v for k, v in u.get("acts", {}).items() if k in remap}
    return out


def ledgers(run):
    """per strategy (by registration index): its orders in creation order, identity-free"""
    out = {}
    for o in run.orders:
        sidx = o.trade.strategy.sidx
        f = run.show_order(o).split(":")
        out.setdefault(sidx, []).append(":".join(f[i] for i in LEDGER_FIELDS) + ":" + str(o.simulated.profit if o.simulated else 0))
    return out


def received(run):
    out = {}
    for who, kind, mid, pt in run.calls:
        out.setdefault(who, []).append((kind, mid, pt))
    return out


def _iso_work(args):
    seed, idx = args
    import simworld
    rng = random.Random((seed * 104729 + idx) & 0xFFFFFFFF)
    if idx < 0:
        sc = directed_multi()[-1 - idx]       # hand-built interleavings with several strategies (run first)
    else:
        sc = gen(rng)
    n = len(sc["strategies"])
    res = {"idx": idx, "sc": sc, "viol": [], "n": n, "orders": 0}
    full = simworld.Run(sc).run()
    if full.crash:
        res["viol"].append(("combined-run-crashed", full.crash))
        return res
    lf = ledgers(full)
    res["orders"] = sum(len(v) for v in lf.values())
    res["matched_both"] = sum(1 for v in lf.values() if any(x.split(":")[3] not in ("0", "0/1") for x in v)) >= 2
    # each strategy alone
    for i in range(n):
        solo = simworld.Run(sub_scenario(sc, [i])).run()
        ls = ledgers(solo).get(0, [])
        if solo.crash:
            res["viol"].append(("solo-run-crashed", solo.crash))
        elif ls != lf.get(i, []):
            k = next((j for j, (a, b) in enumerate(zip(ls, lf.get(i, []))) if a != b), min(len(ls), len(lf.get(i, []))))
            res["viol"].append(("not-isolated", "strategy %d: order #%d alone %s | with the others %s" % (
                i, k, ls[k] if k < len(ls) else None, lf.get(i, [])[k] if k < len(lf.get(i, [])) else None)))
        else:
            # the callbacks the strategy received (check / new market / book / orders / closed, per market and publish time) are its own
            # affair too: whether process_orders is called must not depend on what the other strategies hold in the market
            ca, cb = received(solo).get("s0", []), received(full).get("s%d" % i, [])
            if ca != cb:
                k = next((j for j, (a, b) in enumerate(zip(ca, cb)) if a != b), min(len(ca), len(cb)))
                res["viol"].append(("callbacks-not-isolated", "strategy %d: callback #%d alone %s | with the others %s (%d vs %d callbacks)" % (
                    i, k, ca[k] if k < len(ca) else None, cb[k] if k < len(cb) else None, len(ca), len(cb))))
    # reversed registration order
    rev = list(range(n))[::-1]
    r = simworld.Run(sub_scenario(sc, rev)).run()
    lr = ledgers(r)
    for new, old in enumerate(rev):
        if lr.get(new, []) != lf.get(old, []):
            res["viol"].append(("registration-order-matters", "strategy %d: ledger differs when the strategies are added in reverse order" % old))
    return res


def _inj_work(args):
    seed, idx = args
    import simworld
    rng = random.Random((seed * 1299709 + idx) & 0xFFFFFFFF)
    sc = gen(rng)
    sc["raise_errors"] = False
    sc["middlewares"] = 2
    res = {"idx": idx, "sc": sc, "viol": [], "dispatch": []}
    probe = simworld.Run(copy.deepcopy(sc)).run()
    if probe.crash or not probe.calls:
        res["viol"].append(("combined-run-crashed", str(probe.crash)))
        return res
    # pick one invocation to sabotage
    # process_closed_market is not among the callbacks the property lists as contained: never sabotaged
    who, kind, mid, pt = rng.choice([c for c in probe.calls if c[1] != "closed"])
    inj = {"who": who, "kind": kind, "market": mid, "pt": pt}
    if kind == "book" and rng.random() < 0.6:
        # raise in the middle of the callback, after some requests were made (possibly inside a `with market.transaction()` block)
        acts = next((u["acts"].get(who[1:], []) for m in sc["markets"] if m["id"] == mid for u in m["updates"] if u["pt"] == pt), [])
        if len(acts) > 1:
            inj = {"who": who, "kind": "action", "market": mid, "pt": pt, "index": rng.randrange(1, len(acts))}
    if inj["kind"] != "action" and random.Random("exc|%d|%d" % (seed, idx)).random() < 0.35:
        inj["exc"] = "flumine"      # a FlumineException (the framework's own family takes the other except-branch of the callers)
    res["inj"] = inj
    a = simworld.Run(dict(copy.deepcopy(sc), inject=dict(inj, mode="skip"))).run()
    b = simworld.Run(dict(copy.deepcopy(sc), inject=dict(inj, mode="raise"))).run()
    if b.crash:
        res["viol"].append(("exception-escaped", "an exception raised in %s %s at %s aborted the run: %s" % (who, kind, pt, b.crash)))
        return res
    ra, rb = received(a), received(b)
    for w in sorted(set(ra) | set(rb)):
        if ra.get(w) != rb.get(w):
            sig = "other-callbacks-affected" if w != who else "own-callbacks-affected"
            res["viol"].append((sig, "%s received a different sequence of callbacks when %s %s raised at %s (%d vs %d calls)" % (
                w, who, kind, pt, len(ra.get(w, [])), len(rb.get(w, [])))))
    la, lb = [l for _, l in a.out], [l for _, l in b.out]
    if la != lb:
        k = next((i for i, (x, y) in enumerate(zip(la, lb)) if x != y), min(len(la), len(lb)))
        import simworld as sw
        res["viol"].append(("state-differs-from-noop", "raising in %s %s at %s leaves a different state than returning at once (update %d): %s" % (
            who, kind, pt, k, sw.diff_fields(la[k], lb[k])[:3] if k < min(len(la), len(lb)) else "length")))
    # middleware before strategies, every update
    cur = None
    seen_strategy = False
    for w, k, m, p in b.calls:
        if (m, p) != cur:
            cur, seen_strategy = (m, p), False
        if w.startswith("s"):
            seen_strategy = True
        elif seen_strategy:
            res["viol"].append(("middleware-after-strategy", "middleware %s ran after a strategy callback at %s" % (w, p)))
            break
    # model: the callback list of the sabotaged update
    calls = [(w, k) for w, k, m, p in b.calls if (m, p) == (mid, pt)]
    if calls and not any(k == "closed" for _, k in calls):
        n = len(sc["strategies"])
        has = ["T" if any(w == "s%d" % i and k == "orders" for w, k in calls) else "F" for i in range(n)]
        sub = ["T" if any(w == "s%d" % i and k == "check" for w, k in calls) else "F" for i in range(n)]
        active = "T" if "T" in has else "F"
        is_new = "T" if any(k == "newMarket" for _, k in calls) or (kind == "newMarket") else "F"
        ov = "%s.%s=R" % (who if who.startswith("s") else "m%d" % (int(who[1:]) - 1), kind) if inj["kind"] != "action" else "."
        line = "dispatch 2 %s %s %s %s" % (active, is_new, ",".join("%d:%s:%s" % (i, sub[i], has[i]) for i in range(n)), ov)
        impl = ",".join("%s.%s" % (w if w.startswith("s") else "m%d" % (int(w[1:]) - 1), k) for w, k in calls)
        res["dispatch"].append((line, impl))
    return res


def raw_data_containment(res, seed):
    """the raw-data dispatch of a live / recorder framework (`_process_raw_data` -> `call_process_raw_data`): an exception - of the
    framework's own family or any other - raised by one strategy's `process_raw_data` is contained; the strategies registered after it
    and the remaining datums of the message are served, every strategy receives every datum of its stream exactly once"""
    common.use_repo()
    from unittest import mock
    from flumine import Flumine, clients, BaseStrategy, config
    from flumine.events import events
    from flumine.exceptions import FlumineException
    rng = random.Random(seed * 77 + 5)
    for case in range(40):
        fw = Flumine(client=clients.BetfairClient(mock.Mock(lightweight=False), username="u"))
        fw.log_control = lambda e: None
        n = rng.choice([2, 3, 4])
        bad = rng.randrange(n)
        bad_call = rng.randint(1, 4)
        exc = rng.choice([ValueError, FlumineException, KeyError])
        got = {i: [] for i in range(n)}
        sts = []
        for i in range(n):
            st = BaseStrategy(market_filter={}, name="raw%d" % i)
            st.streams = [mock.Mock(stream_id=55 if (i == bad or rng.random() < 0.8) else 66)]
            def prd(clk, pt, datum, i=i):
                got[i].append((clk, datum.get("id")))
                if i == bad and len(got[i]) == bad_call:
                    raise exc("injected by the checker")
            st.process_raw_data = prd
            sts.append(st)
            fw.strategies._strategies.append(st)
        sent = []
        escaped = None
        was = config.raise_errors
        config.raise_errors = False
        try:
            for k in range(rng.randint(2, 4)):
                datums = [{"id": "1.%d" % (70 + rng.randrange(3)), "rc": [{"id": 1, "ltp": 2.0}]} for _ in range(rng.randint(1, 3))]
                sent += [("c%d" % k, d["id"]) for d in datums]
                try:
                    fw._process_raw_data(events.RawDataEvent((55, "c%d" % k, 1_900_000_000_000 + k, datums)))
                except Exception as e:  # noqa
                    escaped = repr(e)[:120]
        finally:
            config.raise_errors = was
            for ex in (fw.simulated_execution, fw.betfair_execution, fw.betdaq_execution):
                ex.shutdown()
        res.evaluations += 1
        res.distribution["raw-data-dispatch:%s" % exc.__name__] += 1
        payload = {"seed": seed, "case": case, "mode": "raw-data"}
        if escaped:
            res.violate("callback-error-escaped", "live raw-data dispatch: %s raised in process_raw_data of strategy %d left _process_raw_data (%s)" % (
                exc.__name__, bad, escaped), payload)
        for i, st in enumerate(sts):
            exp = sent if st.streams[0].stream_id == 55 else []
            if got[i] != exp:
                res.violate("callback-error-not-contained", "live raw-data dispatch: strategy %d received %d of the %d datums of its stream after strategy %d raised %s" % (
                    i, len(got[i]), len(exp), bad, exc.__name__), payload)
                break
        if len(sent) >= bad_call:
            res.nontrivial.add("raw %d" % case)


def live_market_book_containment(res, seed, model_ok=True):
    """the market-book dispatch of a LIVE framework (`BaseFlumine._process_market_books`, the loop `Flumine.run` uses): an exception
    raised by one strategy's `process_new_market`, `check_market_book` or `process_market_book` is contained; the strategies registered
    after it and the remaining books of the event are served, every strategy receives every callback of its stream exactly once and the
    new-market callback exactly once per market"""
    common.use_repo()
    from unittest import mock
    from flumine import Flumine, clients, BaseStrategy, config
    from flumine.events import events
    from flumine.exceptions import FlumineException
    rng = random.Random(seed * 79 + 11)
    corr_lines, corr_impls, corr_payloads = [], [], []
    for case in range(40):
        fw = Flumine(client=clients.BetfairClient(mock.Mock(lightweight=False), username="u"))
        fw.log_control = lambda e: None
        n = rng.choice([2, 3, 4])
        bad = rng.randrange(n)
        bad_cb = rng.choice(["new", "new", "check", "book"])
        bad_call = rng.randint(1, 3)
        exc = rng.choice([ValueError, FlumineException, KeyError])
        got = {i: [] for i in range(n)}
        calls = {"n": 0, "raised_at": None}
        in_order = []      # every callback of the case, in the order in which the framework made it
        sts = []
        for i in range(n):
            st = BaseStrategy(market_filter={}, name="live%d" % i)
            st.streams = [mock.Mock(stream_id=55 if (i == bad or rng.random() < 0.8) else 66)]

            def hit(kind, market, mb, i=i):
                got[i].append((kind, mb.market_id, mb.publish_time_epoch))
                in_order.append((i, kind, mb.market_id, mb.publish_time_epoch))
                if i == bad and kind == bad_cb:
                    calls["n"] += 1
                    if calls["n"] == bad_call:
                        calls["raised_at"] = (mb.market_id, mb.publish_time_epoch)
                        raise exc("injected by the checker")
            st.process_new_market = lambda market, mb, hit=hit: hit("new", market, mb)
            st.check_market_book = lambda market, mb, hit=hit: (hit("check", market, mb), True)[1]
            st.process_market_book = lambda market, mb, hit=hit: hit("book", market, mb)
            sts.append(st)
            fw.strategies._strategies.append(st)
        expected = []     # (kind, market, pt) a strategy on stream 55 is owed, in order (the injected call included)
        seen_markets = set()
        escaped = None
        was = config.raise_errors
        config.raise_errors = False
        try:
            pt = 1_900_000_000_000
            for k in range(rng.randint(2, 4)):
                books = []
                for _ in range(rng.randint(1, 3)):
                    pt += 500
                    mid = "1.%d" % (80 + rng.randrange(3))
                    books.append(mock.Mock(market_id=mid, streaming_snap=True, streaming_unique_id=55, status="OPEN", publish_time_epoch=pt,
                                           market_definition=mock.Mock(status="OPEN"), runners=[]))
                    if mid not in seen_markets:
                        seen_markets.add(mid)
                        expected.append(("new", mid, pt))
                    expected += [("check", mid, pt), ("book", mid, pt)]
                try:
                    fw._process_market_books(events.MarketBookEvent(books))
                except Exception as e:  # noqa
                    escaped = repr(e)[:120]
        finally:
            config.raise_errors = was
            for ex in (fw.simulated_execution, fw.betfair_execution, fw.betdaq_execution):
                ex.shutdown()
        res.evaluations += 1
        res.distribution["live-book-dispatch:%s:%s" % (bad_cb, exc.__name__)] += 1
        payload = {"seed": seed, "case": case, "mode": "live-market-books"}
        if escaped:
            res.violate("callback-error-escaped", "live market-book dispatch: %s raised in %s of strategy %d left _process_market_books (%s)" % (
                exc.__name__, bad_cb, bad, escaped), payload)
        for i, st in enumerate(sts):
            exp = list(expected) if st.streams[0].stream_id == 55 else []
            if i == bad and bad_cb == "check":
                # the raising check_market_book returned nothing: its own process_market_book is skipped for that one book
                hits = [e for e in exp if e[0] == "check"]
                if len(hits) >= bad_call:
                    _, m_, p_ = hits[bad_call - 1]
                    exp.remove(("book", m_, p_))
            if got[i] != exp:
                res.violate("callback-error-not-contained", "live market-book dispatch: strategy %d received %d of the %d callbacks of its stream after "
                            "strategy %d raised %s in %s" % (i, len(got[i]), len(exp), bad, exc.__name__, bad_cb), payload)
                break
        if calls["n"] >= bad_call:
            res.nontrivial.add("livebook %d" % case)
        # correspondence: the callbacks of every book, in order, against the model's dispatch loop (`Dispatch.processBook`, the
        # function the containment theorems are about) with no middleware and the one raising call
        kname = {"new": "newMarket", "check": "check", "book": "book"}
        books_seen = []
        for i, kind, m_, p_ in in_order:
            if (m_, p_) not in books_seen:
                books_seen.append((m_, p_))
        for (m_, p_) in books_seen:
            these = [(i, kind) for i, kind, m2, p2 in in_order if (m2, p2) == (m_, p_)]
            is_new = "T" if any(k == "new" for _, k in these) else "F"
            ov = "s%d.%s=R" % (bad, kname[bad_cb]) if calls["raised_at"] == (m_, p_) else "."
            corr_lines.append("dispatch 0 F %s %s %s" % (is_new, ",".join("%d:%s:F" % (i, "T" if sts[i].streams[0].stream_id == 55 else "F") for i in range(n)), ov))
            corr_impls.append(",".join("s%d.%s" % (i, kname[k]) for i, k in these))
            corr_payloads.append(payload)
    _compare_dispatch(res, model_ok, corr_lines, corr_impls, corr_payloads)


def _compare_dispatch(res, model_ok, lines, impls, payloads):
    if not (model_ok and lines):
        return
    for line, impl, ans, pl in zip(lines, impls, common.run_driver(lines), payloads):
        res.evaluations += 1
        if ans != impl:
            res.disagree({"request": line, "model": ans, "implementation": impl, "case": pl})


def run(res, tier, seed, model_ok, search):
    res.rule = ("isolation: 2..3 scripted strategies on shared markets and one client; run(all) vs run(each alone) vs run(reversed registration), "
                "per-strategy ledgers (statuses, fills, sizes, times, profit) compared; containment: an exception injected at a random invocation "
                "of a random callback (middleware, process_orders, new market, check, book) of a random strategy with raise_errors False, "
                "compared with the run in which that invocation returns at once; plus whole-world model correspondence on the combined runs. "
                "non-trivial = combined run with orders of at least two strategies / an injection; distinct = scenario index")
    big = tier != "quick" or search
    n_iso, n_inj = (1500, 3000) if big else (60, 150)
    raw_data_containment(res, seed)
    live_market_book_containment(res, seed, model_ok)
    iso = common.pmap(_iso_work, [(seed, -1 - k) for k in range(len(directed_multi()))] + [(seed, i) for i in range(n_iso)], chunksize=2)
    inj = common.pmap(_inj_work, [(seed, i) for i in range(n_inj)], chunksize=4)
    for o in iso:
        res.evaluations += 1 + o["n"] + 1
        res.distribution["iso:strategies:%d" % o["n"]] += 1
        if o.get("matched_both"):
            res.nontrivial.add("iso %d" % o["idx"])
            res.distribution["iso:two-strategies-matched"] += 1
        for sig, what in o["viol"]:
            res.violate(sig, what, {"seed": seed, "scenario_index": o["idx"], "scenario": o["sc"], "mode": "isolation"})
    lines, impls, metas = [], [], []
    for o in inj:
        res.evaluations += 3
        if o.get("inj"):
            res.distribution["inject:%s:%s" % ("middleware" if o["inj"]["who"].startswith("m") else "strategy", o["inj"]["kind"])] += 1
            res.nontrivial.add("inj %d" % o["idx"])
        for sig, what in o["viol"]:
            sc = dict(o["sc"])
            res.violate(sig, what, {"seed": seed, "scenario_index": o["idx"], "scenario": sc, "inject": o.get("inj"), "mode": "injection"})
        for line, impl in o["dispatch"]:
            lines.append(line)
            impls.append(impl)
            metas.append({"scenario_index": o["idx"], "inject": o.get("inj")})
    res.evaluations += len(lines)
    if model_ok and lines:
        for line, impl, ans, meta in zip(lines, impls, common.run_driver(lines), metas):
            if ans != impl:
                res.disagree({"request": line, "model": ans, "implementation": impl, "case": meta})
    # whole-world model vs the real combined runs (isolated matching, several strategies)
    simcheck.run(res, "C13", tier, seed, model_ok, search, n_quick=150, n_thorough=4000)


def replay(payload):
    rp = payload.get("replay") or {}
    print("mode:", rp.get("mode"), "| injection:", rp.get("inject"))
    if rp.get("mode") == "isolation" and rp.get("scenario"):
        import simworld
        sc = rp["scenario"]
        full = ledgers(simworld.Run(sc).run())
        for i in range(len(sc["strategies"])):
            solo = ledgers(simworld.Run(sub_scenario(sc, [i])).run()).get(0, [])
            print("strategy", i, "isolated:", solo == full.get(i, []))
        return 1
    if rp.get("mode") == "raw-data":
        res = common.Result()
        raw_data_containment(res, rp.get("seed", 0))
        hits = [v for v in res.violations if (v.get("replay") or {}).get("case") == rp.get("case")]
        for v in hits:
            print(v["signature"], "|", v["what"])
        print("raw-data dispatch case %s of seed %s: %d violation(s)" % (rp.get("case"), rp.get("seed"), len(hits)))
        return 1 if hits else 0
    if rp.get("mode") == "live-market-books":
        res = common.Result()
        live_market_book_containment(res, rp.get("seed", 0))
        hits = [v for v in res.violations if (v.get("replay") or {}).get("case") == rp.get("case")]
        for v in hits:
            print(v["signature"], "|", v["what"])
        print("live market-book dispatch case %s of seed %s: %d violation(s)" % (rp.get("case"), rp.get("seed"), len(hits)))
        return 1 if hits else 0
    return simcheck.generic_replay("C13", payload) if rp.get("scenario") and not rp.get("mode") else 1
