"""C07 - simulated latency and bet delay: no look-ahead and no free speed (simulation domain)."""
import datetime
from fractions import Fraction

import simcheck
import simworld
from common import frac

META = {
    "level_text": ("Theorems (Lean 4): a queued package is executed by the pending-package check of an update iff it belongs to that update's market and "
                   "the update's time is MORE than its delay after its creation, it then leaves the queue, otherwise it stays untouched; the delay is "
                   "the latency of the kind plus (PLACE / REPLACE only) the bet delay of the book current at request time; the package's creation "
                   "time is the clock at the request; the clock is set to the publish time before anything else and the handlers run before the new "
                   "book is installed (they read the previous book); a PENDING order is never matched by the middleware and CANCELLING / UPDATING / "
                   "REPLACING orders are matched exactly like EXECUTABLE ones. Model tied to /repo by whole-simulation correspondence with spacings "
                   "straddling every latency (119/120/121 ms ...), several requests between two updates, interleaved markets, bet delay changes."),
    "level_note": ("Trusted: Lean kernel + standard axioms; hand-written world model validated by correspondence; that datetime.utcnow is patched "
                   "everywhere is runtime behaviour: observed in every strategy callback (run.clock_ok), not proved."),
    "trusted_base": ["python datetime arithmetic (elapsed seconds from millisecond publish times are exact)"],
    "assumptions": ["publish times are integral milliseconds"],
}

PROJECTION = {"R": True, "O": ["id", "status", "log", "frags", "placed", "created", "completed"], "Q": True, "E": r"^book/"}

LAT = {"place": 0.12, "cancel": 0.17, "update": 0.15, "replace": 0.28}


def gen_opts(rng):
    return {"p_removal": 0.05, "p_suspend": 0.15, "p_inplay": 0.5, "p_close": 0.3, "markets": rng.choice([1, 2, 2]),
            "event_processing": rng.random() < 0.5, "p_act": 0.7}


def ms_of(dt):
    if dt is None:
        return None
    d = dt - datetime.datetime(1970, 1, 1)
    return d.days * 86400000 + d.seconds * 1000 + d.microseconds // 1000


class Oracle(simcheck.BaseOracle):
    def __init__(self, sc):
        super().__init__(sc)
        self.pts = {m["id"]: [u["pt"] for u in m["updates"]] for m in sc["markets"]}
        self.upd = {m["id"]: {u["pt"]: u for u in m["updates"]} for m in sc["markets"]}
        self.req = []       # outstanding / finished requests
        self.script_orders = set()      # id() of the orders the script created (every other order of a trade is a replacement)
        self.created = {}   # order idx -> request time of creation
        self.n_effect = 0
        self.n_boundary = 0

    def on_action(self, run, sidx, market, a, result, order):
        now = ms_of(datetime.datetime.utcnow())
        if a[0] == "create" and order is not None:
            self.script_orders.add(id(order))
            if ms_of(order.date_time_created) != now:
                self.add("created-time", "order %d date_time_created %s != clock %s" % (order._vidx, order.date_time_created, now))
            return
        if result != "True" or order is None or a[0] not in ("place", "cancel", "update", "replace"):
            return
        kind = a[0]
        mid = market.market_id
        bd = market.market_book.bet_delay or 0
        delay_ms = Fraction(str(LAT[kind])) * 1000 + (bd * 1000 if kind in ("place", "replace") else 0)
        pts = self.pts[mid]
        later = [p for p in pts if p > now and p - now > delay_ms]
        # the queue is cleared when the market's stream (or its event group) has been played: within one market's own
        # sequence that is after its last update
        eff = later[0] if later else None
        if any(p - now == delay_ms for p in pts):
            self.n_boundary += 1
        self.req.append({"kind": kind, "o": order, "t": now, "delay": delay_ms, "eff": eff, "mid": mid, "done": False,
                         "frags0": len(order.simulated.matched), "resp0": self.responses(order, kind), "n_orders0": len(order.trade.orders)})

    @staticmethod
    def responses(o, kind):
        """how many handler responses of this kind the order has received (a handler appends one when it runs)"""
        if kind == "place":
            return 0 if o.responses.place_response is None else 1
        if kind == "update":
            return len(o.responses.update_responses)
        return len(o.responses.cancel_responses)      # cancel, and the cancel part of a replace

    def after_update(self, run, mb):
        pt = mb.publish_time_epoch
        mid = mb.market_id
        if run.framework.handler_queue is None:
            return
        for r in self.req:
            if r["done"] or r["mid"] != mid or pt <= r["t"]:
                continue
            o = r["o"]
            st = o.status.name if o.status else None
            names = [x.name for x in o.status_log]
            who = "%s of order %d requested at %d (delay %s ms)" % (r["kind"], o._vidx, r["t"], float(r["delay"]))
            if (r["eff"] is None or pt < r["eff"]) and self.responses(o, r["kind"]) != r["resp0"] and st != "VIOLATION":
                self.add("handler-ran-too-early", "%s: the execution handler already answered at %d (expected effect at %s)" % (who, pt, r["eff"]))
            if pt == r["eff"] and self.responses(o, r["kind"]) == r["resp0"] and st not in ("VIOLATION", "EXECUTION_COMPLETE"):
                self.add("handler-did-not-run", "%s: no response at its effect update %d" % (who, pt))
            if r["eff"] is None or pt < r["eff"]:
                # must not have taken effect yet
                if r["kind"] == "place":
                    voided = frac(o.simulated.size_voided) > 0    # runner removed while the placement was in flight (C09)
                    # an order with nothing remaining (voided, or a dead replacement order placed by the script) is completed
                    # by the completion loop, not by the request: no handler response has arrived
                    by_loop = st == "EXECUTION_COMPLETE" and self.responses(o, "place") == r["resp0"] and frac(o.simulated.size_remaining) == 0
                    if st != "PENDING" and st != "VIOLATION" and not (voided and st == "EXECUTION_COMPLETE") and not by_loop:
                        self.add("effect-too-early", "%s already %s at %d" % (who, st, pt))
                    if len(o.simulated.matched) > r["frags0"]:
                        self.add("pending-order-matched", "%s has fills while pending at %d" % (who, pt))
                else:
                    exp = {"cancel": "CANCELLING", "update": "UPDATING", "replace": "REPLACING"}[r["kind"]]
                    if st not in (exp, "EXECUTION_COMPLETE", "VIOLATION"):
                        self.add("effect-too-early", "%s already back to %s at %d (expected effect at %s)" % (who, st, pt, r["eff"]))
            elif pt == r["eff"]:
                r["done"] = True
                self.n_effect += 1
                if r["kind"] == "place":
                    if st == "PENDING":
                        self.add("effect-too-late", "%s still PENDING at its effect update %d" % (who, pt))
                    placed = ms_of(o.responses._date_time_placed)
                    if st != "VIOLATION" and placed != pt:
                        self.add("placed-time", "%s: date_time_placed %s, effect update %d" % (who, placed, pt))
                    prev = [p for p in self.pts[mid] if p < pt]
                    used = prev[-1] if prev else None
                    for f in o.simulated.matched[r["frags0"]:]:
                        if f[0] not in (0, pt) and f[0] != used:
                            self.add("wrong-book-used", "%s: fill stamped %s, the book prevailing before update %d is %s" % (who, f[0], pt, used))
                        if f[0] != 0 and f[0] < r["t"]:
                            self.add("fill-before-request", "%s: fill stamped %s precedes the request" % (who, f[0]))
                else:
                    if r["kind"] == "replace":
                        # the orders replaces create did not exist before their request: a replacement order is created at the time of an
                        # accepted replace request of its trade (the package's creation time) and placed at a later update
                        times = {q["t"] for q in self.req if q["kind"] == "replace" and q["o"].trade is o.trade}
                        for new in o.trade.orders:
                            if id(new) in self.script_orders or not new.status_log:
                                continue
                            created = ms_of(new.date_time_created)
                            if created not in times:
                                self.add("timestamp-before-the-request", "%s: replacement order %d of its trade has date_time_created = %s, "
                                         "which is not the time of any replace request of the trade (%s)" % (who, getattr(new, "_vidx", -1), created, sorted(times)))
                            placed = new.responses._date_time_placed
                            if placed is not None and ms_of(placed) <= created:
                                self.add("timestamp-before-the-request", "%s: replacement order %d placed at %s, not after its request at %s" % (
                                    who, getattr(new, "_vidx", -1), ms_of(placed), created))
                    exp = {"cancel": "CANCELLING", "update": "UPDATING", "replace": "REPLACING"}[r["kind"]]
                    if st == exp and names.count(exp) == len([q for q in self.req if q["o"] is o and q["kind"] == r["kind"] and not q["done"]]) + 0 and False:
                        pass
                    if st == exp and not any(q for q in self.req if q is not r and q["o"] is o and not q["done"]):
                        self.add("effect-too-late", "%s still %s after its effect update %d" % (who, st, pt))
            else:
                r["done"] = True

    def finish_checks(self, run):
        for r in self.req:
            if r["eff"] is None and not r["done"]:
                o = r["o"]
                st = o.status.name if o.status else None
                by_loop = st == "EXECUTION_COMPLETE" and self.responses(o, "place") == r["resp0"] and frac(o.simulated.size_remaining) == 0
                if r["kind"] == "place" and st not in ("PENDING", "VIOLATION") and not frac(o.simulated.size_voided) > 0 and not by_loop:
                    self.add("effect-without-update", "place of order %d took effect although no later update of its market was more than the delay away (status %s)" % (o._vidx, st))
        if not run.clock_ok:
            self.add("clock-not-publish-time", "utcnow() inside a strategy callback differed from the publish time of the update being processed")

    def tags(self, run):
        t = set()
        if self.n_effect:
            t.add("request-took-effect")
        if self.n_boundary:
            t.add("update-exactly-at-delay-boundary")
        if any(r["eff"] is None for r in self.req):
            t.add("request-never-effective")
        if any(r["kind"] in ("place", "replace") and r["delay"] > 300 for r in self.req):
            t.add("bet-delay>0")
        return t


def make_oracle(sc):
    return Oracle(sc)


def run(res, tier, seed, model_ok, search):
    res.rule = ("whole simulation runs with update spacings from 40 ms to 12 s including spacings exactly at / 1 ms around every latency, several "
                "requests between two updates, event-grouped markets, bet delay 0/1/5 s from the in-play turn; the oracle recomputes the expected "
                "effect update of every accepted request from the publish times in the generated files. non-trivial = an accepted request took "
                "effect at a later update; distinct = scenario index")
    simcheck.run(res, "C07", tier, seed, model_ok, search, n_quick=400, n_thorough=12000)


def replay(payload):
    return simcheck.generic_replay("C07", payload)
