"""C20 - market closure is processed once, with results, for the right strategies (simulation domain + live removal rule)."""
import datetime

import common
import simcheck
import simworld

META = {
    "level_text": ("Theorems (Lean 4) about processCloseMarket / blotterProcessClosed / processMarketBook: for a closing update of a known market every "
                   "order on a runner of the book receives that runner's status and the market's settlement terms; exactly one closed-market callback is "
                   "emitted per subscribed (or empty-filter) strategy and none for others; one cleared-orders event iff the blotter is non-empty, one "
                   "cleared-market summary per client, then the close event, in that order; the market is closed afterwards, its middleware analytics "
                   "and the strategies' runner contexts for it are released; a later non-closing update re-opens it. Whole-run (closed_callbacks_whole_run): the "
                   "closed-market callbacks observed in ANY run, in order, and the markets known at the end are a fold of a five-line specification over "
                   "the updates alone - whatever the strategies do in their callbacks, nothing adds, drops, duplicates or reorders one. For a closing update of a market "
                   "never seen open the simulation path only logs a warning and calls nobody (known finding F12, Lean witness). The live removal rule "
                   "(closed for more than 3600 s, at close events only) is checked on the real BaseFlumine by the oracle with a patched clock."),
    "level_note": ("Trusted: Lean kernel + standard axioms; hand-written model validated by whole-simulation correspondence (events, markets, contexts "
                   "after every update). 'Once' is read per closing update received. Recorder mode (dict updates) and live removal are exercised on "
                   "the real code only (oracle), not modelled."),
    "trusted_base": ["betfairlightweight MarketBook resources"],
    "assumptions": [],
}

PROJECTION = {"E": True, "M": True, "C": True, "O": ["id", "status"]}


def gen_opts(rng):
    return {"p_close": 0.95, "p_reopen": 0.4, "p_removal": 0.0, "strategies": rng.choice([1, 2, 3]), "markets": rng.choice([1, 2, 3]),
            "clients": rng.choice([1, 2]), "event_processing": rng.random() < 0.3, "subset_subscriptions": True, "p_suspend": 0.2, "p_inplay": 0.3, "p_handicap": 0.3}


class Oracle(simcheck.BaseOracle):
    def __init__(self, sc):
        super().__init__(sc)
        self.index = {}
        for mi, m in enumerate(sc["markets"]):
            for ui, u in enumerate(m["updates"]):
                self.index[(m["id"], u["pt"])] = (mi, ui)
        self.closes = 0
        self.reopens = 0
        self.was_closed = set()
        self.events = []

    def hooks(self):
        h = super().hooks()
        return h

    def after_update(self, run, mb):
        key = (mb.market_id, mb.publish_time_epoch)
        if key not in self.index:
            return
        mi, ui = self.index[key]
        line = run.out[-1][1] if run.out else ""
        ev = line.split(" E ")[-1].split(" F ")[0].split(",") if " E " in line else []
        mnum = simworld.market_num(mb.market_id)
        market = run.framework.markets.markets.get(mb.market_id)
        if mb.status == "CLOSED":
            self.closes += 1
            if market is None:
                self.add("close-of-unknown-market-ignored", "closing update for market %s that was never seen open: no market, no callbacks" % mb.market_id)
                return
            subs = [si for si, s in enumerate(self.sc["strategies"]) if mi in s["markets"]]
            calls = [e for e in ev if e.startswith("closed/")]
            exp_calls = ["closed/%d/%d/%d" % (si, mnum, mb.publish_time_epoch) for si in subs]
            if calls != exp_calls:
                self.add("closed-callbacks", "closing update %d of %s: callbacks %s, expected exactly %s" % (ui, mb.market_id, calls, exp_calls))
            n_orders = len(market.blotter)
            co = [e for e in ev if e.startswith("clearedOrders/")]
            if (len(co) == 1) != (n_orders > 0) or len(co) > 1:
                self.add("cleared-orders-event", "closing update of %s: %d cleared-orders events for %d orders" % (mb.market_id, len(co), n_orders))
            cm = [e for e in ev if e.startswith("clearedMarket/")]
            if len(cm) != len(run.clients) or [e.split("/")[2] for e in cm] != [str(i) for i in range(len(run.clients))]:
                self.add("cleared-market-events", "closing update of %s: cleared-market events %s for %d clients" % (mb.market_id, cm, len(run.clients)))
            ce = [e for e in ev if e.startswith("closeEvent/")]
            if len(ce) != 1:
                self.add("close-event", "closing update of %s: %d close events" % (mb.market_id, len(ce)))
            # order of the events: callbacks, cleared orders, cleared markets, close event
            kinds = [e.split("/")[0] for e in ev if e.split("/")[0] in ("closed", "clearedOrders", "clearedMarket", "closeEvent")]
            rank = {"closed": 0, "clearedOrders": 1, "clearedMarket": 2, "closeEvent": 3}
            if [rank[k] for k in kinds] != sorted(rank[k] for k in kinds):
                self.add("close-event-order", "closing update of %s: events in order %s" % (mb.market_id, kinds))
            if not market.closed:
                self.add("market-not-closed", "market %s not marked closed after its closing update" % mb.market_id)
            status_of = {(r.selection_id, r.handicap): r.status for r in mb.runners}
            for o in market.blotter:
                k = (o.selection_id, o.handicap)
                if k in status_of:
                    if o.runner_status != status_of[k]:
                        self.add("result-not-copied", "order %d: runner_status %s, closing book says %s" % (o._vidx, o.runner_status, status_of[k]))
                    if o.market_type != mb.market_definition.market_type:
                        self.add("result-not-copied", "order %d: market_type %s" % (o._vidx, o.market_type))
            # released state (simulation: _remove_market(clear=False))
            for si, st in enumerate(run.strategies):
                if any(k[0] == mb.market_id for k in st._invested):
                    self.add("runner-contexts-not-released", "strategy %d still holds runner contexts of closed market %s" % (si, mb.market_id))
            mw = [m for m in run.framework._market_middleware if type(m).__name__ == "SimulatedMiddleware"][0]
            if mb.market_id in mw.markets:
                self.add("middleware-state-not-released", "simulated middleware still holds analytics of closed market %s" % mb.market_id)
            if mb.market_id not in run.framework.markets.markets:
                self.add("simulation-deleted-market", "market %s deleted by a simulation" % mb.market_id)
            self.was_closed.add(mb.market_id)
        else:
            if any(e.startswith(("closed/", "clearedOrders/", "clearedMarket/", "closeEvent/")) for e in ev):
                self.add("close-processing-on-open-update", "update %d of %s (status %s) produced closure events %s" % (ui, mb.market_id, mb.status, ev))
            if mb.market_id in self.was_closed and market is not None:
                self.reopens += 1
                self.was_closed.discard(mb.market_id)
                if market.closed:
                    self.add("not-reopened", "market %s still closed after data arrived again" % mb.market_id)
                if market.orders_cleared or market.market_cleared:
                    self.add("cleared-flags-not-reset", "market %s re-opened with cleared flags %s %s" % (mb.market_id, market.orders_cleared, market.market_cleared))
                elif self.shared_flags(market):
                    self.add("cleared-flags-not-reset", "market %s re-opened with ONE register for both cleared flags: marking a client's orders as "
                             "collected marks its market summary as collected too" % mb.market_id)

    def finish_checks(self, run):
        # live removal rule on the real BaseFlumine (patched clock): only closed markets older than 3600 s, at close events only
        try:
            self.live_removal_rule()
        except Exception as e:  # noqa
            self.add("live-removal-harness-error", repr(e)[:200])

    def live_removal_rule(self):
        from unittest import mock
        from flumine import Flumine, clients, BaseStrategy
        from flumine.events import events
        import bflw_build as bb
        import flumine.markets.market as market_mod

        class Clock(datetime.datetime):
            now_ = datetime.datetime(2030, 1, 1, 10, 0, 0)

            @classmethod
            def utcnow(cls):
                return cls.now_

        real = datetime.datetime
        fw = Flumine(client=clients.BetfairClient(mock.Mock(lightweight=False), username="u"))
        st = BaseStrategy(market_filter={}, name="x")
        st.streams = []
        fw.strategies._strategies.append(st)
        released = []
        st.remove_market = lambda mid: released.append(mid)
        fw.log_control = lambda e: None
        datetime.datetime = Clock
        try:
            def book(mid, status, pt):
                b = bb.BookBuilder(mid).feed(bb.mcm(mid, pt, bb.market_definition(status=status, runners=[{"id": 1, "status": "WINNER" if status == "CLOSED" else "ACTIVE"}]), [], img=True))
                return b
            t0 = 1_900_000_000_000
            fw._process_market_books(events.MarketBookEvent([book("1.1", "OPEN", t0), book("1.2", "OPEN", t0)]))
            fw._process_market_books(events.MarketBookEvent([book("1.1", "CLOSED", t0 + 1000)]))
            ev = fw.handler_queue.get_nowait()
            fw._process_close_market(ev)
            if "1.1" not in fw.markets.markets:
                self.add("live-removed-too-early", "live framework removed a market at its own close event")
            Clock.now_ = Clock.now_ + datetime.timedelta(seconds=3500)
            fw._process_market_books(events.MarketBookEvent([book("1.2", "CLOSED", t0 + 2000)]))
            fw._process_close_market(fw.handler_queue.get_nowait())
            if "1.1" not in fw.markets.markets:
                self.add("live-removed-too-early", "live framework removed a market closed for 3500 s")
            Clock.now_ = Clock.now_ + datetime.timedelta(seconds=200)
            fw._process_market_books(events.MarketBookEvent([book("1.3", "OPEN", t0 + 3000), book("1.3", "CLOSED", t0 + 4000)]))
            fw._process_close_market(fw.handler_queue.get_nowait())
            if "1.1" in fw.markets.markets:
                self.add("live-not-removed", "live framework kept a market closed for 3700 s at the next close event")
            if "1.2" not in fw.markets.markets:
                self.add("live-removed-too-early", "live framework removed a market closed for 200 s")
            if "1.1" not in released:
                self.add("live-contexts-not-released", "strategy.remove_market not called for the removed market")
            # close, re-open by fresh data 50 min later, close again 15 min after that: the hour counts from the LAST close
            fw._process_market_books(events.MarketBookEvent([book("1.5", "OPEN", t0 + 5000), book("1.5", "CLOSED", t0 + 6000)]))
            fw._process_close_market(fw.handler_queue.get_nowait())
            Clock.now_ = Clock.now_ + datetime.timedelta(minutes=50)
            fw._process_market_books(events.MarketBookEvent([book("1.5", "OPEN", t0 + 7000)]))
            m15 = fw.markets.markets.get("1.5")
            if m15 is None or m15.closed:
                self.add("not-reopened", "live: market not re-opened by fresh data after its close")
            elif self.shared_flags(m15):
                self.add("cleared-flags-not-reset", "live: market re-opened with ONE register for both cleared flags (a client whose cleared orders "
                         "have been collected is never asked for its cleared-market summary)")
            Clock.now_ = Clock.now_ + datetime.timedelta(minutes=15)
            fw._process_market_books(events.MarketBookEvent([book("1.5", "CLOSED", t0 + 8000)]))
            fw._process_close_market(fw.handler_queue.get_nowait())
            if "1.5" not in fw.markets.markets:
                self.add("live-removed-too-early", "live framework removed a market at its second close although it had been closed again for 0 s (65 min after its FIRST close)")
            # a market whose FIRST update is already CLOSED (live): it is added, closed, and the strategy is told, once
            n_before = len([m for m in released])
            closed_calls = []
            st.process_closed_market = lambda market, market_book: closed_calls.append(market.market_id)
            logged = []
            fw.log_control = lambda e: logged.append(type(e).__name__)
            fw._process_market_books(events.MarketBookEvent([book("1.9", "CLOSED", t0 + 9000)]))
            if "1.9" not in fw.markets.markets:
                self.add("live-close-of-unseen-market-lost", "live: a market whose first update is CLOSED was not added to the framework")
            elif fw.handler_queue.qsize() != 1:
                self.add("live-close-of-unseen-market-lost", "live: %d close events queued for one closing update" % fw.handler_queue.qsize())
            else:
                fw._process_close_market(fw.handler_queue.get_nowait())
                m19 = fw.markets.markets["1.9"]
                if not m19.closed or closed_calls != ["1.9"] or logged.count("CloseMarketEvent") != 1:
                    self.add("live-close-of-unseen-market-lost", "live: close of a never-seen market: closed=%s callbacks=%s events=%s" % (
                        m19.closed, closed_calls, logged))
                # the same market reported CLOSED again: re-opened by the update, closed again by its close event (stamp renewed)
                d1 = m19.date_time_closed
                Clock.now_ = Clock.now_ + datetime.timedelta(seconds=30)
                fw._process_market_books(events.MarketBookEvent([book("1.9", "CLOSED", t0 + 10000)]))
                if m19.closed or m19.orders_cleared or m19.market_cleared:
                    self.add("not-reopened", "live: a repeated CLOSED update did not re-open the market first (closed=%s)" % m19.closed)
                if fw.handler_queue.qsize() == 1:
                    fw._process_close_market(fw.handler_queue.get_nowait())
                if not m19.closed or m19.date_time_closed == d1 or closed_calls != ["1.9", "1.9"]:
                    self.add("live-repeated-close", "live: second CLOSED update: closed=%s stamp renewed=%s callbacks=%s" % (
                        m19.closed, m19.date_time_closed != d1, closed_calls))
            # ---- recorder mode: raw stream data (dicts), a strategy subscribed to the raw stream and one with an empty filter
            raw_closed, raw_data = [], []
            rec = BaseStrategy(market_filter={"marketIds": ["1.77"]}, name="rec")
            rec.streams = [mock.Mock(stream_id=55)]
            rec.process_closed_market = lambda market, datum: raw_closed.append(("rec", market.market_id, datum.get("id") if isinstance(datum, dict) else None))
            rec.process_raw_data = lambda clk, pt, datum: raw_data.append(("rec", datum.get("id")))
            other = BaseStrategy(market_filter={"marketIds": ["1.88"]}, name="other")
            other.streams = [mock.Mock(stream_id=66)]
            other.process_closed_market = lambda market, datum: raw_closed.append(("other", market.market_id, None))
            other.process_raw_data = lambda clk, pt, datum: raw_data.append(("other", datum.get("id")))
            st.process_closed_market = lambda market, datum: raw_closed.append(("x", market.market_id, None))
            fw.strategies._strategies.extend([rec, other])
            logged.clear()
            md_open = {"status": "OPEN", "runners": [], "marketTime": "2030-01-01T12:00:00.000Z", "eventId": "1"}
            md_closed = dict(md_open, status="CLOSED")
            fw._process_raw_data(events.RawDataEvent((55, "c1", t0 + 11000, [{"id": "1.77", "marketDefinition": md_open}])))
            if "1.77" not in fw.markets.markets:
                self.add("recorder-market-not-added", "recorder mode: raw data of a new market did not add it to the framework")
            if fw.handler_queue.qsize() != 0:
                self.add("recorder-close-on-open", "recorder mode: an OPEN market definition queued a close event")
            fw._process_raw_data(events.RawDataEvent((55, "c2", t0 + 12000, [{"id": "1.77", "marketDefinition": md_closed}])))
            if fw.handler_queue.qsize() != 1:
                self.add("recorder-close-lost", "recorder mode: %d close events queued for one CLOSED market definition" % fw.handler_queue.qsize())
            else:
                fw._process_close_market(fw.handler_queue.get_nowait())
                m77 = fw.markets.markets.get("1.77")
                got = sorted(raw_closed)
                # the subscribed strategy and the empty-filter strategy are told once each, with the datum; the other one is not
                if m77 is None or not m77.closed or got != [("rec", "1.77", "1.77"), ("x", "1.77", None)] or logged.count("CloseMarketEvent") != 1:
                    self.add("recorder-close", "recorder mode: close of 1.77: closed=%s callbacks=%s close events logged=%d" % (
                        getattr(m77, "closed", None), got, logged.count("CloseMarketEvent")))
            # data arrives again for the closed market - a price-only update, no market definition: it is re-opened, cleared flags reset
            m77 = fw.markets.markets.get("1.77")
            if m77 is not None:
                m77.orders_cleared, m77.market_cleared = ["u"], ["u"]
            fw._process_raw_data(events.RawDataEvent((55, "c3", t0 + 13000, [{"id": "1.77", "rc": [{"id": 1, "ltp": 2.0}]}])))
            m77 = fw.markets.markets.get("1.77")
            if m77 is None or m77.closed:
                self.add("not-reopened", "recorder mode: market still closed after a price update arrived for it again")
            elif m77.orders_cleared or m77.market_cleared:
                self.add("cleared-flags-not-reset", "recorder mode: market re-opened with cleared flags %s %s" % (m77.orders_cleared, m77.market_cleared))
            if sorted(raw_data) != [("rec", "1.77"), ("rec", "1.77"), ("rec", "1.77")]:
                self.add("recorder-raw-data-dispatch", "recorder mode: raw data callbacks %s" % sorted(raw_data))
        finally:
            datetime.datetime = real
            for ex in (fw.simulated_execution, fw.betfair_execution, fw.betdaq_execution):
                ex.shutdown()

    @staticmethod
    def shared_flags(market):
        """the two per-client registers of a (re-)opened market are independent: a name entered in one is not in the other"""
        probe = "__verif_probe__"
        market.orders_cleared.append(probe)
        shared = probe in market.market_cleared
        market.orders_cleared.remove(probe)
        return shared

    def tags(self, run):
        t = set()
        if self.closes:
            t.add("close")
        if self.closes > 1:
            t.add("several-closes")
        if self.reopens:
            t.add("reopen-after-close")
        if len(self.sc["strategies"]) > 1:
            t.add("multi-strategy")
        return t


def make_oracle(sc):
    return Oracle(sc)


def directed():
    import directed as d
    T0 = d.T0
    # close of a market never seen open (known finding F12): first and only update is CLOSED
    ups = [d.update(T0, [d.runner(1, status="WINNER"), d.runner(2, status="LOSER")], status="CLOSED")]
    ups2 = [d.update(T0 + 100_000, d.two()), d.update(T0 + 101_000, d.two()),
            d.update(T0 + 105_000, [d.runner(1, status="WINNER"), d.runner(2, status="LOSER")], status="CLOSED")]
    return [d.scenario([d.market(101, ups), d.market(102, ups2)])]


def run(res, tier, seed, model_ok, search):
    res.rule = ("whole simulation runs with 1..3 markets closing in any order, repeated closes, close then re-open then close, 1..3 strategies with "
                "different subscriptions, 1..2 clients; plus one scripted live-framework run with a patched clock for the removal rule. "
                "non-trivial = a closing update was processed; distinct = scenario index")
    simcheck.run(res, "C20", tier, seed, model_ok, search, n_quick=300, n_thorough=8000, directed=directed())


def replay(payload):
    return simcheck.generic_replay("C20", payload)
