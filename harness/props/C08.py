"""C08 - settlement: simulated profit follows the exchange's rules (pure domain + closing runs in the simulation domain)."""
import random
from fractions import Fraction

import common
import simcheck
from common import frac, tok

META = {
    "level_text": ("Theorems (Lean 4): for a winning / losing runner without dead heat the profit is within 0.005 x matched size + 0.005 of the sum of "
                   "the per-fill payouts (stake x (price - 1) for a winning back, minus the stake for a losing one, mirrored for lays) - the code "
                   "settles on the 2dp average price and rounds the result; a back and a lay with identical fills have exactly opposite profit for "
                   "every result shape (round-half-even is odd); unmatched orders, removed runners and orders without a result settle at zero; "
                   "the dead-heat and each-way formulas are stated as equalities with the exchange formulas on the average price; the cleared-market "
                   "summary is round2 of the sum over the client's matched orders and commission is round2(max(profit x rate, 0)), never charged on "
                   "a net loss (C20.commission_*). Line markets: result equal to the struck line settles both sides as losers and fills at several "
                   "lines are settled on their average line - recorded known finding F8 with Lean witnesses. Each-way dead heats are excluded by the "
                   "property. Model tied to /repo by a pure-domain correspondence on real BetfairOrder objects (every result shape) and by the "
                   "closing updates of the simulation-domain runs (cleared-market events)."),
    "level_note": ("Trusted: Lean kernel + standard axioms; hand-written model (SimLoop.simProfit, marketCleared) validated by correspondence; "
                   "exact arithmetic, penny differences only at detected exact half-penny ties."),
    "trusted_base": ["the exchange's settlement rules as written in the oracle (per-fill payout, dead heat, each way, line markets)"],
    "assumptions": ["prices are >= 1; each-way dead heats are outside the property (logged TODO in the code)"],
}

PROJECTION = {"E": r"^(clearedMarket|clearedOrders|closeEvent)/", "O": ["id", "sm", "avg", "frags"]}
PRICES = [1.01, 1.5, 2.0, 2.02, 2.5, 3.0, 3.35, 4.1, 5.0, 7.4, 10.0, 21.0, 34.0, 100.0]


def gen_opts(rng):
    return {"p_close": 1.0, "p_removal": 0.3, "p_inplay": 0.3, "clients": rng.choice([1, 2]), "p_act": 0.8, "p_handicap": 0.2, "p_reopen": 0.1, "p_each_way": 0.25,
            "p_two_winners": 0.25}     # place markets paying two places: a close with exactly two winners is NOT a dead heat


def spec_profit(side, fills, result, n_dead=1, mtype="WIN", divisor=None, line=None, line_result=None):
    """the exchange's rules, per fill, in fractions; returns None when the property does not define the case"""
    tot = Fraction(0)
    for p, s in fills:
        if mtype == "EACH_WAY":
            if n_dead > 1:
                return None
            win_part = s * (p - 1)
            place_part = s * ((p - 1) / divisor)
            if result == "WINNER":
                x = win_part + place_part
            elif result == "PLACED":
                x = place_part - s
            elif result == "LOSER":
                x = -2 * s
            else:
                x = Fraction(0)
        elif line is not None:
            if line_result is None:
                return None
            if line_result == p:
                x = Fraction(0)      # stake returned
            elif (p > line_result):
                x = s                # back (over the line) wins at even money... (flumine's convention: BACK wins when price > result)
            else:
                x = -s
        elif result == "WINNER":
            x = (s / n_dead) * (p - 1) - s * Fraction(n_dead - 1, n_dead)
        elif result == "LOSER":
            x = -s
        else:
            x = Fraction(0)
        tot += x if side == "BACK" else -x
    return tot


def run_pure(res, tier, seed, model_ok, search):
    common.use_repo()
    from unittest import mock
    from flumine.order.trade import Trade
    from flumine.order import ordertype as ot
    from flumine import config
    rng = random.Random(seed)
    n = 5000 if tier == "quick" and not search else 100000
    reqs = []
    config.simulated = True
    try:
        for i in range(n):
            dy = i % 2 == 0
            side = rng.choice(["BACK", "LAY"])
            mtype = rng.choices(["WIN", "PLACE", "EACH_WAY", "LINE"], [6, 2, 2, 1.5])[0]
            nf = rng.choice([0, 1, 1, 2, 3])
            q = 4 if dy else 100
            fills = [(rng.choice([1.5, 2.0, 2.5, 3.0, 4.0, 5.0, 10.0] if dy else PRICES), rng.randrange(1, 40 * q) / q) for _ in range(nf)]
            line = None
            if mtype == "LINE":
                fills = [(rng.choice([0.5, 1.5, 2.5, 10.5]), s) for _, s in fills]
                if rng.random() < 0.7 and fills:
                    fills = [(fills[0][0], s) for _, s in fills]
            result = rng.choice(["WINNER", "LOSER", "REMOVED", "PLACED", None, "WINNER", "LOSER"])
            n_dead = rng.choice([None, 1, 1, 2, 3, 4]) if result == "WINNER" and mtype in ("WIN", "PLACE") else rng.choice([None, 1])
            divisor = rng.choice([4.0, 5.0, 2.0]) if mtype == "EACH_WAY" else rng.choice([None, 1])
            line_result = rng.choice([None, 0.5, 1.5, 2.0, 2.5, 3.0, 10.5, 11.0]) if mtype == "LINE" else None
            strategy = mock.Mock(name_hash="0123456789abc")
            trade = Trade("1.1", 1, 0, strategy)
            price = fills[0][0] if fills else 2.0
            otype = ot.LimitOrder(price=price, size=sum(s for _, s in fills) or 2.0,
                                  price_ladder_definition="LINE_RANGE" if mtype == "LINE" else "CLASSIC")
            order = trade.create_order(side, otype)
            order.client = mock.Mock(paper_trade=False)
            order._simulated = True
            for p, s in fills:
                order.simulated._update_matched([1000, p, s])
            order.runner_status = result
            order.market_type = {"LINE": "LINE", "EACH_WAY": "EACH_WAY"}.get(mtype, mtype)
            if divisor is not None:
                order.each_way_divisor = divisor
            order.number_of_dead_heat_winners = n_dead
            order.line_range_result = line_result
            try:
                profit = order.simulated.profit
            except Exception as e:  # noqa
                profit = "EXC:" + type(e).__name__
            sm, avg = frac(order.simulated.size_matched), frac(order.simulated.average_price_matched)
            line_txt = "profit %s L %s %s %s %s %s %s %s %s %s" % (
                side, "L" if mtype == "LINE" else "C", tok(price), tok(sm), tok(avg), result or "-", order.market_type,
                tok(getattr(order, "each_way_divisor", None)), "-" if n_dead is None else str(n_dead), tok(line_result))
            # ---- oracle (exchange rules on the individual fills)
            ffills = [(frac(p), frac(s)) for p, s in fills]
            spec = spec_profit(side, ffills, result, n_dead or 1, mtype, frac(divisor) if divisor else None,
                               line=True if mtype == "LINE" else None, line_result=frac(line_result))
            tag = "%s:%s:%s" % (mtype, result, "dh%d" % n_dead if n_dead and n_dead > 1 else "")
            res.distribution[tag] += 1
            if isinstance(profit, float) or isinstance(profit, int):
                if spec is not None:
                    slack = Fraction(5, 1000) * sm * (2 if mtype == "EACH_WAY" else 1) + Fraction(5, 1000) + Fraction(1, 10**9)
                    if abs(frac(profit) - spec) > slack:
                        sig = "profit-vs-exchange-rules"
                        if mtype == "LINE":
                            same = len({p for p, _ in ffills}) <= 1
                            sig = "line-result-equals-line" if (same and ffills and frac(line_result) == ffills[0][0]) else \
                                ("line-fills-at-different-lines" if not same else "line-market-profit")
                        res.violate(sig, "profit %s but the exchange pays %s (%s %s fills %s result %s dead-heat %s divisor %s line result %s)" % (
                            profit, float(spec), side, mtype, fills, result, n_dead, divisor, line_result), {"line": line_txt, "fills": fills})
                # back and lay with identical fills are exactly opposite
                if side == "BACK":
                    order.side = "LAY"
                    opp = order.simulated.profit
                    order.side = "BACK"
                    if frac(opp) != -frac(profit):
                        res.violate("back-lay-not-opposite", "BACK profit %s, LAY profit %s for identical fills %s (%s %s)" % (profit, opp, fills, mtype, result),
                                    {"line": line_txt})
            if sm > 0 and result in ("WINNER", "LOSER", "PLACED"):
                res.nontrivial.add(line_txt)
            tie = False
            if sm and result in ("WINNER", "PLACED", "LOSER"):
                from simworld import profit_preimage
                pre = profit_preimage(order)
                tie = pre is not None and common.is_tie2(pre)
            a_ = sum(p * s for p, s in ffills)
            tie = tie or (sm and common.is_tie2(a_ / sum(s for _, s in ffills)))
            reqs.append((line_txt, profit, tie))
    finally:
        config.simulated = False
    res.evaluations += len(reqs)
    if model_ok:
        answers = common.run_driver([r[0] for r in reqs])
        for (line_txt, profit, tie), ans in zip(reqs, answers):
            if isinstance(profit, str) or ans == "bad-op":
                res.disagree({"request": line_txt, "model": ans, "implementation": str(profit)})
                continue
            m = Fraction(ans)
            if m != frac(profit):
                if tie and abs(m - frac(profit)) <= Fraction(1, 100):
                    res.tie_truncated += 1
                else:
                    res.disagree({"request": line_txt, "model": ans, "implementation": str(profit)})
    for r in reqs[:2000:499]:
        res.sample({"request": r[0], "implementation": str(r[1])})


class Oracle(simcheck.BaseOracle):
    """simulation domain: the cleared-market summary of every client = round2(sum of its matched orders' profit), commission
    = round2(max(profit x rate, 0)), bet count = number of matched orders"""

    def __init__(self, sc):
        super().__init__(sc)
        self.closes = 0
        self.client_at = {}   # id(order) -> client of the accepted placement (a later refused request may overwrite order.client, see C02)

    def _note_new(self, run, market):
        # replacement orders enter the blotter inside the execution of a replace package (no place action):
        # their client is the one they carry when first seen there, before any later request can overwrite it
        if market is not None:
            for o in market.blotter:
                if id(o) not in self.client_at:
                    # (an order that was not placed by the script is a replacement created by the framework (simworld notes which order it replaces): it
                    # belongs to the client THAT order was placed with, whatever its own client attribute says)
                    before = run.replaced.get(id(o))
                    if before is not None and id(before) not in self.client_at:
                        before = None
                    if before is None:
                        self.client_at[id(o)] = o.client
                    elif o.client is not self.client_at[id(before)] and before.client is not self.client_at[id(before)]:
                        # known finding F17 at work: a refused placement through another client's transaction had overwritten the
                        # replaced order's client attribute; the replace then went through THAT client and the replacement is filed
                        # under it - the views and the cleared summaries follow the overwritten attribute from here on
                        self.client_at[id(o)] = o.client
                        self.add("replacement-follows-overwritten-client", "market %s: order %s replaces order %s, which was placed with client %d "
                                 "and whose client attribute a refused placement had overwritten: the replacement belongs to client %d" % (
                                     market.market_id, getattr(o, "_vidx", "?"), getattr(before, "_vidx", "?"),
                                     run.clients.index(self.client_at[id(before)]), run.clients.index(o.client)))
                    else:
                        self.client_at[id(o)] = self.client_at[id(before)]

    def in_callback(self, run, strategy, market, market_book):
        self._note_new(run, market)

    def before_action(self, run, sidx, market, action, order, state):
        self._note_new(run, market)

    def on_action(self, run, sidx, market, a, result, order):
        if a[0] == "place" and result == "True" and order is not None:
            self.client_at[id(order)] = order.client

    def in_closed(self, run, strategy, market, market_book):
        # the closed-market callback is where a strategy adds up its result: every order already carries the runner's result
        # and the settlement terms of the book it is handed
        self.check_orders(market, market_book, "inside process_closed_market")

    def after_update(self, run, mb):
        if mb.status != "CLOSED":
            return
        market = run.framework.markets.markets.get(mb.market_id)
        if market is None:
            return
        self.closes += 1
        self.check_orders(market, mb, "after the closing update")
        self.check_summaries(run, market, mb)

    def check_orders(self, market, mb, where):
        # independent settlement of every order from the closing book itself (result of ITS runner line) and its fills
        status_of = {(r.selection_id, r.handicap): r.status for r in mb.runners}
        n_win = len([r for r in mb.runners if r.status == "WINNER"])
        md = mb.market_definition
        for o in market.blotter:
            k = (o.selection_id, o.handicap)
            if k not in status_of or not o.simulated:
                continue
            fills = [(frac(m[1]), frac(m[2])) for m in o.simulated.matched]
            if o.order_type.ORDER_TYPE.name == "MARKET_ON_CLOSE" and o.side == "LAY" and o.size_matched:
                # the size of a starting-price lay IS liability / (price - 1); a non-runner scales the liability (C09) and the
                # size with it, while a `matched` entry written by a force-matching client keeps the size before the scaling
                fills = []
            if not fills and o.size_matched:
                # starting-price fill: single fill at the average price
                fills = [(frac(o.simulated.average_price_matched), frac(o.simulated.size_matched))]
            if mb.number_of_winners == 0:
                n_dead = 1
            else:
                n_dead = n_win if n_win > mb.number_of_winners else 1
            mtype = md.market_type
            if mtype == "EACH_WAY" and n_dead > 1:
                continue
            spec = spec_profit(o.side, fills, status_of[k], n_dead, "EACH_WAY" if mtype == "EACH_WAY" else "WIN",
                               frac(md.each_way_divisor) if md.each_way_divisor else None)
            if spec is None:
                continue
            sm = sum(sz for _, sz in fills)
            slack = Fraction(5, 1000) * sm * (2 if mtype == "EACH_WAY" else 1) + Fraction(5, 1000) + Fraction(1, 10**9)
            if abs(frac(o.simulated.profit) - spec) > slack:
                self.add("order-profit-vs-closing-book", "%s: order %d (%s sel %s hc %s) profit %s, closing book says %s and the fills %s pay %s" % (
                    where, o._vidx, o.side, o.selection_id, o.handicap, o.simulated.profit, status_of[k], [(float(a), float(b)) for a, b in fills], float(spec)))

    def check_summaries(self, run, market, mb):
        for ci, cl in enumerate(run.clients):
            orders = [o for o in market.blotter if self.client_at.get(id(o), o.client) is cl and o.size_matched > 0]
            c = market.cleared(cl)
            exp = round(sum(o.simulated.profit for o in orders), 2)
            if abs(c["profit"] - exp) > 1e-9 or c["betCount"] != len(orders):
                self.add("cleared-summary", "market %s client %d: summary profit %s betCount %s, orders give %s / %d" % (
                    mb.market_id, ci, c["profit"], c["betCount"], exp, len(orders)))
            rate = frac(cl.commission_base)
            pre = frac(c["profit"]) * rate
            expc = max(common.round2(pre), Fraction(0))
            if abs(frac(c["commission"]) - expc) > (Fraction(1, 100) if common.is_tie2(pre) else Fraction(1, 10**9)):
                self.add("commission", "market %s client %d: commission %s for profit %s at rate %s" % (mb.market_id, ci, c["commission"], c["profit"], rate))
            if c["profit"] < 0 and c["commission"] != 0:
                self.add("commission-on-loss", "market %s client %d: commission %s on a net loss %s" % (mb.market_id, ci, c["commission"], c["profit"]))
            for o in orders:
                if o.runner_status == "REMOVED" and o.simulated.profit != 0:
                    self.add("removed-runner-profit", "order %d on a removed runner settles at %s" % (o._vidx, o.simulated.profit))

    def tags(self, run):
        t = {"closed-market"} if self.closes else set()
        for m in run.framework.markets:
            for o in m.blotter:
                if o.size_matched and o.runner_status:
                    t.add("settled:%s:%s" % ("EW" if o.market_type == "EACH_WAY" else "std", o.runner_status))
                    if (o.number_of_dead_heat_winners or 1) > 1:
                        t.add("dead-heat")
        return t


def make_oracle(sc):
    return Oracle(sc)


def run(res, tier, seed, model_ok, search):
    res.rule = ("pure: real BetfairOrder objects with injected fills (0..3 fills, prices incl. reduced ones, both sides) and every result shape "
                "(winner / loser / placed / removed / none, 1..4 dead-heating winners, each-way divisors, line results above / below / equal to the "
                "struck line); sim: runs ending in CLOSED books, 1..2 clients, cleared-market summaries. non-trivial = matched order with a result; "
                "distinct = distinct request line / scenario index")
    run_pure(res, tier, seed, model_ok, search)
    simcheck.run(res, "C08", tier, seed, model_ok, search, n_quick=200, n_thorough=6000)


def replay(payload):
    rp = payload.get("replay") or {}
    if "scenario" in rp:
        return simcheck.generic_replay("C08", payload)
    print("model:", common.run_driver([rp["line"]])[0] if "line" in rp else "-", "| failing input:", rp)
    return 1
