"""Decision domain of C01: the real StrategyExposure control on a real Blotter of real orders (the positions of C16's
generator) against the model's `strategyExposure` (driver command `sexp`), for every order kind the simulation generator
does not reach: line-range orders, unknown ladders, zero and missing sizes, limits of None / 0 / small / large, PLACE and
REPLACE (with the exclusion it implies), CANCEL / UPDATE (never limited), strategy.validate_order refusing.

Oracle (independent of the model, exact fractions): an order the control lets through satisfies the three limits with
the order counted in full (own worst case; selection worst case; market worst case over every admissible winner set)."""
import random
from fractions import Fraction

import common
from common import frac, tok, tokb

ERRS = [("validate_order", "validate_order"), ("Unknown priceLadderDefinition", "unknown_ladder"), ("Order exposure", "order"),
        ("selection exposure", "selection"), ("market exposure", "market")]


def run(res, tier, seed, model_ok, search):
    common.use_repo()
    from unittest import mock
    from flumine.markets.blotter import Blotter
    from flumine.order.trade import Trade
    from flumine.order.order import BetfairOrder, OrderStatus, COMPLETE_STATUS
    from flumine.order import ordertype as ot
    from flumine.order.orderpackage import OrderPackageType
    from flumine.strategy.strategy import BaseStrategy
    from flumine.controls.tradingcontrols import StrategyExposure
    from flumine.exceptions import ControlError
    from flumine import config
    from betfairlightweight.resources.bettingresources import LineRangeInfo
    from props import C16

    mods = (Blotter, Trade, BetfairOrder, ot, OrderStatus, BaseStrategy, config, mock, LineRangeInfo, COMPLETE_STATUS)
    rng = random.Random(seed * 31 + 5)
    n = 3000 if tier == "quick" and not search else 40000
    lines, impls, payloads = [], [], []
    for case in range(n):
        dyadic = case % 2 == 0
        nsel = rng.randint(1, 4)
        specs = [C16.gen_order(rng, i + 1, nsel, dyadic) for i in range(rng.choice([0, 1, 2, 2, 3, 4, 6]))]
        stack = case % 7 == 3
        if stack:
            # a stack of starting-price orders of one side on one selection (several acknowledged MARKET_ON_CLOSE / LIMIT_ON_CLOSE bets
            # and one more): their liabilities add up, the decision depends on the SUM
            stack_side = rng.choice(["BACK", "LAY"])
            specs = [C16.gen_order(rng, i + 1, nsel, dyadic) for i in range(rng.choice([2, 3, 4]))]
            for sp in specs:
                sp.update(kind=rng.choice(["LOC", "MOC"]), side=stack_side, sel=0, line=False, status="EXECUTABLE", matched=0.0, cancelled=0.0,
                          liability=rng.choice([2.0, 4.0, 6.0, 8.0]))
        blotter, strategy, byid = C16.build(mods, specs, True)
        for sp in specs:
            blotter[byid[sp["id"]].id] = byid[sp["id"]]
        strategy.max_order_exposure = rng.choice([None, 0, 2, 10, 50, 1000])
        strategy.max_selection_exposure = rng.choice([None, 0, 5, 20, 100, 1000])
        strategy.max_market_exposure = rng.choice([None, None, 0, 30, 100, 1000])
        kind = rng.choices(["PLACE", "REPLACE", "CANCEL", "UPDATE"], [6, 3, 0.5, 0.5])[0]
        if stack:
            kind = "PLACE"
            strategy.max_order_exposure = rng.choice([None, 10, 50])
            strategy.max_selection_exposure = rng.choice([5, 10, 15, 20])
        candidates = [sp for sp in specs if sp["kind"] == "L"] if kind == "REPLACE" else []
        ladder = "C"
        if kind == "REPLACE" and candidates:
            osp = rng.choice(candidates)
            order = byid[osp["id"]]
            ladder = "L" if osp["line"] else "C"
        else:
            if kind == "REPLACE":
                kind = "PLACE"
            osp = C16.gen_order(rng, 99, nsel, dyadic)
            if stack:
                osp.update(kind=rng.choice(["LOC", "MOC"]), side=stack_side, sel=0, line=False, liability=rng.choice([2.0, 4.0, 6.0]))
            osp["status"] = None
            osp["matched"], osp["cancelled"] = 0.0, 0.0
            _, _, nb = C16.build(mods, [osp], True)
            order = nb[99]
            order.trade.strategy = strategy
            ladder = "L" if osp["line"] else "C"
            if osp["kind"] == "L" and rng.random() < 0.06:
                order.order_type.price_ladder_definition = "SOMETHING_ELSE"
                ladder = "U"
        vok = rng.random() < 0.92
        def validate_order(rc, o, vok=vok):
            if not vok:
                o.violation_msg = "strategy.validate_order failed: scripted refusal"      # as BaseStrategy.validate_order does
            return vok
        strategy.validate_order = validate_order
        runners_with = {sp["sel"] for sp in specs} | {osp["sel"]}
        active = max(len(runners_with), rng.randint(1, 6)) if rng.random() < 0.9 else rng.randint(0, 5)
        winners = rng.randint(1, max(1, min(3, active))) if rng.random() < 0.9 else rng.randint(0, 4)
        market = mock.Mock(blotter=blotter, market_book=mock.Mock(number_of_active_runners=active, number_of_winners=winners))
        fw = mock.Mock()
        fw.markets.markets = {order.market_id: market}
        control = StrategyExposure(fw)
        last_msg = None
        try:
            control._validate(order, OrderPackageType[kind])
            impl = "OK"
        except ControlError as e:
            msg = order.violation_msg or str(e)
            last_msg = msg
            impl = "ERR " + next((code for frag, code in ERRS if frag in (msg or "")), "?" + (msg or "")[:40])
        except Exception as e:  # noqa
            impl = "EXC:" + type(e).__name__
        toks = [C16.view_tok(byid[sp["id"]], sp) for sp in specs]
        otok = ",".join(toks) if toks else "."
        # (the exposure view asks `price_ladder_definition == "LINE_RANGE"`: an order whose definition was overwritten with an unknown
        # one is valued as a classic order there, whatever it was built as)
        ntok = C16.view_tok(order, dict(osp, line=osp["line"] and ladder != "U")).rsplit(":", 1)[0] + ":" + ladder
        line = "sexp %s %s %s %s %d %d %s %s %s" % (tok(strategy.max_order_exposure), tok(strategy.max_selection_exposure),
                                                   tok(strategy.max_market_exposure), otok, active, winners, ntok, kind, tokb(vok))
        # exact half-cent ties in what the exposure functions round (per selection: matched if-win / if-lose, the negative parts of the open
        # orders on either side): where there is one, the float code and the exact model may round a figure to different cents (C16, 8.7)
        views_all = [C16.raw_view(byid[sp["id"]], sp) for sp in specs]
        tie_all = 0
        for r_ in {v["sel"] for v in views_all}:
            pp = C16.exact_parts([v for v in views_all if v["sel"] == r_])
            tie_all += sum(common.is_tie2(x) for x in (pp[0], pp[1], sum((t[0] for t in pp[2] if t[0] < 0), Fraction(0)),
                                                         sum((t[1] for t in pp[2] if t[1] < 0), Fraction(0))))
        lines.append(line); impls.append(impl); payloads.append({"case": case, "seed": seed, "domain": "decision", "line": line, "message": last_msg,
                                                                 "ties": tie_all})
        res.evaluations += 1
        res.nontrivial.add(line)
        res.distribution["decision:%s:%s%s" % (kind, impl.split(" ")[-1] if impl != "OK" else "OK", ":line" if ladder == "L" else "")] += 1
        # ---- oracle: what is let through is within the limits (own exposure; the exact selection / market worst cases are C16's)
        if impl == "OK" and kind in ("PLACE", "REPLACE") and ladder != "U":
            size = frac(osp["size"]) if osp["kind"] == "L" else None
            if osp["kind"] == "L":
                own = size if (order.side == "BACK" or ladder == "L") else (frac(order.order_type.price) - 1) * size
            else:
                own = frac(order.order_type.liability)
            mo = strategy.max_order_exposure
            if mo is not None and own > frac(mo) + Fraction(1, 10**9):
                res.violate("order-limit-breached", "an order risking %s was let through with max_order_exposure %s (%s)" % (
                    float(own), mo, line[:300]), payloads[-1])
            ms_ = strategy.max_selection_exposure
            if ms_ is not None:
                # the selection limit as the control reckons it: the worst case of the selection's other orders (the replaced order
                # excluded) on the side this order loses on, plus this order in full
                views = [C16.raw_view(byid[sp["id"]], sp) for sp in specs if sp["sel"] == osp["sel"] and not (kind == "REPLACE" and sp is osp)]
                ww, wl = C16.worst(views) if views else (Fraction(0), Fraction(0))
                cur = -(wl if order.side == "BACK" else ww)
                if cur + own > frac(ms_) + Fraction(3, 100):
                    res.violate("replace-accepted-over-the-selection-limit" if kind == "REPLACE" else "selection-limit-breached",
                                "a %s risking %s was let through on top of %s already at risk on the selection, max_selection_exposure %s (%s)" % (
                                    kind, float(own), float(cur), ms_, line[:300]), payloads[-1])
            if kind == "PLACE" and not vok:
                res.violate("validate-order-ignored", "strategy.validate_order refused the order and the control let it through (%s)" % line[:300],
                            payloads[-1])
    if model_ok and lines:
        for line, impl, ans, pl in zip(lines, impls, common.run_driver(lines), payloads):
            if ans != impl:
                # an exposure that equals its limit exactly: the control adds an unrounded float product to rounded figures and compares
                # with `>` (see simworld.tie_explains); witness: its own message shows a potential that is the limit to the penny
                import re
                m = re.search(r"exposure \((-?[0-9.]+)\) is greater than strategy\.max_\w+ \((-?[0-9.]+)\)", pl.get("message") or "")
                if ans == "OK" and m and abs(float(m.group(1)) - float(m.group(2))) < 0.005:
                    res.tie_truncated += 1
                    continue
                # a figure of the blotter sits exactly on a half cent: the potential the control reports may be a cent per such figure above
                # the exact one
                if ans == "OK" and m and pl.get("ties") and 0 < float(m.group(1)) - float(m.group(2)) <= pl["ties"] / 100 + 1e-9:
                    res.tie_truncated += 1
                    continue
                res.disagree({"request": line[:1500], "model": ans, "implementation": impl, "case": pl})


def replay(payload):
    print(payload.get("replay", {}).get("line"))
    return 1
