"""Betdaq order class (C03): real BetdaqOrder request guards, real BetdaqExecution handlers (place / cancel / update with
reports in any order, orders the exchange does not report, failed calls) and the real order-stream mapping
process_betdaq_current_order, on random operation sequences over 1-3 orders; one model line (`bdq ...`) per case.

The exchange is a double: the three API calls of BetdaqExecution (`place`, `cancel`, `update`) are replaced on the instance
by functions that return the crafted reports (or raise BetdaqError); everything else is the real code."""
import random
from unittest import mock

import common

STATUS_TOK = {"Unmatched": "U", "Suspended": "S", "Matched": "M", "Cancelled": "C", "Settled": "T", "Void": "V", "Other": "O"}
LEGAL = {
    (None, "PENDING"), ("PENDING", "EXECUTABLE"), ("PENDING", "EXECUTION_COMPLETE"),
    ("EXECUTABLE", "CANCELLING"), ("EXECUTABLE", "UPDATING"), ("EXECUTABLE", "EXECUTION_COMPLETE"),
    ("CANCELLING", "EXECUTABLE"), ("CANCELLING", "EXECUTION_COMPLETE"),
    ("UPDATING", "EXECUTABLE"), ("UPDATING", "EXECUTION_COMPLETE"),
    ("EXECUTION_COMPLETE", "EXECUTION_COMPLETE"),
}
ERR = [("size_reduction", "size-reduction"), ("does not currently have a betId", "no-bet-id"), ("Current status", "status"),
       ("Only LIMIT", "only-limit")]


def canon(o):
    return ":".join([str(o._mid), o.status.name if o.status else "-", "T" if o.complete else "F", str(o.bet_id) if o.bet_id else "-",
                     "+".join(x.name for x in o.status_log) or ".", "T" if o.update_data else "F"])


def snapshot(o):
    return (o.status, tuple(o.status_log), o.complete, o.bet_id, dict(o.update_data))


def one_case(res, rng, case, seed):
    common.use_repo()
    from betdaq import BetdaqError
    from flumine import clients, BaseStrategy
    from flumine.clients import ExchangeType
    from flumine.exceptions import OrderUpdateError
    from flumine.execution.betdaqexecution import BetdaqExecution
    from flumine.order import ordertype as ot
    from flumine.order.orderpackage import BetdaqOrderPackage, OrderPackageType
    from flumine.order.process import process_betdaq_current_order, process_betdaq_current_orders
    from flumine.markets.markets import Markets
    from flumine.markets.market import Market
    from flumine.order.trade import Trade
    payload = {"case": case, "seed": seed, "domain": "betdaq"}
    fw = mock.Mock()
    ex = BetdaqExecution(fw)
    client = clients.BetdaqClient(mock.Mock(lightweight=False), username="u")
    client.execution = mock.Mock(EXCHANGE=ExchangeType.BETDAQ)
    st = BaseStrategy(market_filter={}, name="bdq")
    # the orders live in the blotter of a real market: the order-stream wrapper finds them there by customer reference
    markets = Markets()
    book = mock.Mock(publish_time=123, bet_delay=0, status="OPEN", runners=[])
    book.market_id = "1.900"
    market = Market(fw, "1.900", book)
    markets.add_market("1.900", market)
    other = Market(fw, "1.901", book)
    markets.add_market("1.901", other)
    orders, ops, outs = [], [], []
    due = {}          # id(order) -> kind of the request whose response is still due (the handlers only ever see such orders)
    next_bet = [700]
    done = set()

    def check(o, where):
        names = [x.name for x in o.status_log]
        for a, b in zip([None] + names[:-1], names):
            if (a, b) not in LEGAL:
                res.violate("illegal-transition:%s->%s" % (a, b), "betdaq order %d %s: status log %s" % (o._mid, where, names), payload)
        if id(o) in done and not o.complete:
            res.violate("revived-after-complete", "betdaq order %d %s: live again after it was complete (log %s)" % (o._mid, where, names), payload)
        if o.complete:
            done.add(id(o))

    def new_order():
        lim = rng.random() < 0.9
        trade = Trade("1.900", 1 + len(orders), 0, st)
        o = trade.create_betdaq_order("BACK", ot.BetdaqLimitOrder(2.0, 2.0, 1, 0, 0))
        if not lim:
            o.order_type = ot.MarketOnCloseOrder(liability=5.0)      # any order type that is not LIMIT
        o._mid = len(orders)
        o.client = client
        o.place(123, None, False)
        orders.append(o)
        market.blotter[o.id] = o
        due[id(o)] = "place"
        ops.append("N:%d:%s" % (o._mid, "T" if lim else "F"))

    def answers(name, value=None, fail=False):
        # a plain function (the handlers log trading_function.__name__)
        def place(order_package):
            if fail:
                raise BetdaqError("injected")
            return value
        place.__name__ = name
        return place

    def package(os_, kind):
        return BetdaqOrderPackage(client, "1.900", list(os_), kind, bet_delay=0)

    try:
        new_order()
        for _ in range(rng.randint(4, 16)):
            # state-directed choice: answer what is outstanding, aim most requests at orders that can take them
            n_ready = sum(1 for x in orders if x.bet_id and x.status is not None and x.status.name == "EXECUTABLE" and x.order_type.ORDER_TYPE.name == "LIMIT")
            weights = {"new": 1.0 if len(orders) < 3 else 0.0, "cancel": 1.5, "update": 1.5, "stream": 2.0, "cancel_all": 3.0 if n_ready >= 2 else 0.7,
                       "place_h": 4.0 if any(v == "place" for v in due.values()) else 0.0,
                       "cancel_h": 3.0 if any(v == "cancel" for v in due.values()) else 0.0,
                       "update_h": 3.0 if any(v == "update" for v in due.values()) else 0.0}
            ev = rng.choices(list(weights), list(weights.values()))[0]
            if ev == "cancel_all":
                # a strategy pulling all its resting orders at once: several cancels in flight, one package
                for o in orders:
                    if o.bet_id and o.status is not None and o.status.name == "EXECUTABLE" and o.order_type.ORDER_TYPE.name == "LIMIT":
                        o.cancel()
                        due[id(o)] = "cancel"
                        ops.append("CQ:%d:F" % o._mid)
                        outs.append("ok")
                ev = "cancel_h" if rng.random() < 0.7 else "none"
            if ev == "new" and len(orders) < 3:
                new_order()
            elif ev in ("cancel", "update"):
                ready = [x for x in orders if x.bet_id and x.status is not None and x.status.name == "EXECUTABLE"]
                o = rng.choice(ready) if ready and rng.random() < 0.7 else rng.choice(orders)
                before = snapshot(o)
                sr = ev == "cancel" and rng.random() < 0.15
                expect_ok = (not sr) and o.bet_id is not None and o.order_type.ORDER_TYPE.name == "LIMIT" and o.status is not None \
                    and o.status.name == "EXECUTABLE"
                try:
                    if ev == "cancel":
                        o.cancel(1.0 if sr else None)
                    else:
                        o.update(size_delta=rng.choice([0.0, 1.0]), new_price=rng.choice([None, 3.0]))
                    r = "ok"
                except OrderUpdateError as e:
                    r = next((code for frag, code in ERR if frag in str(e)), "error:" + str(e)[:40])
                    if snapshot(o) != before:
                        res.violate("rejected-request-changed-the-order", "betdaq order %d: a rejected %s (%s) changed %s -> %s" % (
                            o._mid, ev, r, before, snapshot(o)), payload)
                if (r == "ok") != expect_ok:
                    res.violate("request-guard", "betdaq order %d: %s %s with status %s bet id %s type %s" % (
                        o._mid, ev, "accepted" if r == "ok" else "rejected (" + r + ")", before[0], before[3], o.order_type.ORDER_TYPE.name), payload)
                if r == "ok":
                    due[id(o)] = ev
                if r == "ok" and o.status.name != ("CANCELLING" if ev == "cancel" else "UPDATING"):
                    res.violate("request-not-in-flight", "betdaq order %d: accepted %s left status %s" % (o._mid, ev, o.status.name), payload)
                ops.append(("CQ:%d:%s" % (o._mid, "T" if sr else "F")) if ev == "cancel" else "UQ:%d" % o._mid)
                outs.append(r)
            elif ev == "place_h" and any(due.get(id(o)) == "place" for o in orders):
                cands = [o for o in orders if due.get(id(o)) == "place"]
                sub = rng.sample(cands, rng.randint(1, len(cands)))
                for o in sub:
                    due.pop(id(o), None)
                if rng.random() < 0.2:
                    ex.place = answers("place", fail=True)
                    for o in sub:
                        ops.append("PF:%d" % o._mid)
                else:
                    reports = []
                    for o in sub:
                        if rng.random() < 0.85:       # (a report may be missing: the order is then left as it is)
                            rc = rng.choice([0, 0, 0, 5])
                            oid = None
                            if rng.random() < 0.9:
                                next_bet[0] += 1
                                oid = next_bet[0]
                            reports.append({"customer_reference": int(o.id), "order_id": oid, "return_code": rc, "status": "Unmatched"})
                            ops.append("PR:%d:%d:%s" % (o._mid, rc, oid if oid else "-"))
                    rng.shuffle(reports)
                    if not reports:
                        # an empty response is falsy: the handler takes the failure branch and closes every order of the package
                        for o in sub:
                            ops.append("PF:%d" % o._mid)
                    ex.place = answers("place", reports)
                ex.execute_place(package(sub, OrderPackageType.PLACE), None)
            elif ev == "cancel_h":
                withbet = [o for o in orders if o.bet_id and due.get(id(o)) == "cancel"]
                for o in withbet:
                    due.pop(id(o), None)
                if withbet:
                    sub = withbet
                if withbet:
                    last_reported = []
                    if rng.random() < 0.2:
                        ex.cancel = answers("cancel", fail=True)
                        for o in sub:
                            ops.append("CN:%d" % o._mid)
                    else:
                        reported = [o for o in sub if rng.random() < 0.7]
                        if len(sub) >= 2 and rng.random() < 0.6:
                            # the response names some orders of the package and not the others (the handler's "not returned" loop)
                            k = rng.randint(1, len(sub) - 1)
                            reported = rng.sample(sub, k)
                        if reported and len(reported) < len(sub):
                            res.distribution["betdaq-cancel-response-names-part-of-the-package"] += 1
                        reports = [{"order_id": o.bet_id} for o in reported]
                        last_reported = [id(o) for o in reported]
                        rng.shuffle(reports)
                        # the handler first completes the reported ones (in report order), then resets the others
                        for r_ in reports:
                            ops.append("CR:%d" % next(o._mid for o in sub if o.bet_id == r_["order_id"]))
                        for o in sub:
                            if o not in reported:
                                ops.append("CN:%d" % o._mid)
                        ex.cancel = answers("cancel", reports)      # (an empty list is falsy: failure branch, all back to executable)
                    was = {id(o): o.complete for o in sub}
                    ex.execute_cancel(package(sub, OrderPackageType.CANCEL), None)
                    for o in sub:
                        if o.complete and not was[id(o)] and id(o) not in last_reported:
                            res.violate("complete-while-resting-at-the-exchange", "betdaq order %d: its cancel was not confirmed by the exchange "
                                        "(no report names it / the call failed) and it was marked complete (log %s)" % (
                                            o._mid, [x.name for x in o.status_log]), payload)
            elif ev == "update_h":
                withbet = [o for o in orders if o.bet_id and due.get(id(o)) == "update"]
                for o in withbet:
                    due.pop(id(o), None)
                if withbet:
                    sub = withbet
                    # an update the order stream has already shown as applied (new sequence number) was accepted: its response
                    # is a success (or never arrives)
                    applied = any(o.status.name != "UPDATING" for o in sub)
                    if rng.random() < 0.2 and not applied:
                        ex.update = answers("update", fail=True)
                        for o in sub:
                            ops.append("UF:%d" % o._mid)
                    else:
                        reports = []
                        for o in sub:
                            if rng.random() < 0.85:
                                rc = 0 if o.status.name != "UPDATING" else rng.choice([0, 0, 7])
                                reports.append({"order_id": o.bet_id, "return_code": rc})
                        rng.shuffle(reports)
                        if reports:
                            for r_ in reports:
                                ops.append("UR:%d:%d" % (next(o._mid for o in sub if o.bet_id == r_["order_id"]), r_["return_code"]))
                        else:
                            if applied:
                                reports = [{"order_id": o.bet_id, "return_code": 0} for o in sub]
                                for o in sub:
                                    ops.append("UR:%d:0" % o._mid)
                            else:
                                for o in sub:
                                    ops.append("UF:%d" % o._mid)      # empty response: failure branch
                        ex.update = answers("update", reports)
                    ex.execute_update(package(sub, OrderPackageType.UPDATE), None)
            elif ev == "stream":
                cands = [o for o in orders if o.current_order is not None]
                if cands:
                    o = rng.choice(cands)
                    stname = rng.choice(["Unmatched", "Unmatched", "Suspended", "Matched", "Cancelled", "Settled", "Void", "Other"])
                    seq = rng.choice([None, 1, 2, 3])
                    was_complete = o.complete
                    co = {"status": stname, "sequence_number": seq, "price": 2.5, "order_id": o.bet_id, "customer_reference": int(o.id)}
                    if rng.random() < 0.5:
                        process_betdaq_current_order(o, co)
                    else:
                        # through the wrapper of the order stream: lookup by reference over all markets (plus a reference nobody knows)
                        # a second one FOLLOWS the known order's update in the same batch: a bet typed in on the website (reference 0) or a
                        # bet of another instance on the account - it belongs to nobody here and must be dropped, not handed to the order
                        # the previous update of the batch resolved to
                        foreign = {"status": rng.choice(["Matched", "Settled", "Cancelled", "Unmatched"]), "sequence_number": 11, "price": 3.0,
                                   "order_id": 8888, "customer_reference": rng.choice([0, 54321])}
                        process_betdaq_current_orders(markets, None, mock.Mock(event=[{"status": "Matched", "sequence_number": 9, "price": 2.0,
                                                                                 "order_id": 1, "customer_reference": 12345}, co, foreign]), None, None)
                        held = o.current_order
                        if isinstance(held, dict) and held.get("customer_reference") != int(o.id):
                            res.violate("update-misattributed", "betdaq order %d (reference %s) holds the order-stream update of reference %r (bet %r): "
                                        "an update whose reference matches no local order was attributed to it" % (
                                            o._mid, o.id, held.get("customer_reference"), held.get("order_id")), payload)
                        if not o.complete and o not in list(market.blotter.live_orders):
                            res.violate("live-order-not-in-live-list", "betdaq order %d: not complete (status %s, request %s in flight) after the stream "
                                        "update %s but no longer in the blotter's live list" % (
                                            o._mid, o.status.name if o.status else None, due.get(id(o)), stname), payload)
                        if o.complete and o in list(market.blotter.live_orders):
                            res.violate("complete-order-in-live-list", "betdaq order %d: complete after the stream update but still in the "
                                        "blotter's live list" % o._mid, payload)
                    if stname in ("Unmatched", "Suspended") and o.complete and not was_complete:
                        res.violate("complete-while-resting-at-the-exchange", "betdaq order %d: the order stream reports it %s and it was "
                                    "marked complete (log %s)" % (o._mid, stname, [x.name for x in o.status_log]), payload)
                    if stname in ("Matched", "Cancelled", "Settled", "Void") and o.status is not None and o.status.name == "EXECUTABLE":
                        res.violate("finished-bet-left-live", "betdaq order %d: the order stream reports it %s and it is still EXECUTABLE" % (
                            o._mid, stname), payload)
                    ops.append("SN:%d:%s:%s" % (o._mid, STATUS_TOK[stname], seq if seq is not None else "-"))
            for o in orders:
                check(o, "after " + ev)
        res.evaluations += 1
        res.nontrivial.add("bdq %d" % case)
        res.distribution["betdaq-orders:%d" % len(orders)] += 1
        for op in ops:
            res.distribution["betdaq-op:" + op.split(":")[0]] += 1
        for r in outs:
            res.distribution["betdaq-request:" + r] += 1
        line = "bdq " + ";".join(ops)
        impl = ",".join(canon(o) for o in orders) + " | " + ",".join(outs)
        return line, impl, payload
    finally:
        ex.shutdown()


def run(res, tier, seed, model_ok, search):
    rng = random.Random(seed * 7919 + 3)
    n = 6000 if (tier != "quick" or search) else 400
    lines, impls, payloads = [], [], []
    for case in range(n):
        try:
            r = one_case(res, random.Random(rng.getrandbits(32)), case, seed)
        except Exception:  # noqa
            import traceback
            res.violate("betdaq-processing-crashed", traceback.format_exc()[-600:], {"case": case, "seed": seed, "domain": "betdaq"})
            continue
        lines.append(r[0]); impls.append(r[1]); payloads.append(r[2])
    if model_ok and lines:
        for line, impl, ans, pl in zip(lines, impls, common.run_driver(lines), payloads):
            if ans != impl:
                res.disagree({"request": line[:1500], "model": ans[:900], "implementation": impl[:900], "case": pl})


def replay(payload):
    seed, case = payload["replay"]["seed"], payload["replay"]["case"]
    rng = random.Random(seed * 7919 + 3)
    res = common.Result()
    for c in range(case + 1):
        r = random.Random(rng.getrandbits(32))
        if c == case:
            line, impl, _ = one_case(res, r, c, seed)
            print(line); print(impl)
            for v in res.violations:
                print("ORACLE", v["signature"], v["what"])
    return 1 if res.violations else 0
