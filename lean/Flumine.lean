-- Root of the `Flumine` library: model files and property files.
import Flumine.Num
import Flumine.Status
import Flumine.Generated
import Flumine.Ladder
