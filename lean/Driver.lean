/- Driver.lean — line protocol: one request per line on stdin, one canonical answer per line. -/
import Flumine.Proto
import Flumine.Ladder
import Flumine.Validation
open Flumine Flumine.Proto

def parseLadder? (s : String) : Option LadderDef :=
  match s.splitOn ":" with
  | ["classic"] => some .classic
  | ["finest"] => some .finest
  | ["line", a, b, c] => do
      let x ← parseRat? a; let y ← parseRat? b; let z ← parseRat? c
      some (.lineRange x y z)
  | _ => none

def handleValidate (toks : List String) : Option String := do
  match toks with
  | [mbv, ms, mp, mb, kind, side, price, size, target, ladder] =>
    let c : ClientParams := ⟨← parseBool? mbv, ← parseRat? ms, ← parseRat? mp, ← parseRat? mb⟩
    let sd ← Side.ofName? side
    let pr ← parseOptRat? price
    let sz ← parseOptRat? size
    let tg ← parseOptRat? target
    let ld ← parseLadder? ladder
    let o : VOrder ← match kind with
      | "limit" => some (.limit sd pr sz tg ld)
      | "loc" => some (.limitOnClose sd sz pr ld)
      | "moc" => some (.marketOnClose sd sz)
      | "betdaq" => some (.betdaqLimit sd pr sz)
      | _ => none
    match validateOrder c o with
    | none => some "OK"
    | some e => some ("ERR " ++ e)
  | _ => none

def handle (toks : List String) : String :=
  match toks with
  | ["nearest", p] =>
    match parseRat? p with
    | some x => showRat (nearestPrice x)
    | none => "bad-op"
  | ["nearest_betdaq", p] =>
    match parseRat? p with
    | some x => showRat (nearestPrice x Gen.betdaqCutoffs)
    | none => "bad-op"
  | ["ticks", p, n] =>
    match parseRat? p, parseInt? n with
    | some x, some k => (match ticksAway x k with | some r => showRat r | none => "ValueError")
    | _, _ => "bad-op"
  | ["prices"] => showList showRat prices
  | ["betdaq_prices"] => showList showRat betdaqPrices
  | ["line_prices", a, b, c] =>
    match parseRat? a, parseRat? b, parseRat? c with
    | some x, some y, some z => showList showRat (makeLinePrices x y z)
    | _, _, _ => "bad-op"
  | "validate" :: rest => (handleValidate rest).getD "bad-op"
  | _ => "bad-op"

partial def loop (h : IO.FS.Stream) (out : IO.FS.Stream) : IO Unit := do
  let line ← h.getLine
  if line.isEmpty then return ()
  let toks := (line.trimAscii.toString.splitOn " ").filter (· ≠ "")
  out.putStrLn (handle toks)
  loop h out

def main : IO Unit := do
  let out ← IO.getStdout
  loop (← IO.getStdin) out
  out.flush
