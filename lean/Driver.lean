/- Driver.lean — line protocol: one request per line on stdin, one canonical answer per line. -/
import Flumine.Proto
import Flumine.Ladder
import Flumine.Validation
import Flumine.Controls
import Flumine.DriverSim
import Flumine.DriverWorld
import Flumine.DriverRef
import Flumine.DriverMerge
import Flumine.DriverDispatch
import Flumine.DriverLive
import Flumine.DriverBetdaq
open Flumine Flumine.Proto

def parseLadder? (s : String) : Option LadderDef :=
  match s.splitOn ":" with
  | ["classic"] => some .classic
  | ["finest"] => some .finest
  | ["line", a, b, c] => do
      let x ← parseRat? a; let y ← parseRat? b; let z ← parseRat? c
      some (.lineRange x y z)
  | _ => none

def handleValidate (toks : List String) : Option String := do
  match toks with
  | [mbv, ms, mp, mb, kind, side, price, size, target, ladder] =>
    let c : ClientParams := ⟨← parseBool? mbv, ← parseRat? ms, ← parseRat? mp, ← parseRat? mb⟩
    let sd ← Side.ofName? side
    let pr ← parseOptRat? price
    let sz ← parseOptRat? size
    let tg ← parseOptRat? target
    let ld ← parseLadder? ladder
    let o : VOrder ← match kind with
      | "limit" => some (.limit sd pr sz tg ld)
      | "loc" => some (.limitOnClose sd sz pr ld)
      | "moc" => some (.marketOnClose sd sz)
      | "betdaq" => some (.betdaqLimit sd pr sz)
      | _ => none
    match validateOrder c o with
    | none => some "OK"
    | some e => some ("ERR " ++ e)
  | _ => none

def parseOptStatus? (s : String) : Option (Option Status) :=
  if s = "-" then some none else (Status.ofName? s).map some

def parseCOrder? (s : String) : Option COrder :=
  match s.splitOn ":" with
  | [id, sel, side, kind, line, price, status, complete, matched, avg, remaining, liab, size, target, betdaq, ladder] => do
    let k ← match kind with
      | "L" => some OKind.limit | "LOC" => some OKind.limitOnClose | "MOC" => some OKind.marketOnClose | _ => none
    let lt ← match ladder with
      | "C" => some LadderTag.classicOrFinest | "L" => some LadderTag.lineRange | "U" => some LadderTag.unknown | _ => none
    let x : XOrder := {
      id := ← id.toNat?, sel := ← sel.toNat?, side := ← Side.ofName? side, kind := k,
      lineRange := ← parseBool? line, price := ← parseOptRat? price, status := ← parseOptStatus? status,
      complete := ← parseBool? complete, sizeMatched := ← parseRat? matched, avgPrice := ← parseRat? avg,
      sizeRemaining := ← parseRat? remaining, liability := ← parseRat? liab }
    some { x := x, size := ← parseOptRat? size, target := ← parseOptRat? target, betdaq := ← parseBool? betdaq, ladder := lt }
  | _ => none

def parseOptCOrder? (s : String) : Option (Option COrder) :=
  if s = "-" then some none else (parseCOrder? s).map some

def parseOptNat? (s : String) : Option (Option Nat) :=
  if s = "-" then some none else s.toNat?.map some

def handleExpo (toks : List String) : Option String := do
  match toks with
  | ["expo", orders, sel, excl, new] =>
    let os ← parseList? parseCOrder? orders
    let e := getExposures (os.map (·.x)) (← sel.toNat?) (← parseOptNat? excl) ((← parseOptCOrder? new).map (·.x))
    some (" ".intercalate ([e.matchedWin, e.matchedLose, e.unmatchedWin, e.unmatchedLose, e.worstWin, e.worstLose].map showRat))
  | ["selexp", orders, sel] =>
    let os ← parseList? parseCOrder? orders
    some (showRat (selectionExposure (os.map (·.x)) (← sel.toNat?)))
  | ["mexp", orders, active, winners, excl, new] =>
    let os ← parseList? parseCOrder? orders
    some (showRat (marketExposure (os.map (·.x)) (← active.toNat?) (← winners.toNat?) (← parseOptNat? excl)
      ((← parseOptCOrder? new).map (·.x))))
  | ["sexp", mo, ms, mm, orders, active, winners, order, kind, vok] =>
    let os ← parseList? parseCOrder? orders
    let lim : StratLimits := ⟨← parseOptRat? mo, ← parseOptRat? ms, ← parseOptRat? mm⟩
    match strategyExposure lim (os.map (·.x)) (← active.toNat?) (← winners.toNat?) (← parseCOrder? order)
        (← PkgKind.ofName? kind) (← parseBool? vok) with
    | .ok _ => some "OK"
    | .error e => some ("ERR " ++ e.name)
  | _ => none

/-- `packs <kind> <oid:version,...>` -> the packages `_create_order_package` builds: `version=o+o+o;...` -/
def handlePacks (toks : List String) : Option String := do
  match toks with
  | ["packs", kind, pend] =>
    let k ← match kind with
      | "PLACE" => some PackKind.place | "CANCEL" => some PackKind.cancel | "UPDATE" => some PackKind.update
      | "REPLACE" => some PackKind.replace | _ => none
    let ps ← parseList? (fun (s : String) => match s.splitOn ":" with
      | [o, v] => do
        let oid ← o.toNat?
        let ver ← if v = "-" then some none else (parseInt? v).map some
        some (oid, ver)
      | _ => none) pend
    let out := (World.packsOf ps k).map fun vc =>
      (match vc.1 with | none => "-" | some v => toString v) ++ "=" ++ "+".intercalate (vc.2.map toString)
    some (if out.isEmpty then "." else ";".intercalate out)
  | _ => none

def handle (toks : List String) : String :=
  match toks with
  | "packs" :: _ => (handlePacks toks).getD "bad-op"
  | "live" :: _ => (DriverLive.handle toks).getD "bad-op"
  | "live.calls" :: _ => (DriverLive.handle toks).getD "bad-op"
  | "live.adopt" :: _ => (DriverLive.handle toks).getD "bad-op"
  | ["status.legal", a, b] =>
    (match (if a = "-" then some none else (Status.ofName? a).map some), Status.ofName? b with
     | some s, some t => if Status.legalStep s t then "T" else "F"
     | _, _ => "bad-op")
  | "bdq" :: _ => (DriverBetdaq.handle toks).getD "bad-op"
  | "dispatch" :: _ => (DriverDispatch.handle toks).getD "bad-op"
  | "dispatch.close" :: _ => (DriverDispatch.handle toks).getD "bad-op"
  | "merge.run" :: _ => (DriverMerge.handle toks).getD "bad-op"
  | "merge.filter" :: _ => (DriverMerge.handle toks).getD "bad-op"
  | ["nearest", p] =>
    match parseRat? p with
    | some x => showRat (nearestPrice x)
    | none => "bad-op"
  | ["nearest_betdaq", p] =>
    match parseRat? p with
    | some x => showRat (nearestPrice x Gen.betdaqCutoffs)
    | none => "bad-op"
  | ["ticks", p, n] =>
    match parseRat? p, parseInt? n with
    | some x, some k => (match ticksAway x k with | some r => showRat r | none => "ValueError")
    | _, _ => "bad-op"
  | ["prices"] => showList showRat prices
  | ["betdaq_prices"] => showList showRat betdaqPrices
  | ["line_prices", a, b, c] =>
    match parseRat? a, parseRat? b, parseRat? c with
    | some x, some y, some z => showList showRat (makeLinePrices x y z)
    | _, _, _ => "bad-op"
  | "expo" :: _ => (handleExpo toks).getD "bad-op"
  | "selexp" :: _ => (handleExpo toks).getD "bad-op"
  | "mexp" :: _ => (handleExpo toks).getD "bad-op"
  | "sexp" :: _ => (handleExpo toks).getD "bad-op"
  | "profit" :: rest => (DriverSim.handleProfit rest).getD "bad-op"
  | "simorder" :: rest => (DriverSim.handle rest).getD "bad-op"
  | "validate" :: rest => (handleValidate rest).getD "bad-op"
  | "ref.valid" :: _ => (DriverRef.handle toks).getD "bad-op"
  | "ref.setsep" :: _ => (DriverRef.handle toks).getD "bad-op"
  | "ref.build" :: _ => (DriverRef.handle toks).getD "bad-op"
  | "ref.inst" :: _ => (DriverRef.handle toks).getD "bad-op"
  | "ref.bybet" :: _ => (DriverRef.handle toks).getD "bad-op"
  | _ => "bad-op"

partial def loop (h : IO.FS.Stream) (out : IO.FS.Stream) (sess : DriverWorld.Session) : IO Unit := do
  let line ← h.getLine
  if line.isEmpty then return ()
  let toks := (line.trimAscii.toString.splitOn " ").filter (· ≠ "")
  match toks with
  | t :: _ =>
    if t.startsWith "w." then
      match DriverWorld.step sess toks with
      | some (sess', o) =>
        match o with
        | some txt => out.putStrLn txt
        | none => pure ()
        loop h out sess'
      | none =>
        out.putStrLn "bad-op"
        loop h out sess
    else
      out.putStrLn (handle toks)
      loop h out sess
  | [] =>
    out.putStrLn "bad-op"
    loop h out sess

def main : IO Unit := do
  let out ← IO.getStdout
  loop (← IO.getStdin) out {}
  out.flush
