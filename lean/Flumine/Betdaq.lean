/- Betdaq.lean — the Betdaq order class, per order: request guards (BetdaqOrder.cancel / update), the response
   handlers of BetdaqExecution (place / cancel / update, reports looked up by reference / bet id, orders the
   exchange did not report, calls that failed) and the order-stream mapping (process_betdaq_current_order). -/
import Flumine.Status
namespace Flumine.Betdaq
open Flumine

/-- Betdaq order status strings of the order stream -/
inductive DStatus | unmatched | suspended | matched | cancelled | settled | void | other
  deriving DecidableEq, Repr, Inhabited

structure DOrder where
  id : Nat := 0
  status : Option Status := none
  log : List Status := []
  complete : Bool := false
  betId : Option Nat := none
  limit : Bool := true                  -- order_type.ORDER_TYPE == LIMIT
  udSet : Bool := false                 -- update_data holds an instruction
  seq : Option Nat := none              -- current_order["sequence_number"]
  cur : Option DStatus := none          -- current_order["status"]
  deriving DecidableEq, Repr, Inhabited

def isCompleteStatus (s : Status) : Bool := s = .executionComplete || s = .expired || s = .violation

def setStatus (o : DOrder) (s : Status) : DOrder :=
  { o with status := some s, log := o.log ++ [s], complete := isCompleteStatus s }

/-- `executable()`: a completed order ignores it (only `update_data.clear()`) -/
def executable (o : DOrder) : DOrder :=
  if o.complete then { o with udSet := false } else { setStatus o .executable with udSet := false }

def executionComplete (o : DOrder) : DOrder := { setStatus o .executionComplete with udSet := false }

def placing (o : DOrder) : DOrder := setStatus o .pending

inductive DErr | sizeReduction | noBetId | status | onlyLimit
  deriving DecidableEq, Repr

def DErr.name : DErr → String
  | .sizeReduction => "size-reduction" | .noBetId => "no-bet-id" | .status => "status" | .onlyLimit => "only-limit"

/-- `BetdaqOrder.cancel(size_reduction)` -/
def cancel (o : DOrder) (sizeReduction : Bool) : Except DErr DOrder :=
  if sizeReduction then .error .sizeReduction
  else if o.betId.isNone then .error .noBetId
  else if o.limit then
    if o.status ≠ some .executable then .error .status else .ok (setStatus o .cancelling)
  else .error .onlyLimit

/-- `BetdaqOrder.update(...)` -/
def update (o : DOrder) : Except DErr DOrder :=
  if o.betId.isNone then .error .noBetId
  else if o.limit then
    if o.status ≠ some .executable then .error .status else .ok (setStatus { o with udSet := true } .updating)
  else .error .onlyLimit

/-! ### BetdaqExecution, per order -/

/-- a place report for this order: the logger stores the exchange's order id, return code 0 = accepted -/
def placeReport (o : DOrder) (returnCode : Nat) (orderId : Option Nat) : DOrder :=
  let o := match orderId with | some b => { o with betId := some b } | none => o
  if returnCode = 0 then executable o else executionComplete o

/-- the place call failed (error / no response): every order of the package is closed -/
def placeFailed (o : DOrder) : DOrder := executionComplete o

/-- a cancel report names this order: it is complete -/
def cancelReported (o : DOrder) : DOrder := executionComplete o
/-- the cancel response does not name this order, or the call failed: back to executable -/
def cancelNotReported (o : DOrder) : DOrder := executable o

/-- an update report for this order: an error code puts it back, otherwise the stream will tell -/
def updateReport (o : DOrder) (returnCode : Nat) : DOrder := if returnCode ≠ 0 then executable o else o
def updateFailed (o : DOrder) : DOrder := executable o

/-- `process_betdaq_current_order(order, current_order)` -/
def processCurrent (o : DOrder) (st : DStatus) (newSeq : Option Nat) : DOrder :=
  let old := o.seq
  let o := { o with seq := newSeq, cur := some st }
  let resting := st = .unmatched ∨ st = .suspended
  if o.status = some .pending ∧ o.betId.isSome then
    if resting then executable o else executionComplete o
  else if o.status = some .updating ∧ old ≠ newSeq then
    if resting then executable o else executionComplete o
  else if o.status = some .executable then
    if st = .matched ∨ st = .cancelled ∨ st = .settled ∨ st = .void then executionComplete o else o
  else o

end Flumine.Betdaq
