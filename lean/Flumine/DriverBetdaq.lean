/- DriverBetdaq.lean — line-protocol command for the Betdaq order model (driver only). -/
import Flumine.Betdaq
import Flumine.Proto
namespace Flumine.DriverBetdaq
open Flumine Flumine.Betdaq Flumine.Proto

def parseD? : String → Option DStatus
  | "U" => some .unmatched | "S" => some .suspended | "M" => some .matched | "C" => some .cancelled
  | "T" => some .settled | "V" => some .void | "O" => some .other | _ => none

def parseOptNat? (s : String) : Option (Option Nat) := if s = "-" then some none else s.toNat?.map some

def modify (os : List DOrder) (id : Nat) (f : DOrder → DOrder) : List DOrder :=
  os.map fun o => if o.id = id then f o else o

def attempt (f : DOrder → Except DErr DOrder) (o : DOrder) : DOrder := match f o with | .ok o' => o' | .error _ => o

def step (acc : List DOrder × List String) (op : String) : Option (List DOrder × List String) :=
  let (os, outs) := acc
  match op.splitOn ":" with
  | ["N", id, lim] => do some (os ++ [placing { id := ← id.toNat?, limit := ← parseBool? lim }], outs)
  | ["CQ", id, sr] => do
    let i ← id.toNat?
    let s ← parseBool? sr
    let o ← os.find? (·.id = i)
    let r := match cancel o s with | .ok _ => "ok" | .error e => e.name
    some (modify os i (attempt fun o => cancel o s), outs ++ [r])
  | ["UQ", id] => do
    let i ← id.toNat?
    let o ← os.find? (·.id = i)
    let r := match update o with | .ok _ => "ok" | .error e => e.name
    some (modify os i (attempt update), outs ++ [r])
  | ["PR", id, rc, bet] => do
    let c ← rc.toNat?
    let b ← parseOptNat? bet
    some (modify os (← id.toNat?) fun o => placeReport o c b, outs)
  | ["PF", id] => do some (modify os (← id.toNat?) placeFailed, outs)
  | ["CR", id] => do some (modify os (← id.toNat?) cancelReported, outs)
  | ["CN", id] => do some (modify os (← id.toNat?) cancelNotReported, outs)
  | ["UR", id, rc] => do
    let c ← rc.toNat?
    some (modify os (← id.toNat?) fun o => updateReport o c, outs)
  | ["UF", id] => do some (modify os (← id.toNat?) updateFailed, outs)
  | ["SN", id, st, seq] => do
    let d ← parseD? st
    let q ← parseOptNat? seq
    some (modify os (← id.toNat?) fun o => processCurrent o d q, outs)
  | _ => none

def showOrder (o : DOrder) : String :=
  ":".intercalate [toString o.id, (o.status.map Status.name).getD "-", showBool o.complete,
    (match o.betId with | some b => toString b | none => "-"),
    (if o.log.isEmpty then "." else "+".intercalate (o.log.map Status.name)), showBool o.udSet]

def handle (toks : List String) : Option String := do
  match toks with
  | ["bdq", ops] =>
    let (os, outs) ← (ops.splitOn ";").foldlM step ([], [])
    some (showList showOrder os ++ " | " ++ ",".intercalate outs)
  | _ => none

end Flumine.DriverBetdaq
