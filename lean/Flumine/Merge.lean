/-
  Merge.lean — FlumineSimulation.run: grouping of the historical streams by event group, the k-way
  merge of an event group by publish time, sequential processing otherwise; and the listener filter of
  FlumineMarketStream._process (inplay / seconds_to_start / max_inplay_seconds).
  flumine/simulation/simulation.py:44-104, flumine/streams/historicalstream.py:35-124,255-272.
  An update is (stream, publish time, position in its file); the book content plays no part here.
-/
namespace Flumine.Merge

structure Upd where
  stream : Nat
  pt : Int
  seq : Nat
  deriving DecidableEq, Repr, Inhabited

/-- `[epoch, market_book, generator]`: the update in hand and what the generator will still yield -/
abbrev Cycle := Upd × List Upd

def Cycle.items (c : Cycle) : List Upd := c.1 :: c.2

/-- position of `c` in a list that `list.sort(key=epoch)` leaves stable: after every element whose
    key is not larger -/
def insCycle (c : Cycle) : List Cycle → List Cycle
  | [] => [c]
  | x :: xs => if x.1.pt ≤ c.1.pt then x :: insCycle c xs else c :: x :: xs

/-- `cycles.sort(key=lambda x: x[0])` (stable) -/
def sortCycles (cs : List Cycle) : List Cycle := cs.foldl (fun acc c => insCycle c acc) []

def size (cs : List Cycle) : Nat := (cs.map fun c => 1 + c.2.length).sum

/-- `next(stream_gen)` and `cycles.append(...)`, or nothing when the generator is exhausted -/
def nextOf : List Upd → List Cycle
  | [] => []
  | v :: r => [(v, r)]

/-- the `while cycles:` loop, with the number of remaining updates as fuel -/
def mergeFuel : Nat → List Cycle → List Upd
  | 0, _ => []
  | n + 1, cs =>
    match sortCycles cs with
    | [] => []
    | (u, rest) :: tl => u :: mergeFuel n (tl ++ nextOf rest)

def toCycles (streams : List (List Upd)) : List Cycle :=
  streams.filterMap fun s => match s with | [] => none | u :: r => some (u, r)

/-- the sequence of updates processed for an event group of several streams -/
def mergeGroup (streams : List (List Upd)) : List Upd :=
  mergeFuel (size (toCycles streams)) (toCycles streams)

/-! ### grouping -/

structure Stream where
  id : Nat
  group : Option Nat          -- stream.event_group (None without event processing)
  updates : List Upd          -- what its generator yields (after the listener filter)
  deriving Repr, Inhabited

def dedupFirst : List (Option Nat) → List (Option Nat)
  | [] => []
  | x :: xs => x :: (dedupFirst xs).filter (· ≠ x)

/-- `event_group_streams` keys in first-appearance order -/
def groupKeys (ss : List Stream) : List (Option Nat) := dedupFirst (ss.map (·.group))

def processGroup (k : Option Nat) (members : List Stream) : List Upd :=
  if k.isSome ∧ 1 < members.length then mergeGroup (members.map (·.updates))
  else members.flatMap (·.updates)

/-- the sequence of updates handed to `_process_market_books` during `run()` -/
def runSeq (ss : List Stream) : List Upd :=
  (groupKeys ss).flatMap fun k => processGroup k (ss.filter (·.group = k))

/-! ### listener filter -/

inductive MStatus | open_ | suspended | closed | inactive
  deriving DecidableEq, Repr, Inhabited

structure RawUpd where
  pt : Int
  status : MStatus
  inPlay : Bool
  marketTime : Int            -- epoch ms
  deriving Repr, Inhabited

structure ListenerCfg where
  inplay : Option Bool := none
  secondsToStart : Option Nat := none
  maxInplaySeconds : Option Nat := none
  deriving Repr, Inhabited

structure FState where
  prevInPlay : Bool := false
  inplayPt : Option Int := none
  deriving Repr, Inhabited

/-- one `_process` call: new filter state and whether the update is yielded -/
def filterStep (cfg : ListenerCfg) (st : FState) (u : RawUpd) : FState × Bool :=
  let st1 : FState := if cfg.maxInplaySeconds.isSome ∧ u.inPlay ∧ !st.prevInPlay then { st with inplayPt := some u.pt } else st
  let active : Bool :=
    if u.status = .open_ then
      let a1 : Bool :=
        if cfg.inplay = some true then u.inPlay
        else match cfg.secondsToStart with
          | some s => if s ≠ 0 then decide (u.marketTime - u.pt ≤ (s : Int) * 1000) else true
          | none => true
      let a2 : Bool := if cfg.inplay = some false ∧ u.inPlay then false else a1
      match cfg.maxInplaySeconds, st1.inplayPt with
      | some m, some p => if (m : Int) * 1000 < u.pt - p then false else a2
      | _, _ => a2
    else true
  ({ st1 with prevInPlay := u.inPlay }, active)

def filterRun (cfg : ListenerCfg) : FState → List RawUpd → List RawUpd
  | _, [] => []
  | st, u :: us =>
    let r := filterStep cfg st u
    if r.2 then u :: filterRun cfg r.1 us else filterRun cfg r.1 us

end Flumine.Merge
