/-
  Live.lean — live (Betfair) execution: what the response handlers and the order-stream processing do
  to an order.  flumine/execution/betfairexecution.py (execute_place / cancel / update / replace,
  _execution_helper: retry and reset_orders), flumine/order/orderpackage.py (retry, reset_orders,
  replace_instructions), flumine/execution/baseexecution.py (_order_logger),
  flumine/order/process.py (process_current_order), flumine/clients (add_transaction).
  The exchange is a parameter: every function takes the report / snapshot it answered with.
-/
import Flumine.Status
namespace Flumine.Live

inductive RepStatus | success | failure | timeout
  deriving DecidableEq, Repr, Inhabited

/-- a `CurrentOrder` of the order stream -/
structure Snap where
  betId : Nat
  status : Status                 -- EXECUTABLE / EXECUTION_COMPLETE / EXPIRED (PENDING for async bets)
  sizeMatched : Rat := 0
  sizeRemaining : Rat := 0
  deriving DecidableEq, Repr, Inhabited

structure PlaceRep where
  status : RepStatus
  orderStatus : Option Status := none   -- PENDING (async) / EXECUTABLE / EXECUTION_COMPLETE / EXPIRED
  betId : Option Nat := none
  sizeMatched : Rat := 0
  deriving DecidableEq, Repr, Inhabited

structure CancelRep where
  status : RepStatus
  takenOrLapsed : Bool := false         -- error_code == "BET_TAKEN_OR_LAPSED"
  sizeCancelled : Rat := 0
  deriving DecidableEq, Repr, Inhabited

structure LOrder where
  id : Nat
  size : Rat := 2
  status : Option Status := none
  log : List Status := []
  complete : Bool := false
  betId : Option Nat := none
  async : Bool := false
  cur : Option Snap := none             -- responses.current_order
  placeResp : Option PlaceRep := none   -- responses.place_response
  zeroed : Bool := false                -- `order.current_order.size_remaining = 0.0` on a failed placement without bet id
  cancelResponses : Nat := 0
  updateResponses : Nat := 0
  deriving DecidableEq, Repr, Inhabited

def isCompleteStatus (s : Status) : Bool := s = .executionComplete || s = .expired || s = .violation

def setStatus (o : LOrder) (s : Status) : LOrder :=
  { o with status := some s, log := o.log ++ [s], complete := isCompleteStatus s }

/-- `executable()`: a completed order ignores it -/
def executable (o : LOrder) : LOrder := if o.complete then o else setStatus o .executable

def executionComplete (o : LOrder) : LOrder := setStatus o .executionComplete

/-- `order.current_order.bet_id` (the stream snapshot if there is one, else the place response) -/
def curBetId (o : LOrder) : Option Nat :=
  match o.cur with
  | some s => some s.betId
  | none => o.placeResp.bind (·.betId)

/-- `order.size_remaining` -/
def sizeRemaining (o : LOrder) : Rat :=
  match o.cur with
  | some s => s.sizeRemaining
  | none =>
    if o.zeroed then 0
    else match o.placeResp with
      | some r => if 0 < r.sizeMatched then o.size - r.sizeMatched else o.size   -- placeResponse does not include sizeRemaining
      | none => o.size

/-! ### response handlers, per order -/

def placeReport (o : LOrder) (r : PlaceRep) : LOrder :=
  -- _order_logger(PLACE)
  let o := { o with placeResp := some r, betId := (match r.betId with | some b => some b | none => o.betId) }
  match r.status with
  | .success =>
    match r.orderStatus with
    | some .pending => o
    | some .expired => executionComplete o
    | _ => executable o
  | .failure =>
    let o := if (curBetId o).isNone then { o with zeroed := true } else o
    executionComplete o
  | .timeout => o

def cancelReport (o : LOrder) (r : CancelRep) : LOrder :=
  let o := { o with cancelResponses := o.cancelResponses + 1 }
  match r.status with
  | .success => if r.sizeCancelled = sizeRemaining o ∨ sizeRemaining o = 0 then executionComplete o else executable o
  | .failure => if r.takenOrLapsed then executionComplete o else executable o
  | .timeout => executable o

/-- an order of a cancel package for which the exchange returned no report -/
def cancelMissing (o : LOrder) : LOrder := executable o

def updateReport (o : LOrder) (_ : RepStatus) : LOrder :=
  executable { o with updateResponses := o.updateResponses + 1 }

/-- the cancel half of a replace report, on the order being replaced -/
def replaceCancelReport (o : LOrder) (r : RepStatus) : LOrder :=
  match r with
  | .success => executionComplete { o with cancelResponses := o.cancelResponses + 1 }
  | .failure => executable o
  | .timeout => executable o

/-- the replacement order created when the place half succeeded -/
def replacementOf (o : LOrder) (newId : Nat) (betId : Nat) : LOrder :=
  executable (setStatus { id := newId, size := o.size, betId := some betId, async := o.async } .pending)

/-- `reset_orders(complete)` after the retries are exhausted -/
def resetOrder (complete : Bool) (o : LOrder) : LOrder := if complete then executionComplete o else executable o

/-! ### retry -/

structure Attempts where
  retryCount : Nat := 0
  maxRetries : Nat := 3
  deriving Repr

/-- `order_package.retry()` -/
def retry (a : Attempts) : Attempts × Bool :=
  if a.retryCount < a.maxRetries then ({ a with retryCount := a.retryCount + 1 }, true) else (a, false)

/-- calls made to the exchange when the first `errors` attempts raise an API error -/
def callsMade (errors : Nat) (a : Attempts) : Nat := Nat.min (errors + 1) (a.maxRetries + 1)

/-! ### order stream -/

/-- `order.update_current_order(current_order)` and the pick-up of the bet id of an async order -/
def pickup (o : LOrder) (s : Snap) : LOrder :=
  { o with cur := some s, betId := if o.async ∧ o.betId.isNone then some s.betId else o.betId }

/-- the status part of `process_current_order` -/
def followStatus (o : LOrder) (s : Snap) : LOrder :=
  if o.betId.isSome ∧ o.status = some .pending then
    (if s.status = .executable then executable o
     else if s.status = .executionComplete ∨ s.status = .expired then executionComplete o else o)
  else if o.status = some .executable then
    (if s.status = .executionComplete ∨ s.status = .expired then executionComplete o else o)
  else o

/-- `process_current_order(order, current_order)` -/
def processCurrent (o : LOrder) (s : Snap) : LOrder := followStatus (pickup o s) s

/-! ### adoption of an order the instance does not know (`Trade.create_order_from_current`, after a restart) -/

inductive CoKind | limit | limitOnClose | marketOnClose
  deriving DecidableEq, Repr, Inhabited

/-- the terms of a bet as `listCurrentOrders` / the order stream report them -/
structure CurrentTerms where
  kind : CoKind
  price : Rat := 0              -- priceSize.price
  size : Rat := 0               -- priceSize.size
  bspLiability : Rat := 0
  persistence : String := "LAPSE"
  deriving DecidableEq, Repr, Inhabited

/-- the order type of the adopted order: `LimitOrder(price, size, persistence)`, `LimitOnCloseOrder(liability, price)`,
    `MarketOnCloseOrder(liability)` -/
structure AdoptedType where
  kind : CoKind
  price : Option Rat := none
  size : Option Rat := none
  liability : Option Rat := none
  persistence : Option String := none
  deriving DecidableEq, Repr, Inhabited

def adoptType (c : CurrentTerms) : AdoptedType :=
  match c.kind with
  | .limit => { kind := .limit, price := some c.price, size := some c.size, persistence := some c.persistence }
  | .limitOnClose => { kind := .limitOnClose, liability := some c.bspLiability, price := some c.price }
  | .marketOnClose => { kind := .marketOnClose, liability := some c.bspLiability }

/-! ### transaction counting -/

structure Counts where
  count : Nat := 0
  failed : Nat := 0
  deriving DecidableEq, Repr

def countFailures (rs : List RepStatus) : Nat := (rs.filter (· = .failure)).length

/-- what an answered call charges: PLACE / REPLACE the number of orders in the package, and every
    kind but PLACE the failed instructions -/
def chargePlace (c : Counts) (n : Nat) : Counts := { c with count := c.count + n }
def chargeCancel (c : Counts) (reports : List RepStatus) : Counts := { c with failed := c.failed + countFailures reports }
def chargeReplace (c : Counts) (n : Nat) (cancelHalves : List RepStatus) : Counts :=
  { count := c.count + n, failed := c.failed + countFailures cancelHalves }

end Flumine.Live
