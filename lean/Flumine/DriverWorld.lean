/- DriverWorld.lean — line protocol for the simulation world (stateful session). -/
import Flumine.Proto
import Flumine.SimLoop
import Flumine.DriverSim
namespace Flumine.DriverWorld
open Flumine Flumine.Proto Flumine.World

structure Session where
  w : World := {}
  script : List (Nat × Action) := []      -- pending (strategy, action) for the next book
  deriving Inhabited

def showOptInt : Option Int → String
  | none => "-"
  | some i => toString i

def showStatus : Option Status → String
  | none => "-"
  | some s => s.name

def showFrags (l : List Frag) : String :=
  -- aggregate by (pt, price), drop zero sizes (canonical form shared with the harness)
  let agg := l.foldl (fun (acc : List (Int × Rat × Rat)) f =>
    if f.size = 0 then acc
    else if acc.any (fun e => e.1 = f.pt ∧ e.2.1 = f.price) then
      acc.map fun e => if e.1 = f.pt ∧ e.2.1 = f.price then (e.1, e.2.1, e.2.2 + f.size) else e
    else acc ++ [(f.pt, f.price, f.size)]) []
  if agg.isEmpty then "." else "+".intercalate (agg.map fun e => s!"{e.1}@{showRat e.2.1}@{showRat e.2.2}")

def showOrder (o : Order) : String :=
  ":".intercalate [toString o.id, showStatus o.status, showBool o.complete,
    (if o.log.isEmpty then "." else "+".intercalate (o.log.map (·.name))),
    (match o.betId with | some b => toString (b - Gen.betIdStart) | none => "-"),
    showRat o.sim.sizeMatched, showRat o.sim.avgPrice, showRat o.sim.sizeCancelled, showRat o.sim.sizeLapsed,
    showRat o.sim.sizeVoided, showRat o.sim.sizeRemaining, showRat o.sim.piq, o.sim.persistence,
    showFrags o.sim.matched, showOptInt o.placedAt, toString o.created, showBool o.inBlotter,
    showRat o.sim.price, showRat o.sim.size, showRat o.sim.liability, showOptInt o.completeAt, (match o.client with | some c => toString c | none => "-")]

def showTradeStatus (s : TradeStatus) : String := s.name

def showTrade (t : Trade) : String :=
  ":".intercalate [toString t.id, t.status.name,
    (if t.log.isEmpty then "." else "+".intercalate (t.log.map (·.name))),
    (if t.orders.isEmpty then "." else "+".intercalate (t.orders.map toString))]

def showNats (l : List Nat) : String := if l.isEmpty then "." else "+".intercalate (l.map toString)

def showCtx (c : RunnerCtx) : String :=
  ":".intercalate [toString c.key.strategy, toString c.key.market, toString c.key.sel, showRat c.key.hc,
    showNats c.trades, showNats c.liveTrades, showOptInt c.lastPlaced, showOptInt c.lastReset]

def showMarket (m : Market) : String :=
  ":".intercalate [toString m.id, showBool m.closed, showNats m.blotter, showNats m.live, showBool m.active,
    showBool m.hasAnalytics,
    (if m.removals.isEmpty then "." else "+".intercalate (m.removals.map fun k => toString k.1 ++ "@" ++ showRat k.2.1 ++ "@" ++ showOptRat k.2.2))]

def showClient (c : Client) : String :=
  ":".intercalate [toString c.id, toString c.counter.count, toString c.counter.failed, toString c.counter.curCount,
    toString c.counter.curFailed]

def showEv : Ev → String
  | .closedCallback s m pt => s!"closed/{s}/{m}/{pt}"
  | .clearedOrders m n => s!"clearedOrders/{m}/{n}"
  | .clearedMarket m c p cm bc => s!"clearedMarket/{m}/{c}/{showRat p}/{showRat cm}/{bc}"
  | .closeEvent m => s!"closeEvent/{m}"
  | .marketEvent m => s!"marketEvent/{m}"
  | .tradeEvent t => s!"tradeEvent/{t}"
  | .orderEvent o => s!"orderEvent/{o}"
  | .processOrders s m n => s!"processOrders/{s}/{m}/{n}"
  | .newMarket s m => s!"newMarket/{s}/{m}"
  | .bookCallback s m pt => s!"book/{s}/{m}/{pt}"
  | .warnNoMarket m => s!"warnNoMarket/{m}"
  | .removedMarket m => s!"removedMarket/{m}"

def showQueue (q : List Package) : String :=
  if q.isEmpty then "." else "+".intercalate (q.map fun p => s!"{p.kind.name}/{p.market}/{showNats p.orders}/{p.created}/{showRat p.delay}")

def showWorld (w : World) : String :=
  " ".intercalate [
    "O " ++ showList showOrder w.orders,
    "T " ++ showList showTrade w.trades,
    "C " ++ showList showCtx (w.strategies.flatMap fun s => w.ctxs.filter (·.key.strategy = s.id)),
    "M " ++ showList showMarket w.markets,
    "K " ++ showList showClient w.clients,
    "Q " ++ showQueue w.queue,
    -- (the warning for a close of an unknown market is a log line, not an observable event)
    "E " ++ showList showEv (w.out.filter fun e => match e with | .warnNoMarket _ => false | _ => true),
    "F " ++ toString w.foreign]

def parseRunner? (s : String) : Option Runner :=
  match s.splitOn "~" with
  | [sel, hc, st, af, sp, atb, atl, trd] => do
    let lv := fun (x : String) => if x = "." then some [] else (x.splitOn "+").mapM DriverSim.parseLevel?
    let pr := fun (x : String) => if x = "." then some [] else (x.splitOn "+").mapM DriverSim.parsePair?
    let sel' ← sel.toNat?
    let hc' ← parseRat? hc
    let st' ← DriverSim.parseRStatus? st
    let af' ← parseOptRat? af
    let sp' ← parseOptRat? sp
    let atb' ← lv atb
    let atl' ← lv atl
    let trd' ← pr trd
    some { sel := sel', hc := hc', status := st', af := af', sp := sp', atb := atb', atl := atl', trd := trd' }
  | _ => none

def parseTarget? (s : String) : Option Target :=
  if s.startsWith "o" then (s.drop 1).toNat?.map Target.byId
  else if s.startsWith "t" then (s.drop 1).toNat?.map Target.lastOfTrade
  else none

def parseAction? (toks : List String) : Option Action := do
  match toks with
  | ["create", tkey, isNew, sid, mid, sel, hc, side, kind, price, size, liab, pers, fok, minfill, ladder, placeReset, resetSec] =>
    let tid ← tkey.toNat?
    let nw ← parseBool? isNew
    let sid' ← sid.toNat?
    let mid' ← mid.toNat?
    let sel' ← sel.toNat?
    let hc' ← parseRat? hc
    let sd ← Side.ofName? side
    let kd ← DriverSim.parseKind? kind
    let pr ← parseRat? price
    let sz ← parseRat? size
    let lb ← parseRat? liab
    let fk ← parseBool? fok
    let mf ← parseOptRat? minfill
    let ld ← match ladder with
      | "C" => some LadderKind.classic | "F" => some LadderKind.finest | "L" => some LadderKind.lineRange | _ => none
    let prs ← parseRat? placeReset
    let rs ← parseRat? resetSec
    let so : SimOrder := { side := sd, kind := kd, price := pr, size := sz, liability := lb, persistence := pers, lineRange := ld == .lineRange }
    let o : Order := { id := 0, trade := tid, strategy := sid', market := mid', sel := sel', hc := hc', fok := fk, minFill := mf, ladder := ld, sim := so }
    let t0 : Trade := { id := tid, strategy := sid', market := mid', sel := sel', hc := hc', placeResetSeconds := prs, resetSeconds := rs }
    let t : Option Trade := if nw then some t0 else none
    some (.create o t)
  | ["place", tg, ver, force] => some (.place (← parseTarget? tg) (← DriverSim.parseOptInt? ver) (← parseBool? force))
  | ["cancel", tg, red, force] => some (.cancel (← parseTarget? tg) (← parseOptRat? red) (← parseBool? force))
  | ["update", tg, pers, force] => some (.update (← parseTarget? tg) pers (← parseBool? force))
  | ["replace", tg, price, ver, force] =>
    some (.replace (← parseTarget? tg) (← parseRat? price) (← DriverSim.parseOptInt? ver) (← parseBool? force))
  | ["bbegin", client] => some (.batchBegin (← client.toNat?))
  | ["bexec"] => some .batchExecute
  | ["bend"] => some .batchEnd
  | _ => none

/-- one protocol line; `none` output = nothing printed -/
def step (s : Session) (toks : List String) : Option (Session × Option String) := do
  match toks with
  | ["w.begin", iso, pl, cl, ul, rl] =>
    let cfg : Config := {
        isolation := (← parseBool? iso), placeLatency := (← parseRat? pl), cancelLatency := (← parseRat? cl),
        updateLatency := (← parseRat? ul), replaceLatency := (← parseRat? rl) }
    some ({ w := { cfg := cfg }, script := [] }, none)
  | ["w.client", id, bpe, full, mbv, lim, comm] =>
    let c : Client := {
        id := (← id.toNat?), bpe := (← parseBool? bpe), fullMatch := (← parseBool? full),
        minBetValidation := (← parseBool? mbv), txLimit := (← parseOptNat' lim), commission := (← parseRat? comm) }
    some ({ s with w := { s.w with clients := s.w.clients ++ [c] } }, none)
  | ["w.strategy", id, streams, ef, mo, ms, mm, mt, ml, multi] =>
    let st : Strategy := {
        id := (← id.toNat?), streams := (← parseList? String.toNat? streams), emptyFilter := (← parseBool? ef),
        maxOrder := (← parseOptRat? mo), maxSel := (← parseOptRat? ms), maxMarket := (← parseOptRat? mm),
        maxTrade := (← mt.toNat?), maxLive := (← ml.toNat?), multiOrder := (← parseBool? multi) }
    some ({ s with w := { s.w with strategies := s.w.strategies ++ [st] } }, none)
  | "w.act" :: sid :: rest =>
    let a ← parseAction? rest
    some ({ s with script := s.script ++ [((← sid.toNat?), a)] }, none)
  | ["w.book", mid, stream, pt, status, ver, inplay, bspRec, bspMkt, pe, betDelay, winners, mtype, ew, runners] =>
    let rs ← parseList? parseRunner? runners
    let book : Book := {
        status := (← DriverSim.parseMStatus? status), version := (← parseInt? ver), inplay := (← parseBool? inplay),
        bspReconciled := (← parseBool? bspRec), bspMarket := (← parseBool? bspMkt), persistenceEnabled := (← parseBool? pe),
        betDelay := (← parseRat? betDelay), pt := (← parseInt? pt), winners := (← winners.toNat?),
        activeRunners := (rs.filter (·.status = .active)).length, marketType := mtype, ewDivisor := (← parseOptRat? ew),
        runners := rs, streamId := (← stream.toNat?) }
    let script := s.script
    let w0 := { s.w with out := [] }
    let (w, results) := w0.processMarketBook (← mid.toNat?) book fun sid => (script.filter (·.1 = sid)).map (·.2)
    let rtxt := if results.isEmpty then "." else
      ";".intercalate (results.map fun (sid, rs) => s!"{sid}=" ++ (if rs.isEmpty then "." else ",".intercalate rs))
    some ({ w := w, script := [] }, some ("R " ++ rtxt ++ " " ++ showWorld w))
  | ["w.endstream"] => some ({ s with w := { s.w with queue := [] } }, none)
  | ["w.end"] => some ({}, none)
  | _ => none
where
  parseOptNat' (x : String) : Option (Option Nat) := if x = "-" then some none else x.toNat?.map some

end Flumine.DriverWorld
