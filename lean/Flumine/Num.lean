/-
  Num.lean — exact arithmetic used by the model.

  flumine computes in binary floats and rounds with Python's `round(x, 2)`.
  The model computes on exact rationals (core `Rat`); `round2` is round-half-even
  to two decimals, which is what Python's `round` does to the exact value of its
  argument.  `nearTie2` tells the correspondence check when the exact pre-image is
  a half-penny tie (the only place where float and exact arithmetic can disagree
  for inputs of ordinary magnitude).
-/
namespace Flumine

/-- round half even to an integer -/
def roundHalfEven (y : Rat) : Int :=
  let f := y.floor
  let r := y - (f : Rat)
  if r < 1/2 then f
  else if 1/2 < r then f + 1
  else if f % 2 = 0 then f else f + 1

/-- Python `round(x, 2)` on the exact value. -/
def round2 (x : Rat) : Rat := (roundHalfEven (x * 100) : Rat) / 100

/-- `Decimal.quantize(Decimal(2)... )` as used in flumine: `quantize(2, ROUND_HALF_UP)`
    rounds to an integer, halves away from zero (inputs are positive there). -/
def roundHalfUp (y : Rat) : Int := (y + 1/2).floor

/-- exact pre-image is a half-penny tie -/
def nearTie2 (x : Rat) : Bool :=
  let y := x * 100
  y - (y.floor : Rat) == 1/2

/-- `x` has at most two decimals (`x == round(x, 2)` for a float whose repr is `x`). -/
def twoDp (x : Rat) : Bool := (x * 100).den == 1

def ratMax (a b : Rat) : Rat := if a < b then b else a
def ratMin (a b : Rat) : Rat := if b < a then b else a

def sumRat : List Rat → Rat
  | [] => 0
  | x :: xs => x + sumRat xs

end Flumine

namespace Flumine
/-- absolute value (kept import-free) -/
def absR (a : Rat) : Rat := if a < 0 then -a else a
end Flumine
