/-
  Validation.lean — OrderValidation control (flumine/controls/tradingcontrols.py),
  `_validate_betfair_order` / `_validate_betdaq_order`, branch for branch.
  Result: `none` = the order passes, `some msg` = `_on_error(order, msg)` (first failing check).
-/
import Flumine.Ladder
namespace Flumine

inductive LadderDef
  | classic | finest
  | lineRange (minUnit maxUnit interval : Rat)
  deriving Repr, DecidableEq

structure ClientParams where
  minBetValidation : Bool
  minBetSize : Rat
  minBetPayout : Rat
  minBspLiability : Rat
  deriving Repr

inductive VOrder
  | limit (side : Side) (price : Option Rat) (size targetSize : Option Rat) (ladder : LadderDef)
  | limitOnClose (side : Side) (liability : Option Rat) (price : Option Rat) (ladder : LadderDef)
  | marketOnClose (side : Side) (liability : Option Rat)
  | betdaqLimit (side : Side) (price : Option Rat) (size : Option Rat)
  deriving Repr

/-- python `a or b` on optional numbers (None and 0 are falsy) -/
def pyOr (a b : Option Rat) : Option Rat :=
  match a with
  | some x => if x = 0 then b else some x
  | none => b

/-- membership in FINEST_PRICES = make_prices(1.01, ((1000, 100),)) -/
def inFinest (p : Rat) : Bool := twoDp p && decide (Gen.minPrice ≤ p) && decide (p ≤ Gen.maxPrice)

def onLadder (l : LadderDef) (p : Rat) : Bool :=
  match l with
  | .classic => prices.contains p
  | .finest => inFinest p
  | .lineRange lo hi iv => (makeLinePrices lo hi iv).contains p

def validateSize (size : Option Rat) : Option String :=
  match size with
  | none => some "Order size is None"
  | some s =>
    if s ≤ 0 then some "Order size is less than 0"
    else if !twoDp s then some "Order size has more than 2dp"
    else none

def validateBetfairPrice (price : Option Rat) (l : LadderDef) : Option String :=
  match price with
  | none => some "Order price is None"
  | some p =>
    if onLadder l p then none
    else match l with
      | .classic => some "Order price is not valid for CLASSIC ladder"
      | .finest => some "Order price is not valid for FINEST ladder"
      | .lineRange .. => some "Order price is not valid for LINE_RANGE ladder"

def validateLiability (liab : Option Rat) : Option String :=
  match liab with
  | none => some "Order liability is None"
  | some l =>
    if l ≤ 0 then some "Order liability is less than 0"
    else if !twoDp l then some "Order liability has more than 2dp"
    else none

def validateMinLimit (c : ClientParams) (price size : Rat) : Option String :=
  if !c.minBetValidation then none
  else if size < c.minBetSize && price * size < c.minBetPayout then
    some "Order size is less than min bet size or payout for currency"
  else none

def validateMinSp (c : ClientParams) (side : Side) (liab : Rat) : Option String :=
  if !c.minBetValidation then none
  else match side with
    | .back => if liab < c.minBetSize then some "Liability is less than min bet size for currency" else none
    | .lay => if liab < c.minBspLiability then some "Liability is less than min BSP payout for currency" else none

def firstErr (a : Option String) (b : Unit → Option String) : Option String :=
  match a with
  | some e => some e
  | none => b ()

def validateOrder (c : ClientParams) : VOrder → Option String
  | .limit _ price size target ladder =>
    let sz := pyOr size target
    firstErr (validateSize sz) fun _ =>
    firstErr (validateBetfairPrice price ladder) fun _ =>
      match price, sz with
      | some p, some s => validateMinLimit c p s
      | _, _ => none
  | .limitOnClose side liab price ladder =>
    firstErr (validateBetfairPrice price ladder) fun _ =>
    firstErr (validateLiability liab) fun _ =>
      match liab with
      | some l => validateMinSp c side l
      | none => none
  | .marketOnClose side liab =>
    firstErr (validateLiability liab) fun _ =>
      match liab with
      | some l => validateMinSp c side l
      | none => none
  | .betdaqLimit _ price size =>
    firstErr (validateSize size) fun _ =>
      match price with
      | none => some "Order price is None"
      | some p => if betdaqPrices.contains p then none
                  else some "Order price is not valid for BETDAQ ladder"

end Flumine
