/- DriverMerge.lean — line-protocol commands for the run-sequence / listener-filter model (driver only). -/
import Flumine.Merge
import Flumine.Proto
namespace Flumine.DriverMerge
open Flumine.Merge Flumine.Proto

/-- stream = `id:group:pt+pt+...` (group `-` = none, no updates = `.`) -/
def parseStream? (s : String) : Option Stream :=
  match s.splitOn ":" with
  | [id, g, pts] => do
    let i ← id.toNat?
    let grp ← if g = "-" then some none else g.toNat?.map some
    let ps ← if pts = "." then some [] else (pts.splitOn "+").mapM parseInt?
    some { id := i, group := grp, updates := (ps.zipIdx).map fun (p, k) => { stream := i, pt := p, seq := k } }
  | _ => none

def showUpd (u : Upd) : String := toString u.stream ++ "@" ++ toString u.pt ++ "@" ++ toString u.seq

def parseStatus? : String → Option MStatus
  | "OPEN" => some .open_ | "SUSPENDED" => some .suspended | "CLOSED" => some .closed | "INACTIVE" => some .inactive | _ => none

/-- raw update = `pt:status:inplay:marketTime` -/
def parseRaw? (s : String) : Option RawUpd :=
  match s.splitOn ":" with
  | [pt, st, ip, mt] => do
    some { pt := ← parseInt? pt, status := ← parseStatus? st, inPlay := ← parseBool? ip, marketTime := ← parseInt? mt }
  | _ => none

def parseOptNat? (s : String) : Option (Option Nat) := if s = "-" then some none else s.toNat?.map some

def handle (toks : List String) : Option String := do
  match toks with
  | ["merge.run", streams] =>
    let ss ← (streams.splitOn ";").mapM parseStream?
    some (showList showUpd (runSeq ss))
  | ["merge.filter", inplay, sts, mis, raws] =>
    let ip ← if inplay = "-" then some none else (parseBool? inplay).map some
    let cfg : ListenerCfg := { inplay := ip, secondsToStart := ← parseOptNat? sts, maxInplaySeconds := ← parseOptNat? mis }
    let us ← parseList? parseRaw? raws
    some (showList (fun (u : RawUpd) => toString u.pt) (filterRun cfg {} us))
  | _ => none

end Flumine.DriverMerge
