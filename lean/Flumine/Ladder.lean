/-
  Ladder.lean — price ladders and price helpers (flumine/utils.py):
  make_prices, get_nearest_price, price_ticks_away, make_line_prices.
  All values are exact rationals; the Python acts on `Decimal(str(x))`, i.e. on the
  decimal repr of the float, which is what the driver receives.
-/
import Flumine.Num
import Flumine.Generated
namespace Flumine

/-- `arange(start, stop, step)` on Decimals: start, start+step, ... while `< stop`.
    Closed form of the while loop (exact arithmetic): `n = ceil((stop-start)/step)` elements. -/
def arangeCount (start stop step : Rat) : Nat :=
  if step ≤ 0 then 0 else
  if stop ≤ start then 0 else (-((-((stop - start) / step)).floor)).toNat

def arange (start stop step : Rat) : List Rat :=
  (List.range (arangeCount start stop step)).map (fun (i : Nat) => start + (i : Rat) * step)

/-- `make_prices(min_price, cutoffs)`; rows are (cutoff, step, incr) with incr = dec(1/step). -/
def makePricesAux : Rat → List (Rat × Rat × Rat) → List Rat
  | _, [] => []
  | cursor, (cutoff, _, incr) :: rest => arange cursor cutoff incr ++ makePricesAux cutoff rest

def makePrices (minPrice maxPrice : Rat) (cutoffs : List (Rat × Rat × Rat)) : List Rat :=
  makePricesAux minPrice cutoffs ++ [maxPrice]

def prices : List Rat := makePrices Gen.minPrice Gen.maxPrice Gen.cutoffs
def betdaqPrices : List Rat := makePrices Gen.betdaqMinPrice Gen.maxPrice Gen.betdaqCutoffs

/-- the `for cutoff, step in cutoffs: if price < cutoff: break` loop; `step` keeps the
    value of the last row visited (the last row when no cutoff exceeds the price). -/
def findStep (price : Rat) : List (Rat × Rat × Rat) → Rat → Rat
  | [], last => last
  | (cutoff, step, _) :: rest, _ => if price < cutoff then step else findStep price rest step

/-- `get_nearest_price(price, cutoffs)` -/
def nearestPrice (price : Rat) (cutoffs : List (Rat × Rat × Rat) := Gen.cutoffs) : Rat :=
  if price ≤ Gen.minPrice then Gen.minPrice
  else if Gen.maxPrice < price then Gen.maxPrice
  else
    let step := findStep price cutoffs 1
    (roundHalfUp (price * step) : Rat) / step

def indexOf? (x : Rat) : List Rat → Nat → Option Nat
  | [], _ => none
  | y :: ys, i => if x = y then some i else indexOf? x ys (i + 1)

/-- `price_ticks_away(price, n_ticks, prices)`; `none` = the ValueError raised by
    `list.index` for a price that is not on the ladder. -/
def ticksAway (price : Rat) (n : Int) (ps : List Rat := prices) : Option Rat :=
  match indexOf? price ps 0 with
  | none => none
  | some i =>
    let j : Int := (i : Int) + n
    if j < 0 then some (101 / 100)
    else match ps[j.toNat]? with
      | some p => some p
      | none => some 1000

/-- `make_line_prices(min_unit, max_unit, interval)` (fuel bounds the `while True`). -/
def makeLinePricesAux (maxUnit interval : Rat) : Nat → Rat → List Rat
  | 0, _ => []
  | fuel + 1, price =>
    let p := price + interval
    if maxUnit < p then [] else p :: makeLinePricesAux maxUnit interval fuel p

def makeLinePrices (minUnit maxUnit interval : Rat) : List Rat :=
  let fuel : Nat := if interval ≤ 0 then 0 else ((maxUnit - minUnit) / interval).floor.toNat + 1
  minUnit :: makeLinePricesAux maxUnit interval fuel minUnit

end Flumine
