/-
  SimLoop.lean — flumine/simulation/simulation.py (_process_market_books, _process_simulated_orders),
  flumine/baseflumine.py (_process_close_market, _add_market, _remove_market, cleared events),
  flumine/markets/blotter.py (process_closed_market), flumine/markets/market.py (cleared),
  SimulatedOrder.profit, and the scripted strategy used by the correspondence check.
-/
import Flumine.Mw
namespace Flumine
open World

/-! ### settlement -/

/-- `self.order.number_of_dead_heat_winners or 1` -/
def deadHeatCount (o : Order) : Nat :=
  match o.deadHeat with
  | some k => if k = 0 then 1 else k
  | none => 1

/-- `SimulatedOrder.profit` -/
def simProfit (o : Order) : Rat :=
  let s := o.sim
  let n : Nat := deadHeatCount o
  if o.marketType = some "EACH_WAY" then
    let divisor := o.ewDivisor.getD 1
    let win := s.sizeMatched * (s.avgPrice - 1)
    let place := s.sizeMatched * ((s.avgPrice - 1) * (1 / divisor))
    match o.runnerStatus with
    | some .winner => let p := round2 (win + place); if s.side = .back then p else -p
    | some .placed => if s.side = .back then round2 (place - s.sizeMatched) else round2 (s.sizeMatched - place)
    | some .loser => let m := round2 (s.sizeMatched * 2); if s.side = .back then -m else m
    | _ => 0
  else if s.kind = .limit ∧ o.ladder = .lineRange then
    match o.lineResult with
    | none => 0
    | some lr =>
      let price := s.avgPrice
      if price = lr then 0     -- stake returned (fix c11f0ea)
      else if (s.side = .back ∧ lr < price) ∨ (s.side = .lay ∧ price < lr) then round2 (s.sizeMatched * (2 - 1))
      else -s.sizeMatched
  else
    match o.runnerStatus with
    | some .winner =>
      let p0 := (s.sizeMatched / n) * (s.avgPrice - 1)
      let p1 := if n = 2 then p0 - s.sizeMatched / n
                else if n > 2 then p0 - s.sizeMatched * ((n : Rat) - 1) / n else p0
      round2 (if s.side = .lay then -p1 else p1)
    | some .loser => if s.side = .back then -s.sizeMatched else s.sizeMatched
    | _ => 0

namespace World

/-- `Blotter.process_closed_market(market, market_book)` -/
def blotterProcessClosed (w : World) (mid : Nat) (book : Book) : World :=
  let nWinners := (book.runners.filter (·.status = .winner)).length
  let m := w.market! mid
  m.blotter.foldl (fun w oid =>
    let o := w.order! oid
    match runnerOf book o.sel o.hc with
    | none => w
    | some r =>
      let dh : Option Nat :=
        if book.winners = 0 then some 1
        else if nWinners > book.winners then some nWinners else none
      let lr : Option Rat :=
        if o.sim.kind = .limit ∧ o.ladder = .lineRange then
          (match m.lineRangeResult with | some x => if x ≠ 0 then some x else o.lineResult | none => o.lineResult)
        else o.lineResult
      w.setOrder { o with runnerStatus := some r.status, marketType := some book.marketType,
                          ewDivisor := book.ewDivisor, deadHeat := dh, lineResult := lr }) w

/-- `Market.cleared(client)` → (profit, commission, betCount) -/
def marketCleared (w : World) (mid cid : Nat) : Rat × Rat × Nat :=
  let os := (((w.market! mid).blotter.map w.order!).filter fun o => o.blotterClient = some cid ∧ 0 < o.sim.sizeMatched)
  let profit := round2 (sumRat (os.map simProfit))
  let commission := round2 (ratMax (profit * (w.client! cid).commission) 0)
  (profit, commission, os.length)

/-- the `strategy.process_closed_market` calls of one closing update: one per strategy that is
    subscribed to the book's stream or has an empty market filter, in registration order -/
def closeCallbacks (w : World) (mid : Nat) (book : Book) : List Ev :=
  (w.strategies.filter fun s => s.streams.contains book.streamId || s.emptyFilter).map
    fun s => .closedCallback s.id mid book.pt

/-- the simulated ClearedOrdersMetaEvent (only when the blotter has orders) and one
    ClearedMarketsEvent per client, in client order -/
def clearedEvents (w : World) (mid : Nat) : List Ev :=
  let n := (w.market! mid).blotter.length
  (if n ≠ 0 then [Ev.clearedOrders mid n] else []) ++
    w.clients.map fun c => Ev.clearedMarket mid c.id (w.marketCleared mid c.id).1 (w.marketCleared mid c.id).2.1 (w.marketCleared mid c.id).2.2

/-- `BaseFlumine._process_close_market` (resource form, simulated clients) -/
def processCloseMarket (w : World) (mid : Nat) (book : Book) : World :=
  match w.market? mid with
  | none => w.emit (.warnNoMarket mid)
  | some m =>
    let w := if !m.closed then w.modifyMarket mid fun m => { m with closed := true, closedAt := some w.clock } else w
    -- market(market_book); blotter.process_closed_market
    let w := w.modifyMarket mid fun m => { m with book := some book }
    let w := w.blotterProcessClosed mid book
    -- callbacks, then the simulated cleared events, then the close event itself goes to the logging controls
    let w := { w with out := w.out ++ w.closeCallbacks mid book ++ w.clearedEvents mid ++ [Ev.closeEvent mid] }
    -- simulated: _remove_market(market, clear=False): middleware.remove_market, strategy.remove_market
    let w := w.modifyMarket mid fun m => { m with analytics := [], hasAnalytics := false }
    { w with ctxs := w.ctxs.filter fun c => c.key.market ≠ mid }

/-- `FlumineSimulation._process_simulated_orders(market)`; the strategies' `process_orders`
    callbacks are recorded as events -/
def processSimulatedOrders (w : World) (mid : Nat) : World :=
  let live := (w.market! mid).live
  let w := live.foldl (fun w oid =>
    let o := w.order! oid
    if o.complete then w.blotterComplete mid oid
    else match o.sim.kind with
      | .limit =>
        if o.sim.sizeRemaining = 0 then (w.orderExecutionComplete oid).blotterComplete mid oid else w
      | _ =>
        if o.sim.simStatus = .executionComplete then (w.orderExecutionComplete oid).blotterComplete mid oid else w) w
  w.strategies.foldl (fun w s =>
    let n := (w.strategyOrders mid s.id).length
    if n ≠ 0 then w.emit (.processOrders s.id mid n) else w) w

/-! ### scripted strategy actions (performed inside process_market_book) -/

/-- which order a scripted request is about: a creation index, or the latest order of a trade
    (`trade.orders[-1]`, which is how a script reaches replacement orders) -/
inductive Target
  | byId (oid : Nat)
  | lastOfTrade (tid : Nat)
  deriving Repr, Inhabited

def Target.resolve (w : World) : Target → Nat
  | .byId oid => oid
  | .lastOfTrade tid => ((w.trade! tid).orders.getLast?).getD w.orders.length

/-- the script refers to an order / trade that does not exist (yet) -/
def Target.missing (w : World) : Target → Bool
  | .byId oid => decide (w.orders.length ≤ oid)
  | .lastOfTrade tid => (w.trade? tid).isNone || (w.trade! tid).orders.isEmpty ||
      decide (w.orders.length ≤ ((w.trade! tid).orders.getLast?).getD w.orders.length)

inductive Action
  | create (o : Order) (newTrade : Option Trade)       -- trade.create_order (and the Trade when new)
  | place (tg : Target) (marketVersion : Option Int) (force : Bool)
  | cancel (tg : Target) (red : Option Rat) (force : Bool)
  | update (tg : Target) (pers : String) (force : Bool)
  | replace (tg : Target) (price : Rat) (marketVersion : Option Int) (force : Bool)
  | batchBegin (client : Nat)
  | batchExecute
  | batchEnd
  deriving Repr, Inhabited

def Action.target? : Action → Option Target
  | .place tg _ _ => some tg
  | .cancel tg _ _ => some tg
  | .update tg _ _ => some tg
  | .replace tg _ _ _ => some tg
  | _ => none

/-- perform one scripted action; `batch` is the open transaction of a `with market.transaction()`
    block if any.  Returns the result string the real call produced (return value / exception). -/
def doActionCore (w : World) (mid : Nat) (batch : Option Txn) (a : Action) : World × Option Txn × String :=
  let direct (client : Nat) (f : World → Txn → World × Txn × ReqResult) : World × Option Txn × String :=
    match batch with
    | some t =>
      let (w, t, r) := f w t
      (w, some t, r.name)
    | none =>
      let (w, t, r) := f w { market := mid, client := client }
      -- `with self.transaction(...) as t:` exits (also when the call raised)
      (w.txnExit t, none, r.name)
  if (a.target?.map (·.missing w)).getD false then (w, batch, "no-such-order") else
  match a with
  | .create o tr =>
    let w := match tr with
      | some t => { w with trades := w.trades ++ [t] }
      | none => w
    -- a new order object: no status yet, not complete (`BaseOrder.__init__`)
    let o := { o with id := w.orders.length, created := w.clock, statusAt := w.clock, status := none, complete := false, log := [] }
    let t := w.trade! o.trade
    (({ w with orders := w.orders ++ [o] }).setTrade { t with orders := t.orders ++ [o.id] }, batch, "created")
  | .place tg v force => direct ((w.clients.head?.map (·.id)).getD 0) fun w t => w.txnPlace t (tg.resolve w) v true force
  | .cancel tg red force => direct ((w.order! (tg.resolve w)).client.getD ((w.clients.head?.map (·.id)).getD 0)) fun w t => w.txnCancel t (tg.resolve w) red force
  | .update tg pers force => direct ((w.order! (tg.resolve w)).client.getD ((w.clients.head?.map (·.id)).getD 0)) fun w t => w.txnUpdate t (tg.resolve w) pers force
  | .replace tg price v force => direct ((w.order! (tg.resolve w)).client.getD ((w.clients.head?.map (·.id)).getD 0)) fun w t => w.txnReplace t (tg.resolve w) price v force
  | .batchBegin client =>
    -- (a script that opens a block while one is open leaves the first one first: `with` blocks are closed in the order they were opened)
    match batch with
    | some t => (w.txnExit t, some ({ market := mid, client := client } : Txn), "begin")
    | none => (w, some ({ market := mid, client := client } : Txn), "begin")
  | .batchExecute =>
    match batch with
    | some t => let (w, t) := w.txnExecute t; (w, some t, "executed")
    | none => (w, none, "no-batch")
  | .batchEnd =>
    match batch with
    | some t => (w.txnExit t, none, "end")
    | none => (w, none, "no-batch")

/-- the request addresses an existing order through a market that is not the order's own
    (`market.place_order(order)` with `order.market_id != market.market_id`): flumine does not check it -/
def Action.foreign (a : Action) (w : World) (mid : Nat) : Bool :=
  match a.target? with
  | some tg => !tg.missing w && decide ((w.order! (tg.resolve w)).market ≠ mid)
  | none => false

/-- ghost bookkeeping (no effect on behaviour): count the foreign requests of the run -/
def noteForeign (w : World) (mid : Nat) (a : Action) : World :=
  if a.foreign w mid then { w with foreign := w.foreign + 1 } else w

def doAction (w : World) (mid : Nat) (batch : Option Txn) (a : Action) : World × Option Txn × String :=
  (w.noteForeign mid a).doActionCore mid batch a

def doActions (w : World) (mid : Nat) (as : List Action) : World × List String :=
  let (w, batch, outs) := as.foldl (fun (acc : World × Option Txn × List String) a =>
    let (w, b, outs) := acc
    let (w, b, r) := w.doAction mid b a
    (w, b, outs ++ [r])) (w, none, [])
  match batch with
  | some t => (w.txnExit t, outs)
  | none => (w, outs)

/-- `self.simulated_datetime(market_book.publish_time)`: the framework clock is the publish time -/
def setClock (w : World) (pt : Time) : World := { w with clock := pt }

/-- `FlumineSimulation._process_market_books` for one market book.  `script s` gives the actions
    strategy `s` performs in its process_market_book callback for this update. -/
def processMarketBook (w : World) (mid : Nat) (book : Book) (script : Nat → List Action) : World × List (Nat × List String) :=
  let w := w.setClock book.pt
  let w := if w.queue.isEmpty then w else w.checkPendingPackages mid
  if book.status = .closed then (w.processCloseMarket mid book, [])
  else
    let isNew := (w.market? mid).isNone
    let w := if isNew then ({ w with markets := w.markets ++ [({ id := mid, book := some book } : Market)] } : World).emit (.marketEvent mid)
             else if (w.market! mid).closed then w.modifyMarket mid fun m => { m with closed := false }
             else w
    let w := w.modifyMarket mid fun m => { m with book := some book }
    let w := w.simulatedMiddleware mid
    let w := if (w.market! mid).active then w.processSimulatedOrders mid else w
    w.strategies.foldl (fun (acc : World × List (Nat × List String)) s =>
      let (w, outs) := acc
      if s.streams.contains book.streamId then
        let w := if isNew then w.emit (.newMarket s.id mid) else w
        let w := w.emit (.bookCallback s.id mid book.pt)
        let (w, rs) := w.doActions mid (script s.id)
        (w, outs ++ [(s.id, rs)])
      else (w, outs)) (w, [])

end World
end Flumine
