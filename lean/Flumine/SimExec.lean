/-
  SimExec.lean — flumine/execution/simulatedexecution.py (execute_place / cancel / update / replace),
  BaseExecution._order_logger, Trade.create_order_replacement, BaseOrderPackage.orders /
  replace_instructions (both filter *at read time*).
-/
import Flumine.Txn
namespace Flumine
open World

namespace World

/-- `BaseOrderPackage.orders`: the package's orders that are not VIOLATION, evaluated now -/
def packageOrders (w : World) (p : Package) : List Nat :=
  p.orders.filter fun oid => (w.order! oid).status ≠ some .violation

def runnerOf (b : Book) (sel : Nat) (hc : Rat) : Option Runner :=
  b.runners.find? fun r => r.sel = sel ∧ r.hc = hc

/-- `_order_logger(order, response, PLACE)` for a simulated response -/
def logPlaced (w : World) (oid : Nat) (betId : Option Nat) : World :=
  let w := w.modifyOrder oid fun o => { o with placedAt := some w.clock }
  match betId with
  | some b => (w.modifyOrder oid fun o => { o with betId := some b }).emit (.orderEvent oid)
  | none => w

/-- `self._bet_id += 1` -/
def bumpBetId (w : World) : World := { w with betId := w.betId + 1 }

/-- `order.simulated.place(order_package, market_book, instruction, self._bet_id)` for order `o` in world `w` -/
def placeResponse (p : Package) (w : World) (o : Order) : SimOrder × SimOrder.PlaceResp :=
  let book := (w.market! p.market).book.getD {}
  let runner := (runnerOf book o.sel o.hc).getD { sel := o.sel }
  o.sim.place p.marketVersion (w.client! p.client).bpe (w.client! (o.client.getD 0)).fullMatch book.view runner.view
    o.fok o.minFill w.betId

/-- the body of the `execute_place` loop for one order of the package -/
def placeStep (p : Package) (w : World) (oid : Nat) : World :=
  let o := w.order! oid
  let w := (w.tradeEnter o.trade).bumpBetId
  let pr := placeResponse p w o
  let w := w.modifyOrder oid fun o => { o with sim := pr.1 }
  let w := w.logPlaced oid pr.2.betId
  let w := match pr.2.status with
    | .success => w.orderExecutable oid
    | .failure => w.orderExecutionComplete oid
  w.tradeExit o.trade

/-- `SimulatedExecution.execute_place` -/
def executePlace (w : World) (p : Package) : World :=
  let w := (w.packageOrders p).foldl (placeStep p) w
  w.addTransaction p.client (w.packageOrders p).length

/-- the body of the `execute_cancel` loop for one order (world, failed count) -/
def cancelStep (p : Package) (acc : World × Nat) (oid : Nat) : World × Nat :=
  let (w, failed) := acc
  let o := w.order! oid
  let w := w.tradeEnter o.trade
  let book := ((w.market! p.market).book).getD {}
  let red := if o.ud.hasReduction then o.ud.sizeReduction else none
  let (sim', resp) := o.sim.cancel book.status red
  let w := w.modifyOrder oid fun o => { o with sim := sim', cancelResponses := o.cancelResponses + 1 }
  let (w, failed) := match resp.status with
    | .success =>
      if (w.order! oid).sim.sizeRemaining = 0 then (w.orderExecutionComplete oid, failed)
      else (w.orderExecutable oid, failed)
    | .failure => (w.orderExecutable oid, failed + 1)
  (w.tradeExit o.trade, failed)

/-- `SimulatedExecution.execute_cancel` -/
def executeCancel (w : World) (p : Package) : World :=
  let (w, failed) := (w.packageOrders p).foldl (cancelStep p) (w, 0)
  if failed ≠ 0 then w.addTransaction p.client failed true else w

/-- the body of the `execute_update` loop for one order -/
def updateStep (p : Package) (acc : World × Nat) (oid : Nat) : World × Nat :=
  let (w, failed) := acc
  let o := w.order! oid
  let w := w.tradeEnter o.trade
  let book := ((w.market! p.market).book).getD {}
  let (sim', st, _) := o.sim.update book.view o.sim.persistence
  let w := w.modifyOrder oid fun o => { o with sim := sim', updateResponses := o.updateResponses + 1 }
  let w := w.orderExecutable oid
  let failed := if st = .failure then failed + 1 else failed
  (w.tradeExit o.trade, failed)

/-- `SimulatedExecution.execute_update` -/
def executeUpdate (w : World) (p : Package) : World :=
  let (w, failed) := (w.packageOrders p).foldl (updateStep p) (w, 0)
  if failed ≠ 0 then w.addTransaction p.client failed true else w

/-- `Trade.create_order_replacement(order, new_price, size, date_time_created)` -/
def createReplacement (w : World) (oid : Nat) (newPrice size : Rat) (created : Time) : World × Nat :=
  let o := w.order! oid
  let nid := w.orders.length
  let r : Order :=
    { id := nid, trade := o.trade, strategy := o.strategy, client := o.client, market := o.market, sel := o.sel,
      hc := o.hc, created := created, statusAt := w.clock,
      sim := { side := o.sim.side, kind := .limit, price := newPrice, size := size, persistence := o.sim.persistence } }
  let t := w.trade! o.trade
  (({ w with orders := w.orders ++ [r] }).setTrade { t with orders := t.orders ++ [nid] }, nid)

/-- the place half of a simulated replace, after the cancel half succeeded: the old order completes, a
    replacement order is created and placed at once (`market.place_order(..., execute=False)`) -/
def replacePlace (p : Package) (w : World) (o : Order) (oid : Nat) (book : Book) (newPrice : Option Rat)
    (sizeCancelled : Rat) (failed : Nat) : World × Nat :=
  let w := (w.orderExecutionComplete oid).bumpBetId
  let cr := w.createReplacement oid (newPrice.getD 0) sizeCancelled p.created
  let rid := cr.2
  let w := cr.1
  let r := w.order! rid
  let c := w.client! p.client
  let runner := (runnerOf book r.sel r.hc).getD { sel := r.sel }
  let pr := r.sim.place p.marketVersion c.bpe (w.client! (r.client.getD 0)).fullMatch book.view runner.view false none w.betId
  let w := w.modifyOrder rid fun x => { x with sim := pr.1 }
  match pr.2.status with
  | .success =>
    let w := w.modifyOrder rid fun x => { x with placedAt := some w.clock, betId := pr.2.betId }
    let w := w.emit (.orderEvent rid)
    -- market.place_order(replacement, execute=False, client=order.client)
    let tp := w.txnPlace { market := p.market, client := o.client.getD ((w.clients.head?.map (·.id)).getD 0) } rid none false false
    let w := tp.1.orderExecutable rid
    (w.tradeExit o.trade, failed)
  | .failure => (((w.orderExecutionComplete rid).orderExecutable oid).tradeExit o.trade, failed)

/-- the body of the `execute_replace` loop for one (order, instruction) pair -/
def replaceStep (p : Package) (acc : World × Nat) (pr : Nat × Option Rat) : World × Nat :=
  let (w, failed) := acc
  let (oid, newPrice) := pr
  let o := w.order! oid
  let w := w.tradeEnter o.trade
  let book := ((w.market! p.market).book).getD {}
  let red := if o.ud.hasReduction then o.ud.sizeReduction else none
  let cr := o.sim.cancel book.status red
  let w := w.modifyOrder oid fun o => { o with sim := cr.1, cancelResponses := o.cancelResponses + 1 }
  match cr.2.status with
  | .failure => ((w.orderExecutable oid).tradeExit o.trade, failed + 1)
  | .success => replacePlace p w o oid book newPrice cr.2.sizeCancelled failed

/-- `SimulatedExecution.execute_replace`; instructions come from `replace_instructions`, which skips
    EXECUTION_COMPLETE orders; they are paired with the orders that were not skipped -/
def executeReplace (w : World) (p : Package) : World :=
  -- the orders that have not completed since the request, each with its own instruction (fix of the positional pairing)
  let live := (w.packageOrders p).filter fun oid => (w.order! oid).status ≠ some .executionComplete
  let (w, failed) := (live.map fun oid => (oid, (w.order! oid).ud.newPrice)).foldl (replaceStep p) (w, 0)
  let w := w.addTransaction p.client live.length      -- the instructions that were sent
  if failed ≠ 0 then w.addTransaction p.client failed true else w

/-- `SimulatedExecution.handler` -/
def executePackage (w : World) (p : Package) : World :=
  match p.kind with
  | .place => w.executePlace p
  | .cancel => w.executeCancel p
  | .update => w.executeUpdate p
  | .replace => w.executeReplace p

/-- `FlumineSimulation._check_pending_packages(market_id)` -/
def checkPendingPackages (w : World) (mid : Nat) : World :=
  let due := w.queue.filter fun p => p.market = mid ∧ p.delay < elapsedSeconds w.clock p.created
  let w := due.foldl (fun w p => w.executePackage p) w
  { w with queue := w.queue.filter fun p => !(due.any (·.id = p.id)) }

end World
end Flumine
