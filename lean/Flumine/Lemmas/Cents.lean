/- Lemmas/Cents.lean — 2dp amounts ("cents") and further facts about `round2`. -/
import Flumine.Num
import Flumine.Lemmas.Round
import Mathlib.Tactic.Linarith
import Mathlib.Tactic.Ring
import Mathlib.Tactic.SplitIfs
import Mathlib.Tactic.Push
namespace Flumine

/-- an amount with at most two decimals -/
def IsCents (x : Rat) : Prop := ∃ n : Int, x = (n : Rat) / 100

theorem IsCents.zero : IsCents 0 := ⟨0, by simp⟩

theorem IsCents.add {x y : Rat} (hx : IsCents x) (hy : IsCents y) : IsCents (x + y) := by
  obtain ⟨a, rfl⟩ := hx; obtain ⟨b, rfl⟩ := hy
  exact ⟨a + b, by push_cast; ring⟩

theorem IsCents.sub {x y : Rat} (hx : IsCents x) (hy : IsCents y) : IsCents (x - y) := by
  obtain ⟨a, rfl⟩ := hx; obtain ⟨b, rfl⟩ := hy
  exact ⟨a - b, by push_cast; ring⟩

theorem IsCents.neg {x : Rat} (hx : IsCents x) : IsCents (-x) := by
  obtain ⟨a, rfl⟩ := hx
  exact ⟨-a, by push_cast; ring⟩

theorem IsCents.ratMax {x y : Rat} (hx : IsCents x) (hy : IsCents y) : IsCents (ratMax x y) := by
  unfold Flumine.ratMax; split_ifs <;> assumption

theorem IsCents.ratMin {x y : Rat} (hx : IsCents x) (hy : IsCents y) : IsCents (ratMin x y) := by
  unfold Flumine.ratMin; split_ifs <;> assumption

theorem roundHalfEven_int (n : Int) : roundHalfEven (n : Rat) = n := by
  unfold roundHalfEven
  have hf : (n : Rat).floor = n := Rat.floor_intCast n
  simp only [hf, sub_self]
  norm_num

theorem round2_isCents (x : Rat) : IsCents (round2 x) := ⟨roundHalfEven (x * 100), rfl⟩

/-- rounding an amount that already has two decimals changes nothing -/
theorem round2_of_isCents {x : Rat} (hx : IsCents x) : round2 x = x := by
  obtain ⟨n, rfl⟩ := hx
  unfold round2
  have : (n : Rat) / 100 * 100 = (n : Rat) := by ring
  rw [this, roundHalfEven_int]

theorem round2_idem (x : Rat) : round2 (round2 x) = round2 x := round2_of_isCents (round2_isCents x)

theorem round2_zero : round2 0 = 0 := round2_of_isCents IsCents.zero

theorem roundHalfEven_mono {x y : Rat} (h : x ≤ y) : roundHalfEven x ≤ roundHalfEven y := by
  have hx1 := Rat.floor_le x
  have hx2 := Rat.lt_floor_add_one x
  have hy1 := Rat.floor_le y
  have hy2 := Rat.lt_floor_add_one y
  push_cast at hx2 hy2
  have hfl : x.floor ≤ y.floor := by
    rw [Rat.le_floor_iff]; linarith
  -- both results lie in {floor, floor+1}
  have bx : x.floor ≤ roundHalfEven x ∧ roundHalfEven x ≤ x.floor + 1 := by
    unfold roundHalfEven; simp only; split_ifs <;> constructor <;> omega
  have by_ : y.floor ≤ roundHalfEven y ∧ roundHalfEven y ≤ y.floor + 1 := by
    unfold roundHalfEven; simp only; split_ifs <;> constructor <;> omega
  rcases lt_or_eq_of_le hfl with hlt | heq
  · omega
  · -- same floor: compare the fractional parts
    unfold roundHalfEven
    simp only [heq]
    have hr : x - (y.floor : Rat) ≤ y - (y.floor : Rat) := by linarith
    rw [← heq] at hr ⊢
    rw [heq] at hr ⊢
    split_ifs with a b c d e f g <;> first | omega | (exfalso; linarith) | (rw [heq] at *; omega)

theorem round2_mono {x y : Rat} (h : x ≤ y) : round2 x ≤ round2 y := by
  unfold round2
  have : roundHalfEven (x * 100) ≤ roundHalfEven (y * 100) := roundHalfEven_mono (by linarith)
  have h2 : (roundHalfEven (x * 100) : Rat) ≤ (roundHalfEven (y * 100) : Rat) := by exact_mod_cast this
  have e1 : (roundHalfEven (x * 100) : Rat) / 100 = (roundHalfEven (x * 100) : Rat) * (1 / 100) := by ring
  have e2 : (roundHalfEven (y * 100) : Rat) / 100 = (roundHalfEven (y * 100) : Rat) * (1 / 100) := by ring
  rw [e1, e2]; linarith

theorem round2_nonneg {x : Rat} (h : 0 ≤ x) : 0 ≤ round2 x := by
  have := round2_mono h
  rwa [round2_zero] at this

theorem roundHalfEven_small (y : Rat) (h1 : -(1 / 2) ≤ y) (h2 : y ≤ 1 / 2) : roundHalfEven y = 0 := by
  unfold roundHalfEven
  have hf1 := Rat.floor_le y
  have hf2 := Rat.lt_floor_add_one y
  push_cast at hf2
  have hfl : y.floor = 0 ∨ y.floor = -1 := by
    have a : (-1 : Int) ≤ y.floor := by rw [Rat.le_floor_iff]; push_cast; linarith
    have b : y.floor < 1 := by rw [Rat.floor_lt_iff]; push_cast; linarith
    omega
  rcases hfl with e | e
  · simp only [e]; push_cast
    split_ifs with a b c <;> first | rfl | (exfalso; push_cast at *; linarith) | omega
  · simp only [e]; push_cast
    split_ifs with a b c <;> first | rfl | (exfalso; push_cast at *; linarith) | omega

theorem round2_residual (x : Rat) : round2 (x - round2 x) = 0 := by
  have h := round2_err x
  rw [absR_le_iff] at h
  have : roundHalfEven ((x - round2 x) * 100) = 0 := by
    apply roundHalfEven_small <;> linarith [h.1, h.2]
  unfold round2 at this ⊢
  rw [this]; simp


end Flumine
