/- Lemmas/Len.lean — functions that work in place on the order table: requests, controls, packaging, middleware,
   completion loop and closure create no order (`orders.length` unchanged).  Orders are created by `create` actions and
   by the replace handler only. -/
import Flumine.SimLoop
import Mathlib.Tactic.SplitIfs
namespace Flumine.Len
open Flumine Flumine.World

@[simp] theorem modifyOrder_len (w : World) (a : Nat) (f : Order → Order) : (w.modifyOrder a f).orders.length = w.orders.length := by
  unfold modifyOrder; simp
@[simp] theorem setOrder_len (w : World) (o : Order) : (w.setOrder o).orders.length = w.orders.length := by
  unfold setOrder; simp
@[simp] theorem setTrade_len (w : World) (t : Trade) : (w.setTrade t).orders.length = w.orders.length := rfl
@[simp] theorem setMarket_len (w : World) (m : Market) : (w.setMarket m).orders.length = w.orders.length := rfl
@[simp] theorem setClient_len (w : World) (c : Client) : (w.setClient c).orders.length = w.orders.length := rfl
@[simp] theorem modifyMarket_len (w : World) (a : Nat) (f : Market → Market) : (w.modifyMarket a f).orders.length = w.orders.length := rfl
@[simp] theorem emit_len (w : World) (e : Ev) : (w.emit e).orders.length = w.orders.length := rfl
@[simp] theorem bumpBetId_len (w : World) : w.bumpBetId.orders.length = w.orders.length := rfl
@[simp] theorem addTransaction_len (w : World) (c n : Nat) (f : Bool) : (w.addTransaction c n f).orders.length = w.orders.length := rfl
@[simp] theorem blotterAdd_len (w : World) (m o : Nat) : (w.blotterAdd m o).orders.length = w.orders.length := by
  unfold blotterAdd; simp
@[simp] theorem blotterComplete_len (w : World) (m o : Nat) : (w.blotterComplete m o).orders.length = w.orders.length := rfl
@[simp] theorem setClock_len (w : World) (t : Time) : (w.setClock t).orders.length = w.orders.length := rfl

@[simp] theorem setCtx_len (w : World) (c : RunnerCtx) : (w.setCtx c).orders.length = w.orders.length := by
  unfold setCtx; split <;> rfl
@[simp] theorem ctxPlace_len (w : World) (k : CtxKey) (t : Nat) : (w.ctxPlace k t).orders.length = w.orders.length := setCtx_len _ _
@[simp] theorem ctxReset_len (w : World) (k : CtxKey) (t : Nat) : (w.ctxReset k t).orders.length = w.orders.length := setCtx_len _ _
@[simp] theorem completeTrade_len (w : World) (tid : Nat) : (w.completeTrade tid).orders.length = w.orders.length := by
  unfold completeTrade; simp
@[simp] theorem tradeUpdateStatus_len (w : World) (tid : Nat) (s : TradeStatus) : (w.tradeUpdateStatus tid s).orders.length = w.orders.length := by
  unfold tradeUpdateStatus
  simp only
  split <;> simp
@[simp] theorem tradeEnter_len (w : World) (tid : Nat) : (w.tradeEnter tid).orders.length = w.orders.length := tradeUpdateStatus_len _ _ _
@[simp] theorem tradeExit_len (w : World) (tid : Nat) : (w.tradeExit tid).orders.length = w.orders.length := tradeUpdateStatus_len _ _ _
@[simp] theorem orderUpdateStatus_len (w : World) (oid : Nat) (s : Status) : (w.orderUpdateStatus oid s).orders.length = w.orders.length := by
  unfold orderUpdateStatus
  simp only
  split <;> simp
@[simp] theorem orderExecutable_len (w : World) (oid : Nat) : (w.orderExecutable oid).orders.length = w.orders.length := by
  unfold orderExecutable; split <;> simp
@[simp] theorem orderExecutionComplete_len (w : World) (oid : Nat) : (w.orderExecutionComplete oid).orders.length = w.orders.length := by
  unfold orderExecutionComplete; simp
@[simp] theorem orderViolation_len (w : World) (oid : Nat) (m : String) : (w.orderViolation oid m).orders.length = w.orders.length := by
  unfold orderViolation; split <;> simp
@[simp] theorem orderPlacing_len (w : World) (oid : Nat) : (w.orderPlacing oid).orders.length = w.orders.length := orderUpdateStatus_len _ _ _

theorem foldl_len {α} (f : World → α → World) (hf : ∀ w a, (f w a).orders.length = w.orders.length) (l : List α) (w : World) :
    (l.foldl f w).orders.length = w.orders.length := by
  induction l generalizing w with
  | nil => rfl
  | cons a as ih => rw [List.foldl_cons, ih, hf]

theorem foldl_pair_len {α β} (f : World × β → α → World × β) (hf : ∀ acc a, (f acc a).1.orders.length = acc.1.orders.length) (l : List α) (acc : World × β) :
    (l.foldl f acc).1.orders.length = acc.1.orders.length := by
  induction l generalizing acc with
  | nil => rfl
  | cons a as ih => rw [List.foldl_cons, ih, hf]

theorem orderCancel_len (w w' : World) (a : Nat) (r : Option Rat) (h : w.orderCancel a r = .ok w') : w'.orders.length = w.orders.length := by
  unfold orderCancel at h
  simp only at h
  split_ifs at h
  have := (Except.ok.inj h).symm
  subst this
  unfold orderCancelling; simp
theorem orderUpdate_len (w w' : World) (a : Nat) (p : String) (h : w.orderUpdate a p = .ok w') : w'.orders.length = w.orders.length := by
  unfold orderUpdate at h
  simp only at h
  split_ifs at h
  have := (Except.ok.inj h).symm
  subst this
  unfold orderUpdating; simp
theorem orderReplace_len (w w' : World) (a : Nat) (p : Rat) (h : w.orderReplace a p = .ok w') : w'.orders.length = w.orders.length := by
  unfold orderReplace at h
  simp only at h
  split_ifs at h
  have := (Except.ok.inj h).symm
  subst this
  unfold orderReplacing; simp

@[simp] theorem validateControls_len (w : World) (oid cid : Nat) (k : PackKind) : (w.validateControls oid cid k).1.orders.length = w.orders.length := by
  unfold validateControls
  simp only
  repeat' split
  all_goals simp

theorem addPackage_len (k : PackKind) (t : Txn) (d bd : Rat) (w : World) (vc : Option Int × List Nat) :
    (addPackage k t d bd w vc).orders.length = w.orders.length := rfl

@[simp] theorem createPackages_len (w : World) (t : Txn) (p : List (Nat × Option Int)) (k : PackKind) :
    (w.createPackages t p k).orders.length = w.orders.length := by
  unfold createPackages
  exact foldl_len _ (fun w vc => addPackage_len k t _ _ w vc) _ w

@[simp] theorem txnExecute_len (w : World) (t : Txn) : (w.txnExecute t).1.orders.length = w.orders.length := by
  unfold txnExecute
  simp only
  have h : ∀ (w : World) (c : Bool) (p : List (Nat × Option Int)) (k : PackKind), (if c then w else w.createPackages t p k).orders.length = w.orders.length := by
    intro w c p k; split <;> simp
  rw [h, h, h, h]

@[simp] theorem txnExit_len (w : World) (t : Txn) : (w.txnExit t).orders.length = w.orders.length := by
  unfold txnExit; split <;> simp

@[simp] theorem txnPlace_len (w : World) (t : Txn) (oid : Nat) (v : Option Int) (ex force : Bool) :
    (w.txnPlace t oid v ex force).1.orders.length = w.orders.length := by
  unfold txnPlace
  simp only
  have hv : (if (ex && !force) = true then (w.modifyOrder oid fun o => { o with client := some t.client }).validateControls oid t.client .place
      else (w.modifyOrder oid fun o => { o with client := some t.client }, none)).1.orders.length = w.orders.length := by
    split <;> simp
  generalize (if (ex && !force) = true then (w.modifyOrder oid fun o => { o with client := some t.client }).validateControls oid t.client .place
    else (w.modifyOrder oid fun o => { o with client := some t.client }, none)) = vr at hv
  obtain ⟨w1, r⟩ := vr
  simp only at hv ⊢
  cases r with
  | some r => exact hv
  | none =>
    simp only
    repeat' split
    all_goals simp [hv]

theorem txnCancel_len (w : World) (t : Txn) (oid : Nat) (red : Option Rat) (f : Bool) : (w.txnCancel t oid red f).1.orders.length = w.orders.length := by
  unfold txnCancel
  simp only
  split
  · rfl
  · have hv : (if (!f) = true then w.validateControls oid t.client .cancel else (w, none)).1.orders.length = w.orders.length := by split <;> simp
    generalize (if (!f) = true then w.validateControls oid t.client .cancel else (w, none)) = vr at hv
    obtain ⟨w1, r⟩ := vr
    cases r with
    | some r => exact hv
    | none =>
      simp only at hv ⊢
      cases h : w1.orderCancel oid red with
      | error e => exact hv
      | ok w2 => exact (orderCancel_len w1 w2 oid red h).trans hv

theorem txnUpdate_len (w : World) (t : Txn) (oid : Nat) (p : String) (f : Bool) : (w.txnUpdate t oid p f).1.orders.length = w.orders.length := by
  unfold txnUpdate
  simp only
  split
  · rfl
  · have hv : (if (!f) = true then w.validateControls oid t.client .update else (w, none)).1.orders.length = w.orders.length := by split <;> simp
    generalize (if (!f) = true then w.validateControls oid t.client .update else (w, none)) = vr at hv
    obtain ⟨w1, r⟩ := vr
    cases r with
    | some r => exact hv
    | none =>
      simp only at hv ⊢
      cases h : w1.orderUpdate oid p with
      | error e => exact hv
      | ok w2 => exact (orderUpdate_len w1 w2 oid p h).trans hv

theorem txnReplace_len (w : World) (t : Txn) (oid : Nat) (p : Rat) (v : Option Int) (f : Bool) : (w.txnReplace t oid p v f).1.orders.length = w.orders.length := by
  unfold txnReplace
  simp only
  split
  · rfl
  · have hv : (if (!f) = true then w.validateControls oid t.client .replace else (w, none)).1.orders.length = w.orders.length := by split <;> simp
    generalize (if (!f) = true then w.validateControls oid t.client .replace else (w, none)) = vr at hv
    obtain ⟨w1, r⟩ := vr
    cases r with
    | some r => exact hv
    | none =>
      simp only at hv ⊢
      cases h : w1.orderReplace oid p with
      | error e => exact hv
      | ok w2 => exact (orderReplace_len w1 w2 oid p h).trans hv

/-! ### middleware, completion loop, closure -/

@[simp] theorem processRunnerRemoval_len (w : World) (mid rsel : Nat) (rhc : Rat) (raf : Option Rat) :
    (w.processRunnerRemoval mid rsel rhc raf).orders.length = w.orders.length := by
  unfold processRunnerRemoval
  simp only
  exact foldl_len (fun w1 oid => w1.modifyOrder oid (w1.removalOnOrder (w.market! mid) rsel rhc raf)) (fun w oid => modifyOrder_len _ _ _) _ w

@[simp] theorem matchStep_len (mid : Nat) (r : Bool) (acc : World × List (Nat × Rat × List (Rat × Rat))) (o0 : Order) :
    (matchStep mid r acc o0).1.orders.length = acc.1.orders.length := by
  obtain ⟨w, lk⟩ := acc
  unfold matchStep
  simp only
  repeat' split
  all_goals simp

@[simp] theorem matchOrders_len (w : World) (mid : Nat) (l : List Order) (r : Bool) : (w.matchOrders mid l r).orders.length = w.orders.length := by
  unfold matchOrders
  exact foldl_pair_len _ (fun acc o => matchStep_len mid r acc o) l _

@[simp] theorem matchStrategy_len (mid : Nat) (w : World) (sid : Nat) : (matchStrategy mid w sid).orders.length = w.orders.length := by
  unfold matchStrategy
  simp only
  split <;> simp

@[simp] theorem mwProcessSimulatedOrders_len (w : World) (mid : Nat) : (w.mwProcessSimulatedOrders mid).orders.length = w.orders.length := by
  unfold mwProcessSimulatedOrders
  simp only
  split
  · exact foldl_len _ (fun w sid => matchStrategy_len mid w sid) _ w
  · split <;> simp

@[simp] theorem mwUpdateAnalytics_len (w : World) (mid : Nat) : (w.mwUpdateAnalytics mid).1.orders.length = w.orders.length := rfl

@[simp] theorem simulatedMiddleware_len (w : World) (mid : Nat) : (w.simulatedMiddleware mid).orders.length = w.orders.length := by
  unfold simulatedMiddleware
  simp only
  have h : (List.foldl (fun w (k : Nat × Rat × Option Rat) => w.processRunnerRemoval mid k.1 k.2.1 k.2.2) (w.mwUpdateAnalytics mid).1 (w.mwUpdateAnalytics mid).2).orders.length = w.orders.length := by
    rw [foldl_len (fun w (k : Nat × Rat × Option Rat) => w.processRunnerRemoval mid k.1 k.2.1 k.2.2) (fun w k => processRunnerRemoval_len w mid k.1 k.2.1 k.2.2)]; rfl
  split <;> simp [h]

@[simp] theorem processSimulatedOrders_len (w : World) (mid : Nat) : (w.processSimulatedOrders mid).orders.length = w.orders.length := by
  unfold processSimulatedOrders
  simp only
  rw [foldl_len, foldl_len]
  · intro w oid
    repeat' split
    all_goals simp
  · intro w s
    split <;> simp

@[simp] theorem blotterProcessClosed_len (w : World) (mid : Nat) (book : Book) : (w.blotterProcessClosed mid book).orders.length = w.orders.length := by
  unfold blotterProcessClosed
  simp only
  apply foldl_len
  intro w oid
  split <;> simp

@[simp] theorem processCloseMarket_len (w : World) (mid : Nat) (book : Book) : (w.processCloseMarket mid book).orders.length = w.orders.length := by
  unfold processCloseMarket
  split
  · rfl
  · simp only
    split <;> simp


end Flumine.Len
