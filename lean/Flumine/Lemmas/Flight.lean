/- Lemmas/Flight.lean — at most one operation per order is outstanding, in every reachable state.

   An operation is outstanding from the moment a request is accepted (the order id enters the pending list
   of the open transaction), while its package waits in the simulation's handler queue, until the package is
   executed.  `pendIds` lists those ids with multiplicity; the invariant `FI` says the list has no duplicates,
   none of its orders is EXECUTABLE (so the guards of cancel / update / replace refuse a further request), each
   of them sits in the blotter of its own market (so the already-placed test of place refuses a second placement),
   and every EXECUTABLE order is in the blotter of its own market.

   Scope: runs in which every request goes through the market the order was created for; the ghost counter
   `World.foreign` counts the requests that do not, and the whole-run theorem assumes it is still 0. -/
import Flumine.SimLoop
import Flumine.Lemmas.OrderLemmas
import Flumine.Lemmas.Ids
import Flumine.Lemmas.Inv
import Flumine.Lemmas.Final
import Flumine.Lemmas.Packs
import Flumine.Lemmas.WorldLemmas
import Flumine.Lemmas.Ghost
import Mathlib.Tactic.SplitIfs
namespace Flumine.Fl
open Flumine Flumine.World Flumine.OL Flumine.Ids Flumine.Inv Flumine.Fin Flumine.Ghost

/-- status of order `oid` -/
def St (w : World) (oid : Nat) : Option Status := (w.order! oid).status

/-- the order is listed in the blotter of the market it was created for -/
def Home (w : World) (oid : Nat) : Prop := oid ∈ (w.market! (w.order! oid).market).blotter

/-- never sent: no status yet, or refused by a control -/
def Unsent (s : Option Status) : Prop := s = none ∨ s = some .violation

/-- how the status of an order of the base world may move in a step that is not a request:
    unchanged, completed, released to EXECUTABLE (only the orders X being handled), or refused before being sent -/
def Moves (X : List Nat) (oid : Nat) (s s' : Option Status) : Prop :=
  s' = s ∨ s' = some .executionComplete ∨ (oid ∈ X ∧ s' = some .executable) ∨ (Unsent s ∧ s' = some .violation)

theorem Moves.trans {X : List Nat} {oid : Nat} {a b c : Option Status} (h1 : Moves X oid a b) (h2 : Moves X oid b c) : Moves X oid a c := by
  rcases h2 with e | e | e | ⟨u, e⟩
  · rw [e]; exact h1
  · exact Or.inr (Or.inl e)
  · exact Or.inr (Or.inr (Or.inl e))
  · rcases h1 with f | f | ⟨_, f⟩ | ⟨v, _⟩
    · rw [f] at u; exact Or.inr (Or.inr (Or.inr ⟨u, e⟩))
    · rw [f] at u; rcases u with u | u <;> cases u
    · rw [f] at u; rcases u with u | u <;> cases u
    · exact Or.inr (Or.inr (Or.inr ⟨v, e⟩))

/-- a step that is not a request, relative to a base world w0 and the orders X being handled -/
structure Q (w0 : World) (X : List Nat) (w w' : World) : Prop where
  good : Good w w'
  fg : w'.foreign = w.foreign
  qu : w'.queue = w.queue
  mkt : ∀ oid, HasOrder w oid → (w'.order! oid).market = (w.order! oid).market
  bl : ∀ m oid, oid ∈ (w.market! m).blotter → oid ∈ (w'.market! m).blotter
  fr : ∀ oid, HasOrder w0 oid → HasOrder w oid → Moves X oid (St w oid) (St w' oid)
  lv : ∀ oid, HasOrder w' oid → St w' oid = some .executable → (HasOrder w oid ∧ St w oid = some .executable) ∨ Home w' oid
  mx : ∀ m, (w.market? m).isSome = true → (w'.market? m).isSome = true

theorem Q.home {w0 : World} {X : List Nat} {w w' : World} (h : Q w0 X w w') (oid : Nat) (ho : HasOrder w oid) (hh : Home w oid) : Home w' oid := by
  unfold Home at hh ⊢
  rw [h.mkt oid ho]
  exact h.bl _ oid hh

theorem Q.hasOrder {w0 : World} {X : List Nat} {w w' : World} (h : Q w0 X w w') (oid : Nat) (ho : HasOrder w oid) : HasOrder w' oid :=
  h.good.1.hasOrder oid ho

theorem Q.refl (w0 : World) (X : List Nat) (w : World) : Q w0 X w w :=
  ⟨Good.refl w, rfl, rfl, fun _ _ => rfl, fun _ _ h => h, fun _ _ _ => Or.inl rfl, fun _ ho hs => Or.inl ⟨ho, hs⟩, fun _ h => h⟩

theorem Q.trans {w0 : World} {X : List Nat} {a b c : World} (h1 : Q w0 X a b) (h2 : Q w0 X b c) : Q w0 X a c := by
  refine ⟨h1.good.trans h2.good, h2.fg.trans h1.fg, h2.qu.trans h1.qu, ?_, ?_, ?_, ?_, fun m h => h2.mx m (h1.mx m h)⟩
  · intro oid ho; rw [h2.mkt oid (h1.hasOrder oid ho), h1.mkt oid ho]
  · intro m oid ho; exact h2.bl m oid (h1.bl m oid ho)
  · intro oid ho hw; exact (h1.fr oid ho hw).trans (h2.fr oid ho (h1.hasOrder oid hw))
  · intro oid ho hs
    rcases h2.lv oid ho hs with ⟨hb, sb⟩ | hh
    · rcases h1.lv oid hb sb with x | hh
      · exact Or.inl x
      · exact Or.inr (h2.home oid hb hh)
    · exact Or.inr hh

theorem Moves.mono {X Y : List Nat} (hXY : ∀ x ∈ X, x ∈ Y) {oid : Nat} {a b : Option Status} (h : Moves X oid a b) : Moves Y oid a b := by
  rcases h with e | e | ⟨m, e⟩ | e
  · exact Or.inl e
  · exact Or.inr (Or.inl e)
  · exact Or.inr (Or.inr (Or.inl ⟨hXY _ m, e⟩))
  · exact Or.inr (Or.inr (Or.inr e))

theorem Q.mono {w0 : World} {X Y : List Nat} {w w' : World} (hXY : ∀ x ∈ X, x ∈ Y) (h : Q w0 X w w') : Q w0 Y w w' :=
  ⟨h.good, h.fg, h.qu, h.mkt, h.bl, fun oid ho hw => (h.fr oid ho hw).mono hXY, h.lv, h.mx⟩

theorem q_foldl {α} (w0 : World) (X : List Nat) (f : World → α → World) (hf : ∀ w a, Q w0 X w (f w a)) (l : List α) (w : World) :
    Q w0 X w (l.foldl f w) := by
  induction l generalizing w with
  | nil => exact Q.refl w0 X w
  | cons a as ih => rw [List.foldl_cons]; exact (hf w a).trans (ih _)

/-- nothing the invariant looks at changed -/
theorem Q.of_eq {w0 : World} {X : List Nat} {w w' : World} (ho : w'.orders = w.orders) (hm : w'.markets = w.markets)
    (hq : w'.queue = w.queue) (hf : w'.foreign = w.foreign) : Q w0 X w w' := by
  have hmk : ∀ m, w'.market! m = w.market! m := Inv.market!_congr w' w hm
  have hor : ∀ oid, w'.order! oid = w.order! oid := order!_congr w w' ho
  refine ⟨Good.of_eq ho hm (sub_of_eq hq), hf, hq, fun oid _ => by rw [hor], fun m oid h => by rw [hmk]; exact h,
    fun oid _ _ => Or.inl (by unfold St; rw [hor]), fun oid hh hs => Or.inl ⟨(hasOrder_congr w w' ho oid).mp hh, by unfold St at hs ⊢; rw [← hor]; exact hs⟩,
    fun m h => by unfold market? at h ⊢; rw [hm]; exact h⟩

theorem q_setClient (w0 : World) (X : List Nat) (w : World) (c : Client) : Q w0 X w (w.setClient c) := Q.of_eq rfl rfl rfl rfl
theorem q_emit (w0 : World) (X : List Nat) (w : World) (e : Ev) : Q w0 X w (w.emit e) := Q.of_eq rfl rfl rfl rfl
theorem q_setCtx (w0 : World) (X : List Nat) (w : World) (c : RunnerCtx) : Q w0 X w (w.setCtx c) :=
  Q.of_eq (setCtx_orders w c) (setCtx_markets w c) (setCtx_queue w c) (setCtx_foreign w c)
theorem q_ctxPlace (w0 : World) (X : List Nat) (w : World) (k : CtxKey) (t : Nat) : Q w0 X w (w.ctxPlace k t) := q_setCtx w0 X w _
theorem q_tradeEnter (w0 : World) (X : List Nat) (w : World) (t : Nat) : Q w0 X w (w.tradeEnter t) :=
  Q.of_eq (tradeEnter_orders w t) (tradeEnter_markets w t) (tradeUpdateStatus_queue w t _) (tradeUpdateStatus_foreign w t _)
theorem q_tradeExit (w0 : World) (X : List Nat) (w : World) (t : Nat) : Q w0 X w (w.tradeExit t) :=
  Q.of_eq (tradeExit_orders w t) (tradeExit_markets w t) (tradeUpdateStatus_queue w t _) (tradeUpdateStatus_foreign w t _)
theorem q_addTransaction (w0 : World) (X : List Nat) (w : World) (c n : Nat) (f : Bool) : Q w0 X w (w.addTransaction c n f) := Q.of_eq rfl rfl rfl rfl
theorem q_bumpBetId (w0 : World) (X : List Nat) (w : World) : Q w0 X w w.bumpBetId := Q.of_eq rfl rfl rfl rfl

/-! ### order primitives -/

theorem ids_modifyOrder (w : World) (a : Nat) (f : Order → Order) (hf : ∀ x, x.id = a → (f x).id = a) : ids (w.modifyOrder a f) = ids w := by
  unfold ids modifyOrder
  apply map_ids
  intro x _
  split
  · rename_i h; rw [hf x h, h]
  · rfl

/-- the order after `modifyOrder`: untouched, or `f` of the old one -/
theorem order!_modify' (w : World) (a oid : Nat) (f : Order → Order) (hf : ∀ x, x.id = a → (f x).id = a) :
    (w.modifyOrder a f).order! oid = w.order! oid ∨ (oid = a ∧ HasOrder w a ∧ (w.modifyOrder a f).order! oid = f (w.order! a)) := by
  by_cases e : oid = a
  · subst e
    by_cases h : HasOrder w oid
    · right; exact ⟨rfl, h, order!_modify_self w oid f h hf⟩
    · left
      have : w.modifyOrder oid f = w := by
        unfold modifyOrder
        have : (w.orders.map fun x => if x.id = oid then f x else x) = w.orders := by
          have hh : ∀ x ∈ w.orders, (if x.id = oid then f x else x) = x := by
            intro x hx
            split
            · rename_i hid
              exfalso; apply h
              rw [hasOrder_iff]; unfold ids; exact List.mem_map.mpr ⟨x, hx, hid⟩
            · rfl
          calc (w.orders.map fun x => if x.id = oid then f x else x) = w.orders.map id := List.map_congr_left hh
            _ = w.orders := List.map_id _
        rw [this]
      rw [this]
  · left; exact order!_modify_other w oid a f e hf

/-- a change of one order that keeps its id, status and market -/
theorem q_modifyOrder (w0 : World) (X : List Nat) (w : World) (a : Nat) (f : Order → Order) (hf : ∀ x, x.id = a → (f x).id = a)
    (hs : (f (w.order! a)).status = (w.order! a).status) (hm : (f (w.order! a)).market = (w.order! a).market) :
    Q w0 X w (w.modifyOrder a f) := by
  have hst : ∀ oid, St (w.modifyOrder a f) oid = St w oid := by
    intro oid
    unfold St
    rcases order!_modify' w a oid f hf with h | ⟨e, _, h⟩
    · rw [h]
    · rw [h, e]; exact hs
  have hmk : ∀ oid, ((w.modifyOrder a f).order! oid).market = (w.order! oid).market := by
    intro oid
    rcases order!_modify' w a oid f hf with h | ⟨e, _, h⟩
    · rw [h]
    · rw [h, e]; exact hm
  have hids := ids_modifyOrder w a f hf
  refine ⟨Good.inplace hids (by unfold modifyOrder; simp) rfl (fun _ h => h), rfl, rfl, fun oid _ => hmk oid, fun _ _ h => h, fun oid _ _ => Or.inl (hst oid), ?_, fun _ h => h⟩
  intro oid ho hx
  left
  refine ⟨?_, by rw [← hst oid]; exact hx⟩
  rw [hasOrder_iff] at ho ⊢
  rw [hids] at ho
  exact ho

theorem q_setOrder (w0 : World) (X : List Nat) (w : World) (o' : Order)
    (hs : o'.status = (w.order! o'.id).status) (hm : o'.market = (w.order! o'.id).market) : Q w0 X w (w.setOrder o') := by
  rw [setOrder_eq_modify]
  exact q_modifyOrder w0 X w o'.id (fun _ => o') (fun _ _ => rfl) hs hm

/-- `_update_status(s)` on an existing order b -/
theorem q_orderUpdateStatus (w0 : World) (X : List Nat) (w : World) (b : Nat) (s : Status) (hb : HasOrder w b)
    (hfr : ¬ HasOrder w0 b ∨ s = .executionComplete ∨ (s = .executable ∧ b ∈ X) ∨ (s = .violation ∧ Unsent (St w b)))
    (hl : s = .executable → Home w b) : Q w0 X w (w.orderUpdateStatus b s) := by
  have hmk : ∀ m, (w.orderUpdateStatus b s).market! m = w.market! m := Inv.market!_congr _ _ (orderUpdateStatus_markets w b s)
  have hself := orderUpdateStatus_self w b s hb
  have hoth := fun oid (hne : oid ≠ b) => orderUpdateStatus_other w oid b s hb hne
  have hmkt : ∀ oid, ((w.orderUpdateStatus b s).order! oid).market = (w.order! oid).market := by
    intro oid
    by_cases e : oid = b
    · rw [e, hself]; rfl
    · rw [hoth oid e]
  refine ⟨good_orderUpdateStatus w b s, orderUpdateStatus_foreign w b s, orderUpdateStatus_queue w b s, fun oid _ => hmkt oid,
    fun m oid h => by rw [hmk]; exact h, ?_, ?_, fun m h => by unfold market? at h ⊢; rw [orderUpdateStatus_markets]; exact h⟩
  · intro oid h0 _
    by_cases e : oid = b
    · subst e
      have hst : St (w.orderUpdateStatus oid s) oid = some s := by unfold St; rw [hself]; rfl
      rw [hst]
      rcases hfr with h | h | ⟨h, hx⟩ | ⟨h, hu⟩
      · exact absurd h0 h
      · rw [h]; exact Or.inr (Or.inl rfl)
      · rw [h]; exact Or.inr (Or.inr (Or.inl ⟨hx, rfl⟩))
      · rw [h]; exact Or.inr (Or.inr (Or.inr ⟨hu, rfl⟩))
    · left; unfold St; rw [hoth oid e]
  · intro oid ho hx
    by_cases e : oid = b
    · subst e
      have hst : St (w.orderUpdateStatus oid s) oid = some s := by unfold St; rw [hself]; rfl
      rw [hst] at hx
      right
      unfold Home
      rw [hmkt, hmk]
      exact hl (Option.some.inj hx)
    · left
      refine ⟨?_, by unfold St at hx ⊢; rw [← hoth oid e]; exact hx⟩
      rw [hasOrder_congr _ _ (orderUpdateStatus_orders w b s)] at ho
      rw [hasOrder_iff] at ho ⊢
      have : ids (w.setOrder (stamped (w.order! b) w.clock s)) = ids w := by
        rw [setOrder_eq_modify]; exact ids_modifyOrder w _ _ (fun _ _ => rfl)
      rw [this] at ho; exact ho

/-- statuses, markets of orders and ids as they were; blotters at least what they were -/
theorem Q.calm {w0 : World} {X : List Nat} {w w' : World} (hg : Good w w') (hf : w'.foreign = w.foreign) (hq : w'.queue = w.queue)
    (hids : ids w' = ids w)
    (ho : ∀ oid, (w'.order! oid).status = (w.order! oid).status ∧ (w'.order! oid).market = (w.order! oid).market)
    (hb : ∀ m oid, oid ∈ (w.market! m).blotter → oid ∈ (w'.market! m).blotter)
    (hmx : ∀ m, (w.market? m).isSome = true → (w'.market? m).isSome = true) : Q w0 X w w' := by
  refine ⟨hg, hf, hq, fun oid _ => (ho oid).2, hb, fun oid _ _ => Or.inl (ho oid).1, ?_, hmx⟩
  intro oid hh hs
  left
  refine ⟨?_, by unfold St at hs ⊢; rw [← (ho oid).1]; exact hs⟩
  rw [hasOrder_iff] at hh ⊢; rw [hids] at hh; exact hh

theorem q_orderExecutable (w0 : World) (X : List Nat) (w : World) (b : Nat) (hb : HasOrder w b)
    (hx : ¬ HasOrder w0 b ∨ b ∈ X) (hl : Home w b) : Q w0 X w (w.orderExecutable b) := by
  unfold orderExecutable
  split
  · exact q_modifyOrder w0 X w b _ (fun _ h => h) rfl rfl
  · refine (q_orderUpdateStatus w0 X w b .executable hb ?_ (fun _ => hl)).trans (q_modifyOrder w0 X _ b _ (fun _ h => h) rfl rfl)
    rcases hx with h | h
    · exact Or.inl h
    · exact Or.inr (Or.inr (Or.inl ⟨rfl, h⟩))

theorem q_orderExecutionComplete (w0 : World) (X : List Nat) (w : World) (b : Nat) (hb : HasOrder w b) :
    Q w0 X w (w.orderExecutionComplete b) := by
  unfold orderExecutionComplete
  exact (q_orderUpdateStatus w0 X w b .executionComplete hb (Or.inr (Or.inl rfl)) (fun h => by cases h)).trans
    (q_modifyOrder w0 X _ b _ (fun _ h => h) rfl rfl)

theorem q_orderViolation (w0 : World) (X : List Nat) (w : World) (b : Nat) (msg : String) (hb : HasOrder w b) :
    Q w0 X w (w.orderViolation b msg) := by
  unfold orderViolation
  split
  · exact Q.refl w0 X w
  · rename_i hg
    refine (q_orderUpdateStatus w0 X w b .violation hb (Or.inr (Or.inr (Or.inr ⟨rfl, ?_⟩))) (fun h => by cases h)).trans
      (q_modifyOrder w0 X _ b _ (fun _ h => h) rfl rfl)
    unfold Unsent St
    cases hs : (w.order! b).status with
    | none => exact Or.inl rfl
    | some s =>
      right
      by_cases e : s = .violation
      · rw [e]
      · exfalso; apply hg; rw [hs]; exact ⟨rfl, fun h => e (Option.some.inj h)⟩

theorem modifyMarket_isSome (w : World) (a : Nat) (f : Market → Market) (hf : ∀ x, (f x).id = x.id) (m : Nat)
    (h : (w.market? m).isSome = true) : ((w.modifyMarket a f).market? m).isSome = true := by
  unfold market? modifyMarket at *
  simp only
  rw [find_map_market w.markets a m f hf]
  cases hx : w.markets.find? (fun x => decide (x.id = m)) with
  | none => rw [hx] at h; cases h
  | some x => rfl

/-- a change of a market that keeps its id, blotter and live list -/
theorem q_modifyMarket (w0 : World) (X : List Nat) (w : World) (a : Nat) (f : Market → Market)
    (hf : ∀ m, (f m).id = m.id ∧ (f m).blotter = m.blotter ∧ (f m).live = m.live) : Q w0 X w (w.modifyMarket a f) := by
  refine Q.calm (good_mm w a f hf) rfl rfl rfl (fun _ => ⟨rfl, rfl⟩) ?_ (modifyMarket_isSome w a f (fun x => (hf x).1))
  intro m oid h
  rcases market!_modify w a m f (fun x => (hf x).1) with e | ⟨_, e⟩ <;> rw [e]
  · exact h
  · rw [(hf _).2.1]; exact h

theorem q_blotterComplete (w0 : World) (X : List Nat) (w : World) (m' oid : Nat) : Q w0 X w (w.blotterComplete m' oid) := by
  unfold blotterComplete
  refine Q.calm (good_blotterComplete w m' oid) rfl rfl rfl (fun _ => ⟨rfl, rfl⟩) ?_ (modifyMarket_isSome w m' _ (fun _ => rfl))
  intro m x h
  rcases market!_modify w m' m (fun m => { m with live := m.live.erase oid }) (fun _ => rfl) with e | ⟨_, e⟩ <;> rw [e] <;> exact h

theorem q_blotterAdd (w0 : World) (X : List Nat) (w : World) (m' oid : Nat) (ho : oid ∈ ids w) (hn : oid ∉ (w.market! m').blotter) :
    Q w0 X w (w.blotterAdd m' oid) := by
  have hg := good_blotterAdd w m' oid ho hn
  unfold blotterAdd at hg ⊢
  refine Q.calm hg rfl rfl (ids_modifyOrder _ oid _ (fun _ h => h)) ?_ ?_ (modifyMarket_isSome w m' _ (fun _ => rfl))
  · intro x
    rcases order!_modify' (w.modifyMarket m' fun m => { m with active := true, blotter := m.blotter ++ [oid], live := m.live ++ [oid] }) oid x
      (fun o => { o with inBlotter := true, blotterClient := o.client }) (fun _ h => h) with h | ⟨e, _, h⟩
    · rw [h]; exact ⟨rfl, rfl⟩
    · rw [h, e]; exact ⟨rfl, rfl⟩
  · intro m x h
    show x ∈ ((w.modifyMarket m' fun m => { m with active := true, blotter := m.blotter ++ [oid], live := m.live ++ [oid] }).market! m).blotter
    rcases market!_modify w m' m (fun m => { m with active := true, blotter := m.blotter ++ [oid], live := m.live ++ [oid] }) (fun _ => rfl) with e | ⟨_, e⟩ <;> rw [e]
    · exact h
    · exact List.mem_append_left _ h

/-- after `blotterAdd m oid` the order is in the blotter of market m (when the market exists) -/
theorem blotterAdd_mem (w : World) (m' oid : Nat) (hm : (w.market? m').isSome = true) : oid ∈ ((w.blotterAdd m' oid).market! m').blotter := by
  unfold blotterAdd
  show oid ∈ ((w.modifyMarket m' fun m => { m with active := true, blotter := m.blotter ++ [oid], live := m.live ++ [oid] }).market! m').blotter
  cases h : w.markets.find? (fun x => decide (x.id = m')) with
  | none => unfold market? at hm; rw [h] at hm; cases hm
  | some x =>
    have := C15.market_modify_self w m' (fun m => { m with active := true, blotter := m.blotter ++ [oid], live := m.live ++ [oid] }) x h rfl
    unfold market!
    rw [this]
    exact List.mem_append_right _ (List.mem_singleton.mpr rfl)

/-- a new order appended to the table -/
theorem q_appendOrder (w0 : World) (X : List Nat) (w w' : World) (o : Order) (hid : o.id = w.orders.length) (ho : w'.orders = w.orders ++ [o])
    (hm : w'.markets = w.markets) (hq : w'.queue = w.queue) (hf : w'.foreign = w.foreign) (hs : o.status ≠ some .executable) (hI : Inv w) :
    Q w0 X w w' := by
  have hmk : ∀ m, w'.market! m = w.market! m := Inv.market!_congr w' w hm
  refine ⟨good_appendOrder w w' o hid ho hm (sub_of_eq hq), hf, hq, fun oid h => by rw [order!_append w w' o ho oid h],
    fun m oid h => by rw [hmk]; exact h, fun oid _ h => Or.inl (by unfold St; rw [order!_append w w' o ho oid h]), ?_,
    fun m h => by unfold market? at h ⊢; rw [hm]; exact h⟩
  intro oid hh hx
  by_cases h : HasOrder w oid
  · left; refine ⟨h, ?_⟩; unfold St at hx ⊢; rw [← order!_append w w' o ho oid h]; exact hx
  · exfalso
    -- oid is the new order
    have hnone : w.orders.find? (fun x => decide (x.id = oid)) = none := by
      cases hf : w.orders.find? (fun x => decide (x.id = oid)) with
      | none => rfl
      | some x => exact absurd ⟨x, hf⟩ h
    obtain ⟨x, hxf⟩ := hh
    rw [ho, List.find?_append, hnone] at hxf
    simp only [Option.none_or] at hxf
    have hxo : x = o := by
      rw [List.find?_cons] at hxf
      split at hxf
      · exact (Option.some.inj hxf).symm
      · cases hxf
    have : w'.order! oid = o := by
      rw [← hxo]; apply order!_of_find
      rw [ho, List.find?_append, hnone]; simpa using hxf
    unfold St at hx; rw [this] at hx; exact hs hx

/-! ### the response handlers of the simulated execution -/

theorem q_logPlaced (w0 : World) (X : List Nat) (w : World) (oid : Nat) (b : Option Nat) : Q w0 X w (w.logPlaced oid b) := by
  unfold logPlaced
  have k1 := q_modifyOrder w0 X w oid (fun o => { o with placedAt := some w.clock }) (fun _ h => h) rfl rfl
  cases b with
  | none => exact k1
  | some b => exact (k1.trans (q_modifyOrder w0 X _ oid (fun o => { o with betId := some b }) (fun _ h => h) rfl rfl)).trans (q_emit w0 X _ _)

theorem q_placeStep (w0 : World) (X : List Nat) (p : Package) (w : World) (a : Nat) (ha : HasOrder w a) (hx : a ∈ X) (hh : Home w a) :
    Q w0 X w (placeStep p w a) := by
  unfold placeStep
  simp only
  have k1 := (q_tradeEnter w0 X w (w.order! a).trade).trans (q_bumpBetId w0 X _)
  generalize (w.tradeEnter (w.order! a).trade).bumpBetId = w1 at k1
  generalize placeResponse p w1 (w.order! a) = pr
  have k2 := k1.trans ((q_modifyOrder w0 X w1 a (fun o => { o with sim := pr.1 }) (fun _ h => h) rfl rfl).trans (q_logPlaced w0 X _ a pr.2.betId))
  generalize (w1.modifyOrder a fun o => { o with sim := pr.1 }).logPlaced a pr.2.betId = w2 at k2
  have h2 := k2.hasOrder a ha
  cases pr.2.status with
  | success => exact (k2.trans (q_orderExecutable w0 X w2 a h2 (Or.inr hx) (k2.home a ha hh))).trans (q_tradeExit w0 X _ _)
  | failure => exact (k2.trans (q_orderExecutionComplete w0 X w2 a h2)).trans (q_tradeExit w0 X _ _)

theorem q_cancelStep (w0 : World) (X : List Nat) (p : Package) (acc : World × Nat) (a : Nat) (ha : HasOrder acc.1 a) (hx : a ∈ X) (hh : Home acc.1 a) :
    Q w0 X acc.1 (cancelStep p acc a).1 := by
  obtain ⟨w, failed⟩ := acc
  unfold cancelStep
  simp only
  have k1 := q_tradeEnter w0 X w (w.order! a).trade
  generalize w.tradeEnter (w.order! a).trade = w1 at k1
  generalize (w.order! a).sim.cancel (((w1.market! p.market).book).getD {}).status
    (if (w.order! a).ud.hasReduction then (w.order! a).ud.sizeReduction else none) = cr
  have k2 := k1.trans (q_modifyOrder w0 X w1 a (fun o => { o with sim := cr.1, cancelResponses := o.cancelResponses + 1 }) (fun _ h => h) rfl rfl)
  generalize w1.modifyOrder a (fun o => { o with sim := cr.1, cancelResponses := o.cancelResponses + 1 }) = w2 at k2
  have h2 := k2.hasOrder a ha
  have hh2 := k2.home a ha hh
  cases cr.2.status with
  | success =>
    simp only
    split
    · exact (k2.trans (q_orderExecutionComplete w0 X w2 a h2)).trans (q_tradeExit w0 X _ _)
    · exact (k2.trans (q_orderExecutable w0 X w2 a h2 (Or.inr hx) hh2)).trans (q_tradeExit w0 X _ _)
  | failure => exact (k2.trans (q_orderExecutable w0 X w2 a h2 (Or.inr hx) hh2)).trans (q_tradeExit w0 X _ _)

theorem q_updateStep (w0 : World) (X : List Nat) (p : Package) (acc : World × Nat) (a : Nat) (ha : HasOrder acc.1 a) (hx : a ∈ X) (hh : Home acc.1 a) :
    Q w0 X acc.1 (updateStep p acc a).1 := by
  obtain ⟨w, failed⟩ := acc
  unfold updateStep
  simp only
  have k1 := q_tradeEnter w0 X w (w.order! a).trade
  generalize w.tradeEnter (w.order! a).trade = w1 at k1
  generalize (w.order! a).sim.update (((w1.market! p.market).book).getD {}).view (w.order! a).sim.persistence = ur
  have k2 := k1.trans (q_modifyOrder w0 X w1 a (fun o => { o with sim := ur.1, updateResponses := o.updateResponses + 1 }) (fun _ h => h) rfl rfl)
  generalize w1.modifyOrder a (fun o => { o with sim := ur.1, updateResponses := o.updateResponses + 1 }) = w2 at k2
  exact (k2.trans (q_orderExecutable w0 X w2 a (k2.hasOrder a ha) (Or.inr hx) (k2.home a ha hh))).trans (q_tradeExit w0 X _ _)

/-- `market.place_order(replacement, execute=False)` for a new order of that market: placed and in the blotter -/
theorem q_txnPlace_noexec (w0 : World) (X : List Nat) (w : World) (t : Txn) (rid : Nat) (v : Option Int) (hr : HasOrder w rid)
    (hnew : ¬ HasOrder w0 rid) (hnb : rid ∉ (w.market! t.market).blotter) (hst : St w rid = none)
    (hmk : (w.order! rid).market = t.market) (hex : (w.market? t.market).isSome = true) :
    Q w0 X w (w.txnPlace t rid v false false).1 ∧ Home (w.txnPlace t rid v false false).1 rid := by
  unfold txnPlace
  simp only [Bool.false_and, Bool.false_eq_true, if_false]
  have k0 := q_modifyOrder w0 X w rid (fun o => { o with client := some t.client }) (fun _ h => h) rfl rfl
  have hs1 : St (w.modifyOrder rid (fun o => { o with client := some t.client })) rid = none := by
    unfold St
    rcases order!_modify' w rid rid (fun o => { o with client := some t.client }) (fun _ h => h) with h | ⟨_, _, h⟩ <;> rw [h]
    · exact hst
    · exact hst
  have hm1 : (w.modifyOrder rid (fun o => { o with client := some t.client })).markets = w.markets := rfl
  generalize w.modifyOrder rid (fun o => { o with client := some t.client }) = w1 at k0 hs1 hm1
  have h1 := k0.hasOrder rid hr
  have hmk1 : ∀ m, w1.market! m = w.market! m := Inv.market!_congr w1 w hm1
  split
  · rename_i hc
    exfalso
    rw [hmk1] at hc
    unfold St at hs1
    rw [hs1] at hc
    simp only [Bool.or_eq_true, List.contains_iff_mem, beq_iff_eq] at hc
    rcases hc with hc | hc
    · exact hnb hc
    · cases hc
  · have k2 := q_modifyOrder w0 X w1 rid (fun o => { o with publishTime := some (((w1.market! t.market).book).getD {}).pt, marketVersion := v }) (fun _ h => h) rfl rfl
    have hm2 : (w1.modifyOrder rid (fun o => { o with publishTime := some (((w1.market! t.market).book).getD {}).pt, marketVersion := v })).markets = w.markets := hm1
    generalize w1.modifyOrder rid (fun o => { o with publishTime := some (((w1.market! t.market).book).getD {}).pt, marketVersion := v }) = w2 at k2 hm2
    have h2 := k2.hasOrder rid h1
    have k3 := q_orderUpdateStatus w0 X w2 rid .pending h2 (Or.inl hnew) (fun h => by cases h)
    have hm3 : (w2.orderUpdateStatus rid .pending).markets = w.markets := (orderUpdateStatus_markets w2 rid .pending).trans hm2
    unfold orderPlacing
    generalize w2.orderUpdateStatus rid .pending = w3 at k3 hm3
    have h3 := k3.hasOrder rid h2
    have hmk3 : ∀ m, w3.market! m = w.market! m := Inv.market!_congr w3 w hm3
    have k4 : Q w0 X w3 (w3.blotterAdd t.market rid) :=
      q_blotterAdd w0 X w3 t.market rid ((hasOrder_iff w3 rid).mp h3) (by rw [hmk3]; exact hnb)
    have hex3 : (w3.market? t.market).isSome = true := by unfold market? at hex ⊢; rw [hm3]; exact hex
    have hmem := blotterAdd_mem w3 t.market rid hex3
    have base := ((k0.trans k2).trans k3).trans k4
    have hmkt : ((w3.blotterAdd t.market rid).order! rid).market = t.market := by rw [base.mkt rid hr]; exact hmk
    split
    · refine ⟨base.trans (q_emit w0 X _ _), ?_⟩
      unfold Home
      show rid ∈ (((w3.blotterAdd t.market rid).emit _).market! (((w3.blotterAdd t.market rid).emit _).order! rid).market).blotter
      have e1 : ∀ e, ((w3.blotterAdd t.market rid).emit e).order! rid = (w3.blotterAdd t.market rid).order! rid := fun e => order!_congr _ _ rfl rid
      have e2 : ∀ e m, ((w3.blotterAdd t.market rid).emit e).market! m = (w3.blotterAdd t.market rid).market! m := fun e m => Inv.market!_congr _ _ rfl m
      rw [e1, e2, hmkt]; exact hmem
    · refine ⟨base, ?_⟩
      unfold Home
      rw [hmkt]; exact hmem

theorem not_hasOrder_len (w0 w1 : World) (hI : Inv w0) (hk : Keeps w0 w1) : ¬ HasOrder w0 w1.orders.length := by
  rw [hasOrder_iff, hI.range, List.mem_range]
  obtain ⟨e, he⟩ := hk
  have : (ids w1).length = (ids w0).length + e.length := by rw [he, List.length_append]
  unfold ids at this
  simp only [List.length_map] at this
  omega

theorem order!_append_new (w w' : World) (o : Order) (ho : w'.orders = w.orders ++ [o]) (hn : ¬ HasOrder w o.id) : w'.order! o.id = o := by
  have hnone : w.orders.find? (fun x => decide (x.id = o.id)) = none := by
    cases hf : w.orders.find? (fun x => decide (x.id = o.id)) with
    | none => rfl
    | some x => exact absurd ⟨x, hf⟩ hn
  apply order!_of_find
  rw [ho, List.find?_append, hnone]
  simp

/-- the replacement order as `create_order_replacement` leaves it: no status, same market as the replaced order -/
theorem createReplacement_new (w : World) (a : Nat) (np sz : Rat) (cr : Time) (hI : Inv w) :
    (w.createReplacement a np sz cr).2 = w.orders.length ∧
    St (w.createReplacement a np sz cr).1 (w.createReplacement a np sz cr).2 = none ∧
    ((w.createReplacement a np sz cr).1.order! (w.createReplacement a np sz cr).2).market = (w.order! a).market := by
  have hn : ¬ HasOrder w w.orders.length := not_hasOrder_len w w hI (Keeps.refl w)
  refine ⟨rfl, ?_, ?_⟩
  · unfold createReplacement St
    simp only
    rw [order!_congr _ _ (setTrade_orders _ _)]
    rw [order!_append_new w { w with orders := w.orders ++ [_] } _ rfl hn]
  · unfold createReplacement
    simp only
    rw [order!_congr _ _ (setTrade_orders _ _)]
    rw [order!_append_new w { w with orders := w.orders ++ [_] } _ rfl hn]

theorem q_createReplacement (w0 : World) (X : List Nat) (w : World) (a : Nat) (np sz : Rat) (cr : Time) (hI : Inv w) :
    Q w0 X w (w.createReplacement a np sz cr).1 := by
  unfold createReplacement
  simp only
  exact q_appendOrder w0 X w _ _ rfl rfl rfl rfl rfl (by simp) hI

theorem home_market_exists (w : World) (a : Nat) (hh : Home w a) : (w.market? (w.order! a).market).isSome = true := by
  unfold Home market! at hh
  cases h : w.market? (w.order! a).market with
  | some m => rfl
  | none => rw [h] at hh; cases hh

theorem q_replacePlace (w0 : World) (X : List Nat) (p : Package) (w : World) (o : Order) (a : Nat) (book : Book) (np : Option Rat) (sc : Rat) (failed : Nat)
    (ha : HasOrder w a) (hx : a ∈ X) (hh : Home w a) (hm : (w.order! a).market = p.market) (hI0 : Inv w0) (hk0 : Keeps w0 w) (hI : Inv w) :
    Q w0 X w (replacePlace p w o a book np sc failed).1 := by
  unfold replacePlace
  simp only
  have k1 := (q_orderExecutionComplete w0 X w a ha).trans (q_bumpBetId w0 X _)
  generalize (w.orderExecutionComplete a).bumpBetId = w1 at k1
  have hI1 : Inv w1 := k1.good.2 hI
  have hk1 : Keeps w0 w1 := hk0.trans k1.good.1
  have ha1 := k1.hasOrder a ha
  obtain ⟨hlen, hst2, hmk2⟩ := createReplacement_new w1 a (np.getD 0) sc p.created hI1
  have hnew : ¬ HasOrder w0 (w1.createReplacement a (np.getD 0) sc p.created).2 := by
    rw [hlen]; exact not_hasOrder_len w0 w1 hI0 hk1
  have hnb : ∀ m, (w1.createReplacement a (np.getD 0) sc p.created).2 ∉ (w1.market! m).blotter := by
    intro m hc
    have := (hI1.blotter_hasOrder m _ hc)
    rw [hlen] at this
    exact not_hasOrder_len w1 w1 hI1 (Keeps.refl w1) this
  have q2 := q_createReplacement w0 X w1 a (np.getD 0) sc p.created hI1
  have hr := createReplacement_mem w1 a (np.getD 0) sc p.created
  have hmkts : (w1.createReplacement a (np.getD 0) sc p.created).1.markets = w1.markets := by unfold createReplacement; rfl
  generalize w1.createReplacement a (np.getD 0) sc p.created = cr at q2 hr hnew hst2 hmk2 hnb hmkts
  obtain ⟨w2, rid⟩ := cr
  simp only at q2 hr hnew hst2 hmk2 hnb hmkts ⊢
  have k2 := k1.trans q2
  have hr2 : HasOrder w2 rid := (hasOrder_iff w2 rid).mpr hr
  generalize (w2.order! rid).sim.place p.marketVersion (w2.client! p.client).bpe (w2.client! ((w2.order! rid).client.getD 0)).fullMatch book.view
    ((runnerOf book (w2.order! rid).sel (w2.order! rid).hc).getD { sel := (w2.order! rid).sel }).view false none w2.betId = pr
  have q3 := q_modifyOrder w0 X w2 rid (fun x => { x with sim := pr.1 }) (fun _ h => h) rfl rfl
  have hst3 : St (w2.modifyOrder rid (fun x => { x with sim := pr.1 })) rid = none := by
    unfold St
    rcases order!_modify' w2 rid rid (fun x => { x with sim := pr.1 }) (fun _ h => h) with h | ⟨_, _, h⟩ <;> rw [h] <;> exact hst2
  have hmk3 : ((w2.modifyOrder rid (fun x => { x with sim := pr.1 })).order! rid).market = p.market := by
    rw [q3.mkt rid hr2, hmk2, k1.mkt a ha, hm]
  have hm3 : (w2.modifyOrder rid (fun x => { x with sim := pr.1 })).markets = w1.markets := hmkts
  have k3 := k2.trans q3
  generalize w2.modifyOrder rid (fun x => { x with sim := pr.1 }) = w3 at k3 q3 hst3 hmk3 hm3
  have hr3 := q3.hasOrder rid hr2
  cases pr.2.status with
  | success =>
    simp only
    have q4 := (q_modifyOrder w0 X w3 rid (fun x => { x with placedAt := some w3.clock, betId := pr.2.betId }) (fun _ h => h) rfl rfl).trans (q_emit w0 X _ (.orderEvent rid))
    have hst4 : St ((w3.modifyOrder rid (fun x => { x with placedAt := some w3.clock, betId := pr.2.betId })).emit (.orderEvent rid)) rid = none := by
      unfold St
      rw [order!_congr _ _ (emit_orders _ _)]
      rcases order!_modify' w3 rid rid (fun x => { x with placedAt := some w3.clock, betId := pr.2.betId }) (fun _ h => h) with h | ⟨_, _, h⟩ <;> rw [h] <;> exact hst3
    have hm4 : ((w3.modifyOrder rid (fun x => { x with placedAt := some w3.clock, betId := pr.2.betId })).emit (.orderEvent rid)).markets = w1.markets := hm3
    have k4 := k3.trans q4
    generalize (w3.modifyOrder rid (fun x => { x with placedAt := some w3.clock, betId := pr.2.betId })).emit (.orderEvent rid) = w4 at k4 q4 hst4 hm4
    have hr4 := q4.hasOrder rid hr3
    have hmk4 : (w4.order! rid).market = p.market := by rw [q4.mkt rid hr3]; exact hmk3
    have hmm : ∀ m, w4.market! m = w1.market! m := Inv.market!_congr w4 w1 hm4
    have hex : (w4.market? p.market).isSome = true := by
      have := home_market_exists w1 a (k1.home a ha hh)
      rw [k1.mkt a ha, hm] at this
      unfold market? at this ⊢; rw [hm4]; exact this
    obtain ⟨q5, hh5⟩ := q_txnPlace_noexec w0 X w4 { market := p.market, client := o.client.getD ((w4.clients.head?.map (·.id)).getD 0) } rid none hr4 hnew
      (by rw [hmm]; exact hnb p.market) hst4 hmk4 hex
    exact ((k4.trans q5).trans (q_orderExecutable w0 X _ rid (q5.hasOrder rid hr4) (Or.inl hnew) hh5)).trans (q_tradeExit w0 X _ _)
  | failure =>
    have q4 := q_orderExecutionComplete w0 X w3 rid hr3
    have k4 := k3.trans q4
    exact (k4.trans (q_orderExecutable w0 X _ a (k4.hasOrder a ha) (Or.inr hx) (k4.home a ha hh))).trans (q_tradeExit w0 X _ _)

theorem q_replaceStep (w0 : World) (X : List Nat) (p : Package) (acc : World × Nat) (pr : Nat × Option Rat) (ha : HasOrder acc.1 pr.1) (hx : pr.1 ∈ X)
    (hh : Home acc.1 pr.1) (hm : (acc.1.order! pr.1).market = p.market) (hI0 : Inv w0) (hk0 : Keeps w0 acc.1) (hI : Inv acc.1) :
    Q w0 X acc.1 (replaceStep p acc pr).1 := by
  obtain ⟨w, failed⟩ := acc
  obtain ⟨a, newPrice⟩ := pr
  unfold replaceStep
  simp only
  simp only at ha hx hh hm hk0 hI
  have k1 := q_tradeEnter w0 X w (w.order! a).trade
  generalize w.tradeEnter (w.order! a).trade = w1 at k1
  generalize (w.order! a).sim.cancel (((w1.market! p.market).book).getD {}).status
    (if (w.order! a).ud.hasReduction then (w.order! a).ud.sizeReduction else none) = cr
  have k2 := k1.trans (q_modifyOrder w0 X w1 a (fun o => { o with sim := cr.1, cancelResponses := o.cancelResponses + 1 }) (fun _ h => h) rfl rfl)
  generalize w1.modifyOrder a (fun o => { o with sim := cr.1, cancelResponses := o.cancelResponses + 1 }) = w2 at k2
  have h2 := k2.hasOrder a ha
  have hh2 := k2.home a ha hh
  cases cr.2.status with
  | failure => exact (k2.trans (q_orderExecutable w0 X w2 a h2 (Or.inr hx) hh2)).trans (q_tradeExit w0 X _ _)
  | success =>
    exact k2.trans (q_replacePlace w0 X p w2 _ a _ newPrice _ failed h2 hx hh2 (by rw [k2.mkt a ha]; exact hm) hI0 (hk0.trans k2.good.1) (k2.good.2 hI))

theorem foldl_congr_mem {α β} (f g : β → α → β) (l : List α) (b : β) (h : ∀ b, ∀ a ∈ l, f b a = g b a) : l.foldl f b = l.foldl g b := by
  induction l generalizing b with
  | nil => rfl
  | cons a as ih =>
    rw [List.foldl_cons, List.foldl_cons, h b a List.mem_cons_self]
    exact ih _ (fun b x hx => h b x (List.mem_cons_of_mem _ hx))

/-- what a handler needs to know about the order it is about to handle -/
def Ok (p : Package) (w : World) (oid : Nat) : Prop := HasOrder w oid ∧ Home w oid ∧ (w.order! oid).market = p.market

theorem Ok.step {w0 : World} {X : List Nat} {w w' : World} {p : Package} {oid : Nat} (h : Q w0 X w w') (ok : Ok p w oid) : Ok p w' oid :=
  ⟨h.hasOrder oid ok.1, h.home oid ok.1 ok.2.1, by rw [h.mkt oid ok.1]; exact ok.2.2⟩

theorem q_foldl_ok {α} (w0 : World) (X : List Nat) (p : Package) (f : World → α → World) (key : α → Nat) (l : List α) (w : World)
    (hf : ∀ w a, Keeps w0 w → Inv w → Ok p w (key a) → Q w0 X w (f w a))
    (hk : Keeps w0 w) (hI : Inv w) (hl : ∀ a ∈ l, Ok p w (key a)) : Q w0 X w (l.foldl f w) := by
  induction l generalizing w with
  | nil => exact Q.refl w0 X w
  | cons a as ih =>
    rw [List.foldl_cons]
    have k := hf w a hk hI (hl a List.mem_cons_self)
    exact k.trans (ih _ (hk.trans k.good.1) (k.good.2 hI) (fun x hx => Ok.step k (hl x (List.mem_cons_of_mem _ hx))))

theorem q_foldl_pair_ok {α β} (w0 : World) (X : List Nat) (p : Package) (f : World × β → α → World × β) (key : α → Nat) (l : List α) (acc : World × β)
    (hf : ∀ (acc : World × β) (a : α), Keeps w0 acc.1 → Inv.Inv acc.1 → Ok p acc.1 (key a) → Q w0 X acc.1 (f acc a).1)
    (hk : Keeps w0 acc.1) (hI : Inv.Inv acc.1) (hl : ∀ a ∈ l, Ok p acc.1 (key a)) : Q w0 X acc.1 (l.foldl f acc).1 := by
  induction l generalizing acc with
  | nil => exact Q.refl w0 X _
  | cons a as ih =>
    rw [List.foldl_cons]
    have k := hf acc a hk hI (hl a List.mem_cons_self)
    exact k.trans (ih _ (hk.trans k.good.1) (k.good.2 hI) (fun x hx => Ok.step k (hl x (List.mem_cons_of_mem _ hx))))

/-- `SimulatedExecution.handler` on a package whose orders exist, sit in the blotter of their market, which is the package's -/
theorem q_executePackage (w0 : World) (X : List Nat) (w : World) (p : Package) (hX : ∀ oid ∈ p.orders, oid ∈ X)
    (hI0 : Inv w0) (hk0 : Keeps w0 w) (hI : Inv w) (hp : ∀ oid ∈ p.orders, Ok p w oid) : Q w0 X w (w.executePackage p) := by
  have hpo : ∀ oid ∈ w.packageOrders p, Ok p w oid := fun oid h => hp oid (List.mem_filter.mp h).1
  have hpx : ∀ oid ∈ w.packageOrders p, oid ∈ X := fun oid h => hX oid (List.mem_filter.mp h).1
  unfold executePackage
  cases p.kind with
  | place =>
    simp only; unfold executePlace
    -- membership in X travels with the element: fold over the attached list is avoided by putting it in the key predicate
    have := q_foldl_ok w0 X p (fun w oid => if oid ∈ X then placeStep p w oid else w) id (w.packageOrders p) w
      (fun w oid _ _ ok => by
        split
        · rename_i hx; exact q_placeStep w0 X p w oid ok.1 hx ok.2.1
        · exact Q.refl w0 X w) hk0 hI hpo
    have heq : (w.packageOrders p).foldl (fun w oid => if oid ∈ X then placeStep p w oid else w) w = (w.packageOrders p).foldl (placeStep p) w := by
      apply foldl_congr_mem
      intro w' oid ho
      rw [if_pos (hpx oid ho)]
    rw [heq] at this
    exact this.trans (q_addTransaction _ _ _ _ _ _)
  | cancel =>
    simp only; unfold executeCancel
    simp only
    have := q_foldl_pair_ok w0 X p (fun acc oid => if oid ∈ X then cancelStep p acc oid else acc) id (w.packageOrders p) (w, 0)
      (fun acc oid _ _ ok => by
        split
        · rename_i hx; exact q_cancelStep w0 X p acc oid ok.1 hx ok.2.1
        · exact Q.refl w0 X _) hk0 hI hpo
    have heq : (w.packageOrders p).foldl (fun acc oid => if oid ∈ X then cancelStep p acc oid else acc) (w, 0) = (w.packageOrders p).foldl (cancelStep p) (w, 0) := by
      apply foldl_congr_mem
      intro acc oid ho
      rw [if_pos (hpx oid ho)]
    rw [heq] at this
    generalize (w.packageOrders p).foldl (cancelStep p) (w, 0) = r at this
    obtain ⟨w1, failed⟩ := r
    simp only at this ⊢
    split
    · exact this.trans (q_addTransaction _ _ _ _ _ _)
    · exact this
  | update =>
    simp only; unfold executeUpdate
    simp only
    have := q_foldl_pair_ok w0 X p (fun acc oid => if oid ∈ X then updateStep p acc oid else acc) id (w.packageOrders p) (w, 0)
      (fun acc oid _ _ ok => by
        split
        · rename_i hx; exact q_updateStep w0 X p acc oid ok.1 hx ok.2.1
        · exact Q.refl w0 X _) hk0 hI hpo
    have heq : (w.packageOrders p).foldl (fun acc oid => if oid ∈ X then updateStep p acc oid else acc) (w, 0) = (w.packageOrders p).foldl (updateStep p) (w, 0) := by
      apply foldl_congr_mem
      intro acc oid ho
      rw [if_pos (hpx oid ho)]
    rw [heq] at this
    generalize (w.packageOrders p).foldl (updateStep p) (w, 0) = r at this
    obtain ⟨w1, failed⟩ := r
    simp only at this ⊢
    split
    · exact this.trans (q_addTransaction _ _ _ _ _ _)
    · exact this
  | replace =>
    simp only; unfold executeReplace
    simp only
    have hz : ∀ a ∈ (((w.packageOrders p).filter fun oid => (w.order! oid).status ≠ some .executionComplete).map fun oid => (oid, (w.order! oid).ud.newPrice)),
        Ok p w a.1 ∧ a.1 ∈ X := by
      intro a ha
      obtain ⟨oid, ho, rfl⟩ := List.mem_map.mp ha
      exact ⟨hpo oid (List.mem_filter.mp ho).1, hpx oid (List.mem_filter.mp ho).1⟩
    generalize (((w.packageOrders p).filter fun oid => (w.order! oid).status ≠ some .executionComplete).map fun oid => (oid, (w.order! oid).ud.newPrice)) = zs at hz
    have := q_foldl_pair_ok w0 X p (fun acc pr => if pr.1 ∈ X then replaceStep p acc pr else acc) (fun a => a.1) zs (w, 0)
      (fun acc pr hk hi ok => by
        split
        · rename_i hx; exact q_replaceStep w0 X p acc pr ok.1 hx ok.2.1 ok.2.2 hI0 hk hi
        · exact Q.refl w0 X _) hk0 hI (fun a ha => (hz a ha).1)
    have heq : zs.foldl (fun acc pr => if pr.1 ∈ X then replaceStep p acc pr else acc) (w, 0) = zs.foldl (replaceStep p) (w, 0) := by
      apply foldl_congr_mem
      intro acc pr ho
      rw [if_pos (hz pr ho).2]
    rw [heq] at this
    generalize zs.foldl (replaceStep p) (w, 0) = r at this
    obtain ⟨w1, failed⟩ := r
    simp only at this ⊢
    split
    · exact (this.trans (q_addTransaction _ _ _ _ _ _)).trans (q_addTransaction _ _ _ _ _ _)
    · exact this.trans (q_addTransaction _ _ _ _ _ _)

theorem q_execAll (w0 : World) (X : List Nat) (l : List Package) (w : World) (hX : ∀ p ∈ l, ∀ oid ∈ p.orders, oid ∈ X)
    (hI0 : Inv w0) (hk0 : Keeps w0 w) (hI : Inv w) (hl : ∀ p ∈ l, ∀ oid ∈ p.orders, Ok p w oid) :
    Q w0 X w (l.foldl (fun w p => w.executePackage p) w) := by
  induction l generalizing w with
  | nil => exact Q.refl w0 X w
  | cons p ps ih =>
    rw [List.foldl_cons]
    have k := q_executePackage w0 X w p (hX p List.mem_cons_self) hI0 hk0 hI (hl p List.mem_cons_self)
    exact k.trans (ih _ (fun q hq => hX q (List.mem_cons_of_mem _ hq)) (hk0.trans k.good.1) (k.good.2 hI)
      (fun q hq oid h => Ok.step k (hl q (List.mem_cons_of_mem _ hq) oid h)))

/-! ### middleware, completion loop, closure -/

theorem q_foldl_mem {α} (w0 : World) (X : List Nat) (f : World → α → World) (key : α → Nat) (l : List α) (w : World)
    (hf : ∀ w a, HasOrder w (key a) → Q w0 X w (f w a)) (hl : ∀ a ∈ l, HasOrder w (key a)) : Q w0 X w (l.foldl f w) := by
  induction l generalizing w with
  | nil => exact Q.refl w0 X w
  | cons a as ih =>
    rw [List.foldl_cons]
    have k := hf w a (hl a List.mem_cons_self)
    exact k.trans (ih _ (fun x hx => k.hasOrder _ (hl x (List.mem_cons_of_mem _ hx))))

theorem q_foldl_pair_mem {α β} (w0 : World) (X : List Nat) (f : World × β → α → World × β) (key : α → Nat) (l : List α) (acc : World × β)
    (hf : ∀ (acc : World × β) (a : α), HasOrder acc.1 (key a) → Q w0 X acc.1 (f acc a).1) (hl : ∀ a ∈ l, HasOrder acc.1 (key a)) :
    Q w0 X acc.1 (l.foldl f acc).1 := by
  induction l generalizing acc with
  | nil => exact Q.refl w0 X _
  | cons a as ih =>
    rw [List.foldl_cons]
    have k := hf acc a (hl a List.mem_cons_self)
    exact k.trans (ih _ (fun x hx => k.hasOrder _ (hl x (List.mem_cons_of_mem _ hx))))

theorem q_foldl_inv {α} (w0 : World) (X : List Nat) (f : World → α → World) (hf : ∀ w a, Inv.Inv w → Q w0 X w (f w a)) (l : List α) (w : World)
    (hI : Inv.Inv w) : Q w0 X w (l.foldl f w) := by
  induction l generalizing w with
  | nil => exact Q.refl w0 X w
  | cons a as ih => rw [List.foldl_cons]; exact (hf w a hI).trans (ih _ ((hf w a hI).good.2 hI))

theorem removalOnOrder_market (w : World) (m : Market) (rsel : Nat) (rhc : Rat) (raf : Option Rat) (o : Order) :
    (w.removalOnOrder m rsel rhc raf o).market = o.market := by
  unfold removalOnOrder
  simp only
  repeat' split
  all_goals rfl

theorem q_processRunnerRemoval (w0 : World) (X : List Nat) (w : World) (mid rsel : Nat) (rhc : Rat) (raf : Option Rat) :
    Q w0 X w (w.processRunnerRemoval mid rsel rhc raf) := by
  unfold processRunnerRemoval
  simp only
  exact q_foldl w0 X _ (fun w oid => q_modifyOrder w0 X w oid _ (fun o _ => by rw [Ids.removalOnOrder_id w _ rsel rhc raf o]; assumption)
    (removalOnOrder_status w _ rsel rhc raf _).1 (removalOnOrder_market w _ rsel rhc raf _)) _ w

theorem q_matchStep (w0 : World) (X : List Nat) (mid : Nat) (r : Bool) (acc : World × List (Nat × Rat × List (Rat × Rat))) (o0 : Order)
    (ho : HasOrder acc.1 o0.id) : Q w0 X acc.1 (matchStep mid r acc o0).1 := by
  obtain ⟨w, lk⟩ := acc
  unfold matchStep
  simp only
  have hid : (w.order! o0.id).id = o0.id := order!_id w o0.id ho
  split
  · exact Q.refl w0 X w
  · generalize (w.order! o0.id).sim.call _ _ _ _ = cr
    have k1 := q_modifyOrder w0 X w (w.order! o0.id).id (fun x => { x with sim := cr.1 }) (fun _ h => h) rfl rfl
    split
    · exact k1.trans (q_orderExecutionComplete w0 X _ _ (k1.hasOrder _ (by rw [hid]; exact ho)))
    · exact k1

theorem q_matchOrders (w0 : World) (X : List Nat) (w : World) (mid : Nat) (l : List Order) (r : Bool) (hl : ∀ x ∈ l, HasOrder w x.id) :
    Q w0 X w (w.matchOrders mid l r) := by
  unfold matchOrders
  exact q_foldl_pair_mem w0 X (matchStep mid r) (fun x => x.id) l (w, (w.market! mid).analytics.map fun a => (a.sel, a.hc, a.traded)) (fun acc o h => q_matchStep w0 X mid r acc o h) hl

theorem q_matchStrategy (w0 : World) (X : List Nat) (mid : Nat) (w : World) (sid : Nat) (hI : Inv.Inv w) : Q w0 X w (matchStrategy mid w sid) := by
  unfold matchStrategy
  simp only
  split
  · exact Q.refl w0 X w
  · apply q_matchOrders
    intro x hx
    have hx1 := mem_sortOrders' _ x hx
    unfold strategyLive at hx1
    exact live_orders_exist w mid hI _ (fun _ ho => ho) x (List.mem_filter.mp hx1).1

theorem q_mwProcessSimulatedOrders (w0 : World) (X : List Nat) (w : World) (mid : Nat) (hI : Inv.Inv w) : Q w0 X w (w.mwProcessSimulatedOrders mid) := by
  unfold mwProcessSimulatedOrders
  simp only
  split
  · exact q_foldl_inv w0 X _ (fun w sid h => q_matchStrategy w0 X mid w sid h) _ w hI
  · split
    · exact Q.refl w0 X w
    · apply q_matchOrders
      intro x hx
      exact live_orders_exist w mid hI _ (fun oid ho => hI.live_sub mid oid ho) x (mem_sortOrders' _ x hx)

theorem q_mwUpdateAnalytics (w0 : World) (X : List Nat) (w : World) (mid : Nat) : Q w0 X w (w.mwUpdateAnalytics mid).1 := by
  unfold mwUpdateAnalytics
  simp only
  exact Q.trans (b := { w with removals := w.removals ++ (detectRemovals ((w.market! mid).book.getD {}).runners (w.market! mid).removals).2 })
    (Q.of_eq rfl rfl rfl rfl) (q_modifyMarket w0 X _ mid _ (fun m => ⟨rfl, rfl, rfl⟩))

theorem q_simulatedMiddleware (w0 : World) (X : List Nat) (w : World) (mid : Nat) (hI : Inv.Inv w) : Q w0 X w (w.simulatedMiddleware mid) := by
  unfold simulatedMiddleware
  simp only
  have k1 := q_mwUpdateAnalytics w0 X w mid
  generalize w.mwUpdateAnalytics mid = p at k1
  have k2 := k1.trans (q_foldl w0 X (fun w (k : Nat × Rat × Option Rat) => w.processRunnerRemoval mid k.1 k.2.1 k.2.2)
    (fun w k => q_processRunnerRemoval w0 X w mid k.1 k.2.1 k.2.2) p.2 p.1)
  split
  · exact k2.trans (q_mwProcessSimulatedOrders w0 X _ mid (k2.good.2 hI))
  · exact k2

/-- one order of the completion loop -/
theorem q_loopStep (w0 : World) (X : List Nat) (mid : Nat) (w : World) (oid : Nat) (ho : HasOrder w oid) :
    Q w0 X w (let o := w.order! oid
      if o.complete then w.blotterComplete mid oid
      else match o.sim.kind with
        | .limit => if o.sim.sizeRemaining = 0 then (w.orderExecutionComplete oid).blotterComplete mid oid else w
        | _ => if o.sim.simStatus = .executionComplete then (w.orderExecutionComplete oid).blotterComplete mid oid else w) := by
  have hdone : Q w0 X w ((w.orderExecutionComplete oid).blotterComplete mid oid) :=
    (q_orderExecutionComplete w0 X w oid ho).trans (q_blotterComplete w0 X _ mid oid)
  simp only
  split
  · exact q_blotterComplete w0 X w mid oid
  · split
    · split
      · exact hdone
      · exact Q.refl w0 X w
    · split
      · exact hdone
      · exact Q.refl w0 X w

theorem q_processSimulatedOrders (w0 : World) (X : List Nat) (w : World) (mid : Nat) (hI : Inv.Inv w) : Q w0 X w (w.processSimulatedOrders mid) := by
  have hl : ∀ oid ∈ (w.market! mid).live, HasOrder w oid := fun oid ho => hI.blotter_hasOrder mid oid (hI.live_sub mid oid ho)
  unfold processSimulatedOrders
  simp only
  refine Q.trans (q_foldl_mem w0 X _ id _ w (fun w oid ho => q_loopStep w0 X mid w oid ho) hl) (q_foldl w0 X _ ?_ _ _)
  intro w s
  split
  · exact q_emit w0 X w _
  · exact Q.refl w0 X w

theorem q_blotterProcessClosed (w0 : World) (X : List Nat) (w : World) (mid : Nat) (book : Book) (hI : Inv.Inv w) :
    Q w0 X w (w.blotterProcessClosed mid book) := by
  have hl : ∀ oid ∈ (w.market! mid).blotter, HasOrder w oid := hI.blotter_hasOrder mid
  unfold blotterProcessClosed
  simp only
  refine q_foldl_mem w0 X _ id _ w ?_ hl
  intro w oid ho
  split
  · exact Q.refl w0 X w
  · have hid := order!_id w oid ho
    exact q_setOrder w0 X w _ (by simp only [hid]) (by simp only [hid])

theorem q_processCloseMarket (w0 : World) (X : List Nat) (w : World) (mid : Nat) (book : Book) (hI : Inv.Inv w) :
    Q w0 X w (w.processCloseMarket mid book) := by
  unfold processCloseMarket
  split
  · exact q_emit w0 X w _
  · rename_i m hm
    have k0 : Q w0 X w (if (!m.closed) = true then w.modifyMarket mid (fun m => { m with closed := true, closedAt := some w.clock }) else w) := by
      split
      · exact q_modifyMarket w0 X w mid _ (fun _ => ⟨rfl, rfl, rfl⟩)
      · exact Q.refl w0 X w
    have k01 := k0.trans (q_modifyMarket w0 X _ mid (fun m => { m with book := some book }) (fun _ => ⟨rfl, rfl, rfl⟩))
    have k : Q w0 X w (((if (!m.closed) = true then w.modifyMarket mid (fun m => { m with closed := true, closedAt := some w.clock }) else w).modifyMarket mid
        (fun m => { m with book := some book })).blotterProcessClosed mid book) :=
      k01.trans (q_blotterProcessClosed w0 X _ mid book (k01.good.2 hI))
    simp only
    generalize (((if (!m.closed) = true then w.modifyMarket mid (fun m => { m with closed := true, closedAt := some w.clock }) else w).modifyMarket mid
        (fun m => { m with book := some book })).blotterProcessClosed mid book) = w1 at k
    have k2 : Q w0 X w1 ({ w1 with out := w1.out ++ w1.closeCallbacks mid book ++ w1.clearedEvents mid ++ [Ev.closeEvent mid] } : World) := Q.of_eq rfl rfl rfl rfl
    generalize ({ w1 with out := w1.out ++ w1.closeCallbacks mid book ++ w1.clearedEvents mid ++ [Ev.closeEvent mid] } : World) = w2 at k2
    have k3 := q_modifyMarket w0 X w2 mid (fun m => { m with analytics := [], hasAnalytics := false }) (fun _ => ⟨rfl, rfl, rfl⟩)
    generalize w2.modifyMarket mid (fun m => { m with analytics := [], hasAnalytics := false }) = w3 at k3
    exact ((k.trans k2).trans k3).trans (Q.of_eq rfl rfl rfl rfl)

/-! ### the invariant: at most one outstanding operation per order -/

/-- the orders a transaction has accepted a request for and not yet packaged -/
def txnIds (t : Txn) : List Nat := (t.pPlace ++ t.pCancel ++ t.pUpdate ++ t.pReplace).map (·.1)

def batchIds : Option Txn → List Nat
  | none => []
  | some t => txnIds t

/-- the orders of the packages waiting in the handler queue -/
def queueIds (w : World) : List Nat := w.queue.flatMap (·.orders)

/-- every outstanding operation, as the id of its order: one entry per accepted request that has not been executed yet -/
def pendIds (w : World) (b : Option Txn) : List Nat := queueIds w ++ batchIds b

structure FI (w : World) (b : Option Txn) : Prop where
  inv : Inv.Inv w
  ex : ∀ oid ∈ pendIds w b, HasOrder w oid
  hx : ∀ oid, HasOrder w oid → St w oid = some .executable → Home w oid
  nd : (pendIds w b).Nodup
  ne : ∀ oid ∈ pendIds w b, St w oid ≠ some .executable
  hm : ∀ oid ∈ pendIds w b, Home w oid
  qm : ∀ p ∈ w.queue, ∀ oid ∈ p.orders, (w.order! oid).market = p.market
  tm : ∀ t, b = some t → ∀ oid ∈ txnIds t, (w.order! oid).market = t.market

theorem pendIds_congr {w w' : World} (h : w'.queue = w.queue) (b : Option Txn) : pendIds w' b = pendIds w b := by
  unfold pendIds queueIds; rw [h]

theorem mem_queueIds {w : World} {oid : Nat} : oid ∈ queueIds w ↔ ∃ p ∈ w.queue, oid ∈ p.orders := by
  unfold queueIds; exact List.mem_flatMap

/-- every EXECUTABLE order is in the blotter of its own market: kept by a step of kind Q -/
theorem Q.keeps_hx {w0 : World} {X : List Nat} {w w' : World} (h : Q w0 X w w')
    (hx : ∀ oid, HasOrder w oid → St w oid = some .executable → Home w oid) :
    ∀ oid, HasOrder w' oid → St w' oid = some .executable → Home w' oid := by
  intro oid ho hs
  rcases h.lv oid ho hs with ⟨hb, sb⟩ | hh
  · exact h.home oid hb (hx oid hb sb)
  · exact hh

/-- a step that is not a request and releases no order keeps the invariant -/
theorem fi_calm {w w' : World} {b : Option Txn} (h : Q w [] w w') (f : FI w b) : FI w' b := by
  have hp := pendIds_congr h.qu b
  refine ⟨h.good.2 f.inv, ?_, h.keeps_hx f.hx, by rw [hp]; exact f.nd, ?_, ?_, ?_, ?_⟩
  · intro oid ho; rw [hp] at ho; exact h.hasOrder oid (f.ex oid ho)
  · intro oid ho hs
    rw [hp] at ho
    have hw := f.ex oid ho
    rcases h.fr oid hw hw with e | e | ⟨e, _⟩ | ⟨_, e⟩
    · rw [e] at hs; exact f.ne oid ho hs
    · rw [e] at hs; cases hs
    · cases e
    · rw [e] at hs; cases hs
  · intro oid ho; rw [hp] at ho; exact h.home oid (f.ex oid ho) (f.hm oid ho)
  · intro p hp' oid ho
    rw [h.qu] at hp'
    have hw : HasOrder w oid := f.ex oid (List.mem_append_left _ (mem_queueIds.mpr ⟨p, hp', ho⟩))
    rw [h.mkt oid hw]; exact f.qm p hp' oid ho
  · intro t ht oid ho
    have hw : HasOrder w oid := f.ex oid (List.mem_append_right _ (by rw [ht]; exact ho))
    rw [h.mkt oid hw]; exact f.tm t ht oid ho

/-! ### executing the due packages -/

theorem sublist_flatMap_filter {α β} (l : List α) (f : α → List β) (r : α → Bool) : ((l.filter r).flatMap f).Sublist (l.flatMap f) := by
  induction l with
  | nil => exact List.Sublist.refl _
  | cons a as ih =>
    rw [List.filter_cons, List.flatMap_cons]
    split
    · rw [List.flatMap_cons]; exact List.Sublist.append (List.Sublist.refl _) ih
    · exact ih.trans (List.sublist_append_right _ _)

theorem mem_flatMap_filter {α β} {l : List α} {f : α → List β} {r : α → Bool} {x : β} (h : x ∈ (l.filter r).flatMap f) : x ∈ l.flatMap f :=
  (sublist_flatMap_filter l f r).subset h

/-- two selections of a list that exclude each other pick disjoint parts of a duplicate-free concatenation -/
theorem disjoint_filters {α β} (l : List α) (f : α → List β) (c r : α → Bool) (hcr : ∀ x ∈ l, c x = true → r x = true → False)
    (hn : (l.flatMap f).Nodup) : ∀ x, x ∈ (l.filter c).flatMap f → x ∈ (l.filter r).flatMap f → False := by
  induction l with
  | nil => intro x h; simp at h
  | cons a as ih =>
    rw [List.flatMap_cons, List.nodup_append] at hn
    obtain ⟨_, hn2, hd⟩ := hn
    have ih' := ih (fun x hx => hcr x (List.mem_cons_of_mem _ hx)) hn2
    intro x h1 h2
    rw [List.filter_cons] at h1 h2
    by_cases ca : c a = true
    · have ra : ¬ r a = true := fun hr => hcr a List.mem_cons_self ca hr
      rw [if_pos ca, List.flatMap_cons] at h1
      rw [if_neg ra] at h2
      rcases List.mem_append.mp h1 with h | h
      · exact hd x h x (mem_flatMap_filter h2) rfl
      · exact ih' x h h2
    · rw [if_neg ca] at h1
      by_cases ra : r a = true
      · rw [if_pos ra, List.flatMap_cons] at h2
        rcases List.mem_append.mp h2 with h | h
        · exact hd x h x (mem_flatMap_filter h1) rfl
        · exact ih' x h1 h
      · rw [if_neg ra] at h2
        exact ih' x h1 h2

theorem fi_checkPendingPackages (w : World) (mid : Nat) (f : FI w none) :
    FI (w.checkPendingPackages mid) none ∧ (w.checkPendingPackages mid).foreign = w.foreign := by
  have hI2 := (good_checkPendingPackages w mid).2 f.inv
  unfold checkPendingPackages at hI2 ⊢
  simp only at hI2 ⊢
  have hpq : pendIds w none = queueIds w := by unfold pendIds batchIds; simp
  have hnd : (w.queue.flatMap (·.orders)).Nodup := by
    have := f.nd; rw [hpq] at this; exact this
  have hdue : ∀ p ∈ w.queue.filter (fun p => p.market = mid ∧ p.delay < elapsedSeconds w.clock p.created), p ∈ w.queue :=
    fun p hp => (List.mem_filter.mp hp).1
  have hmemq : ∀ p ∈ w.queue, ∀ oid ∈ p.orders, oid ∈ pendIds w none := by
    intro p hp oid ho; rw [hpq]; exact mem_queueIds.mpr ⟨p, hp, ho⟩
  have k := q_execAll w ((w.queue.filter (fun p => p.market = mid ∧ p.delay < elapsedSeconds w.clock p.created)).flatMap (·.orders))
    (w.queue.filter (fun p => p.market = mid ∧ p.delay < elapsedSeconds w.clock p.created)) w
    (fun p hp oid ho => List.mem_flatMap.mpr ⟨p, hp, ho⟩) f.inv (Keeps.refl w) f.inv
    (fun p hp oid ho => ⟨f.ex oid (hmemq p (hdue p hp) oid ho), f.hm oid (hmemq p (hdue p hp) oid ho), f.qm p (hdue p hp) oid ho⟩)
  generalize (w.queue.filter (fun p => p.market = mid ∧ p.delay < elapsedSeconds w.clock p.created)).foldl (fun w p => w.executePackage p) w = w1 at k hI2
  have hq1 : w1.queue = w.queue := k.qu
  -- the queue that is left
  have hrem : ∀ oid, oid ∈ pendIds ({ w1 with queue := w1.queue.filter fun p => !((w.queue.filter (fun p => p.market = mid ∧ p.delay < elapsedSeconds w.clock p.created)).any (·.id = p.id)) } : World) none →
      oid ∈ queueIds w ∧ oid ∉ (w.queue.filter (fun p => p.market = mid ∧ p.delay < elapsedSeconds w.clock p.created)).flatMap (·.orders) := by
    intro oid ho
    unfold pendIds batchIds queueIds at ho
    simp only [List.append_nil] at ho
    rw [hq1] at ho
    refine ⟨mem_flatMap_filter ho, fun hd => ?_⟩
    refine disjoint_filters w.queue (·.orders) (fun p => decide (p.market = mid ∧ p.delay < elapsedSeconds w.clock p.created))
      (fun p => !((w.queue.filter (fun p => p.market = mid ∧ p.delay < elapsedSeconds w.clock p.created)).any (·.id = p.id))) ?_ hnd oid hd ho
    intro x hx cx rx
    have : (w.queue.filter (fun p => p.market = mid ∧ p.delay < elapsedSeconds w.clock p.created)).any (·.id = x.id) = true :=
      List.any_eq_true.mpr ⟨x, List.mem_filter.mpr ⟨hx, cx⟩, by simp⟩
    rw [this] at rx; cases rx
  refine ⟨⟨hI2, ?_, ?_, ?_, ?_, ?_, ?_, fun t ht => by cases ht⟩, k.fg⟩
  · intro oid ho
    have := (hrem oid ho).1
    rw [← hpq] at this
    exact k.hasOrder oid (f.ex oid this)
  · exact k.keeps_hx f.hx
  · unfold pendIds batchIds queueIds
    simp only [List.append_nil]
    rw [hq1]
    exact (sublist_flatMap_filter w.queue (·.orders) _).nodup hnd
  · intro oid ho hs
    obtain ⟨h1, h2⟩ := hrem oid ho
    rw [← hpq] at h1
    have hw := f.ex oid h1
    have hs' : St w1 oid = some .executable := hs
    rcases k.fr oid hw hw with e | e | ⟨e, _⟩ | ⟨_, e⟩
    · rw [e] at hs'; exact f.ne oid h1 hs'
    · rw [e] at hs'; cases hs'
    · exact h2 e
    · rw [e] at hs'; cases hs'
  · intro oid ho
    have := (hrem oid ho).1
    rw [← hpq] at this
    exact k.home oid (f.ex oid this) (f.hm oid this)
  · intro p hp oid ho
    have hp' : p ∈ w.queue := by
      have : p ∈ w1.queue := (List.mem_filter.mp hp).1
      rw [hq1] at this; exact this
    show (w1.order! oid).market = p.market
    rw [k.mkt oid (f.ex oid (hmemq p hp' oid ho))]
    exact f.qm p hp' oid ho

/-! ### requests -/

theorem q_validateControls (w0 : World) (X : List Nat) (w : World) (oid cid : Nat) (k : PackKind) (ho : HasOrder w oid) :
    Q w0 X w (w.validateControls oid cid k).1 := by
  unfold validateControls
  simp only
  split
  · exact q_orderViolation w0 X w oid _ ho
  · split
    · exact q_orderViolation w0 X w oid _ ho
    · split
      · split_ifs
        · exact (q_setCtx w0 X w _).trans (q_orderViolation w0 X _ oid _ ((q_setCtx w0 X w _).hasOrder oid ho))
        · exact q_orderViolation w0 X w oid _ ho
      · split_ifs
        · exact (q_setCtx w0 X w _).trans (q_setClient w0 X _ _)
        · exact ((q_setCtx w0 X w _).trans (q_setClient w0 X _ _)).trans (q_orderViolation w0 X _ oid _ (((q_setCtx w0 X w _).trans (q_setClient w0 X _ _)).hasOrder oid ho))
        · exact q_setClient w0 X w _
        · exact (q_setClient w0 X w _).trans (q_orderViolation w0 X _ oid _ ((q_setClient w0 X w _).hasOrder oid ho))

/-- the status of an order with no outstanding operation moves to a status other than EXECUTABLE -/
theorem fi_setStatus_free {w : World} {b : Option Txn} (f : FI w b) (a : Nat) (s : Status) (ha : HasOrder w a) (hnp : a ∉ pendIds w b)
    (hne : s ≠ .executable) : FI (w.orderUpdateStatus a s) b := by
  have hq := orderUpdateStatus_queue w a s
  have hp := pendIds_congr hq b
  have hmk : ∀ m, (w.orderUpdateStatus a s).market! m = w.market! m := Inv.market!_congr _ _ (orderUpdateStatus_markets w a s)
  have hself := orderUpdateStatus_self w a s ha
  have hoth := fun oid (hne : oid ≠ a) => orderUpdateStatus_other w oid a s ha hne
  have hmkt : ∀ oid, ((w.orderUpdateStatus a s).order! oid).market = (w.order! oid).market := by
    intro oid
    by_cases e : oid = a
    · rw [e, hself]; rfl
    · rw [hoth oid e]
  have hhome : ∀ oid, Home w oid → Home (w.orderUpdateStatus a s) oid := by
    intro oid h; unfold Home at h ⊢; rw [hmkt, hmk]; exact h
  have hback : ∀ oid, HasOrder (w.orderUpdateStatus a s) oid → HasOrder w oid := by
    intro oid ho
    rw [hasOrder_congr _ _ (orderUpdateStatus_orders w a s)] at ho
    rw [hasOrder_iff] at ho ⊢
    have : ids (w.setOrder (stamped (w.order! a) w.clock s)) = ids w := by
      rw [setOrder_eq_modify]; exact ids_modifyOrder w _ _ (fun _ _ => rfl)
    rw [this] at ho; exact ho
  have hsa : St (w.orderUpdateStatus a s) a = some s := by unfold St; rw [hself]; rfl
  have hso : ∀ oid, oid ≠ a → St (w.orderUpdateStatus a s) oid = St w oid := by intro oid e; unfold St; rw [hoth oid e]
  refine ⟨(good_orderUpdateStatus w a s).2 f.inv, ?_, ?_, by rw [hp]; exact f.nd, ?_, ?_, ?_, ?_⟩
  · intro oid ho; rw [hp] at ho; exact hasOrder_orderUpdateStatus w oid a s (f.ex oid ho)
  · intro oid ho hs
    by_cases e : oid = a
    · rw [e, hsa] at hs; exact absurd (Option.some.inj hs) hne
    · rw [hso oid e] at hs; exact hhome oid (f.hx oid (hback oid ho) hs)
  · intro oid ho hs
    rw [hp] at ho
    have e : oid ≠ a := fun e => hnp (e ▸ ho)
    rw [hso oid e] at hs; exact f.ne oid ho hs
  · intro oid ho; rw [hp] at ho; exact hhome oid (f.hm oid ho)
  · intro p hp' oid ho; rw [hq] at hp'; rw [hmkt]; exact f.qm p hp' oid ho
  · intro t ht oid ho; rw [hmkt]; exact f.tm t ht oid ho

/-- the accepted request enters the transaction's pending list -/
theorem fi_add {w : World} {t t' : Txn} (f : FI w (some t)) (a : Nat) (ha : HasOrder w a) (hnp : a ∉ pendIds w (some t))
    (hs : St w a ≠ some .executable) (hh : Home w a) (hmk : (w.order! a).market = t.market) (htm : t'.market = t.market)
    (hids : ∀ x, x ∈ txnIds t' ↔ x = a ∨ x ∈ txnIds t) (hnd : (txnIds t).Nodup → a ∉ txnIds t → (txnIds t').Nodup) : FI w (some t') := by
  have hmem : ∀ x, x ∈ pendIds w (some t') ↔ x = a ∨ x ∈ pendIds w (some t) := by
    intro x
    unfold pendIds batchIds
    simp only [List.mem_append, hids]
    constructor
    · rintro (h | h | h)
      · exact Or.inr (Or.inl h)
      · exact Or.inl h
      · exact Or.inr (Or.inr h)
    · rintro (h | h | h)
      · exact Or.inr (Or.inl h)
      · exact Or.inl h
      · exact Or.inr (Or.inr h)
  have hnd0 := f.nd
  unfold pendIds batchIds at hnd0 hnp
  simp only at hnd0 hnp
  rw [List.nodup_append] at hnd0
  refine ⟨f.inv, ?_, f.hx, ?_, ?_, ?_, f.qm, ?_⟩
  · intro oid ho
    rcases (hmem oid).mp ho with e | e
    · rw [e]; exact ha
    · exact f.ex oid e
  · unfold pendIds batchIds
    simp only
    rw [List.nodup_append]
    refine ⟨hnd0.1, hnd (hnd0.2.1) (fun h => hnp (List.mem_append_right _ h)), ?_⟩
    intro x hx y hy
    rcases (hids y).mp hy with e | e
    · rw [e]; intro exy; rw [exy] at hx; exact hnp (List.mem_append_left _ hx)
    · exact hnd0.2.2 x hx y e
  · intro oid ho
    rcases (hmem oid).mp ho with e | e
    · rw [e]; exact hs
    · exact f.ne oid e
  · intro oid ho
    rcases (hmem oid).mp ho with e | e
    · rw [e]; exact hh
    · exact f.hm oid e
  · intro t2 ht2 oid ho
    have : t' = t2 := Option.some.inj ht2
    subst this
    rw [htm]
    rcases (hids oid).mp ho with e | e
    · rw [e]; exact hmk
    · exact f.tm t rfl oid e

theorem fi_add' {w : World} {t t' : Txn} (f : FI w (some t)) (a : Nat) (ha : HasOrder w a) (hnp : a ∉ pendIds w (some t))
    (hs : St w a ≠ some .executable) (hh : Home w a) (hmk : (w.order! a).market = t.market) (htm : t'.market = t.market)
    (hperm : (txnIds t').Perm (a :: txnIds t)) : FI w (some t') := by
  refine fi_add f a ha hnp hs hh hmk htm (fun x => ?_) (fun hn hna => ?_)
  · rw [hperm.mem_iff]; exact List.mem_cons
  · rw [hperm.nodup_iff]; exact List.nodup_cons.mpr ⟨hna, hn⟩

theorem perm_ins (L R : List (Nat × Option Int)) (x : Nat × Option Int) :
    ((L ++ x :: R).map (·.1)).Perm (x.1 :: (L ++ R).map (·.1)) := by
  rw [List.map_append, List.map_append, List.map_cons]; exact List.perm_middle

theorem txnIds_place (t : Txn) (x : Nat × Option Int) (b : Bool) :
    (txnIds { t with pPlace := t.pPlace ++ [x], pendingOrders := b }).Perm (x.1 :: txnIds t) := by
  unfold txnIds
  have h1 : t.pPlace ++ [x] ++ t.pCancel ++ t.pUpdate ++ t.pReplace = t.pPlace ++ x :: (t.pCancel ++ t.pUpdate ++ t.pReplace) := by simp
  have h2 : t.pPlace ++ t.pCancel ++ t.pUpdate ++ t.pReplace = t.pPlace ++ (t.pCancel ++ t.pUpdate ++ t.pReplace) := by simp
  show ((t.pPlace ++ [x] ++ t.pCancel ++ t.pUpdate ++ t.pReplace).map (·.1)).Perm _
  rw [h1, h2]; exact perm_ins _ _ x

theorem txnIds_cancel (t : Txn) (x : Nat × Option Int) (b : Bool) :
    (txnIds { t with pCancel := t.pCancel ++ [x], pendingOrders := b }).Perm (x.1 :: txnIds t) := by
  unfold txnIds
  have h1 : t.pPlace ++ (t.pCancel ++ [x]) ++ t.pUpdate ++ t.pReplace = (t.pPlace ++ t.pCancel) ++ x :: (t.pUpdate ++ t.pReplace) := by simp
  have h2 : t.pPlace ++ t.pCancel ++ t.pUpdate ++ t.pReplace = (t.pPlace ++ t.pCancel) ++ (t.pUpdate ++ t.pReplace) := by simp
  show ((t.pPlace ++ (t.pCancel ++ [x]) ++ t.pUpdate ++ t.pReplace).map (·.1)).Perm _
  rw [h1, h2]; exact perm_ins _ _ x

theorem txnIds_update (t : Txn) (x : Nat × Option Int) (b : Bool) :
    (txnIds { t with pUpdate := t.pUpdate ++ [x], pendingOrders := b }).Perm (x.1 :: txnIds t) := by
  unfold txnIds
  have h1 : t.pPlace ++ t.pCancel ++ (t.pUpdate ++ [x]) ++ t.pReplace = (t.pPlace ++ t.pCancel ++ t.pUpdate) ++ x :: t.pReplace := by simp
  show ((t.pPlace ++ t.pCancel ++ (t.pUpdate ++ [x]) ++ t.pReplace).map (·.1)).Perm _
  rw [h1]; exact perm_ins _ _ x

theorem txnIds_replace (t : Txn) (x : Nat × Option Int) (b : Bool) :
    (txnIds { t with pReplace := t.pReplace ++ [x], pendingOrders := b }).Perm (x.1 :: txnIds t) := by
  unfold txnIds
  have h1 : t.pPlace ++ t.pCancel ++ t.pUpdate ++ (t.pReplace ++ [x]) = (t.pPlace ++ t.pCancel ++ t.pUpdate ++ t.pReplace) ++ x :: [] := by simp
  have h2 : t.pPlace ++ t.pCancel ++ t.pUpdate ++ t.pReplace = (t.pPlace ++ t.pCancel ++ t.pUpdate ++ t.pReplace) ++ [] := by simp
  show ((t.pPlace ++ t.pCancel ++ t.pUpdate ++ (t.pReplace ++ [x])).map (·.1)).Perm _
  rw [h1]
  conv => rhs; rw [h2]
  exact perm_ins _ _ x

theorem home_orderUpdateStatus (w : World) (a : Nat) (s : Status) (ha : HasOrder w a) (oid : Nat) (h : Home w oid) :
    Home (w.orderUpdateStatus a s) oid := by
  have hmk : ∀ m, (w.orderUpdateStatus a s).market! m = w.market! m := Inv.market!_congr _ _ (orderUpdateStatus_markets w a s)
  have hmkt : ((w.orderUpdateStatus a s).order! oid).market = (w.order! oid).market := by
    by_cases e : oid = a
    · rw [e, orderUpdateStatus_self w a s ha]; rfl
    · rw [orderUpdateStatus_other w oid a s ha e]
  unfold Home at h ⊢; rw [hmkt, hmk]; exact h

/-- markets are never removed -/
def MX (w w' : World) : Prop := ∀ m, (w.market? m).isSome = true → (w'.market? m).isSome = true

theorem MX.refl (w : World) : MX w w := fun _ h => h
theorem MX.trans {a b c : World} (h1 : MX a b) (h2 : MX b c) : MX a c := fun m h => h2 m (h1 m h)
theorem MX.of_eq {w w' : World} (h : w'.markets = w.markets) : MX w w' := fun m hm => by unfold market? at hm ⊢; rw [h]; exact hm

/-- a cancel / update / replace accepted by the guards of the order: EXECUTABLE before, in flight after, one more pending entry -/
theorem fi_request {w : World} {t t' : Txn} (f : FI w (some t)) (a : Nat) (o' : Order) (s : Status) (ha : HasOrder w a) (hid : o'.id = a)
    (hst : o'.status = (w.order! a).status) (hmo : o'.market = (w.order! a).market) (hx : (w.order! a).status = some .executable)
    (hs : s ≠ .executable) (hmk : (w.order! a).market = t.market) (htm : t'.market = t.market) (hperm : (txnIds t').Perm (a :: txnIds t)) :
    FI ((w.setOrder o').orderUpdateStatus a s) (some t') ∧ ((w.setOrder o').orderUpdateStatus a s).foreign = w.foreign ∧
    MX w ((w.setOrder o').orderUpdateStatus a s) := by
  have kA : Q w [] w (w.setOrder o') := q_setOrder w [] w o' (by rw [hid]; exact hst) (by rw [hid]; exact hmo)
  have fA := fi_calm kA f
  have hA := kA.hasOrder a ha
  have hsA : St (w.setOrder o') a = some .executable := by
    unfold St
    have := order!_setOrder_self w o' (by rw [hid]; exact ha)
    rw [hid] at this
    rw [this, hst]; exact hx
  have hnp : a ∉ pendIds (w.setOrder o') (some t) := fun h => fA.ne a h hsA
  have fB := fi_setStatus_free fA a s hA hnp hs
  have hsB : St ((w.setOrder o').orderUpdateStatus a s) a = some s := by unfold St; rw [orderUpdateStatus_self _ a s hA]; rfl
  have hmB : (((w.setOrder o').orderUpdateStatus a s).order! a).market = t.market := by
    rw [orderUpdateStatus_self _ a s hA]
    show ((w.setOrder o').order! a).market = t.market
    rw [kA.mkt a ha]; exact hmk
  refine ⟨fi_add' fB a (hasOrder_orderUpdateStatus _ a a s hA) ?_ ?_ (home_orderUpdateStatus _ a s hA a (fA.hx a hA hsA)) hmB htm hperm,
    (orderUpdateStatus_foreign _ a s).trans rfl, MX.of_eq ((orderUpdateStatus_markets _ a s).trans rfl)⟩
  · rw [pendIds_congr (orderUpdateStatus_queue _ a s)]; exact hnp
  · rw [hsB]; intro h; exact hs (Option.some.inj h)

theorem fi_orderCancel {w w' : World} {t : Txn} (f : FI w (some t)) (a : Nat) (red : Option Rat) (v : Option Int) (ha : HasOrder w a)
    (hmk : (w.order! a).market = t.market) (h : w.orderCancel a red = .ok w') :
    FI w' (some { t with pCancel := t.pCancel ++ [(a, v)], pendingOrders := true }) ∧ w'.foreign = w.foreign ∧ MX w w' := by
  unfold orderCancel at h
  simp only at h
  split_ifs at h with h1 h2 h3 h4
  have := (Except.ok.inj h).symm
  subst this
  exact fi_request f a _ .cancelling ha (order!_id w a ha) rfl rfl (Decidable.of_not_not h4) (by decide) hmk rfl (txnIds_cancel t (a, v) true)

theorem fi_txnCancel (w : World) (t : Txn) (a : Nat) (red : Option Rat) (force : Bool) (f : FI w (some t)) (ha : HasOrder w a)
    (hmk : (w.order! a).market = t.market) :
    FI (w.txnCancel t a red force).1 (some (w.txnCancel t a red force).2.1) ∧
    (w.txnCancel t a red force).1.foreign = w.foreign ∧ (w.txnCancel t a red force).2.1.market = t.market ∧
    MX w (w.txnCancel t a red force).1 := by
  unfold txnCancel
  simp only
  split
  · exact ⟨f, rfl, rfl, MX.refl w⟩
  · have k1 : Q w [] w (if (!force) = true then w.validateControls a t.client .cancel else (w, none)).1 := by
      split
      · exact q_validateControls w [] w a t.client .cancel ha
      · exact Q.refl w [] w
    generalize (if (!force) = true then w.validateControls a t.client .cancel else (w, none)) = vr at k1
    obtain ⟨w1, r⟩ := vr
    cases r with
    | some r => exact ⟨fi_calm k1 f, k1.fg, rfl, k1.mx⟩
    | none =>
      simp only at k1 ⊢
      cases h : w1.orderCancel a red with
      | error e => exact ⟨fi_calm k1 f, k1.fg, rfl, k1.mx⟩
      | ok w2 =>
        obtain ⟨g1, g2, g3⟩ := fi_orderCancel (fi_calm k1 f) a red  none (k1.hasOrder a ha) (by rw [k1.mkt a ha]; exact hmk) h
        exact ⟨g1, g2.trans k1.fg, rfl, MX.trans k1.mx g3⟩

theorem fi_orderUpdate {w w' : World} {t : Txn} (f : FI w (some t)) (a : Nat) (pers : String) (v : Option Int) (ha : HasOrder w a)
    (hmk : (w.order! a).market = t.market) (h : w.orderUpdate a pers = .ok w') :
    FI w' (some { t with pUpdate := t.pUpdate ++ [(a, v)], pendingOrders := true }) ∧ w'.foreign = w.foreign ∧ MX w w' := by
  unfold orderUpdate at h
  simp only at h
  split_ifs at h with h1 h2 h3 h4
  have := (Except.ok.inj h).symm
  subst this
  exact fi_request f a _ .updating ha (order!_id w a ha) rfl rfl (Decidable.of_not_not h4) (by decide) hmk rfl (txnIds_update t (a, v) true)

theorem fi_txnUpdate (w : World) (t : Txn) (a : Nat) (pers : String) (force : Bool) (f : FI w (some t)) (ha : HasOrder w a)
    (hmk : (w.order! a).market = t.market) :
    FI (w.txnUpdate t a pers force).1 (some (w.txnUpdate t a pers force).2.1) ∧
    (w.txnUpdate t a pers force).1.foreign = w.foreign ∧ (w.txnUpdate t a pers force).2.1.market = t.market ∧
    MX w (w.txnUpdate t a pers force).1 := by
  unfold txnUpdate
  simp only
  split
  · exact ⟨f, rfl, rfl, MX.refl w⟩
  · have k1 : Q w [] w (if (!force) = true then w.validateControls a t.client .update else (w, none)).1 := by
      split
      · exact q_validateControls w [] w a t.client .update ha
      · exact Q.refl w [] w
    generalize (if (!force) = true then w.validateControls a t.client .update else (w, none)) = vr at k1
    obtain ⟨w1, r⟩ := vr
    cases r with
    | some r => exact ⟨fi_calm k1 f, k1.fg, rfl, k1.mx⟩
    | none =>
      simp only at k1 ⊢
      cases h : w1.orderUpdate a pers with
      | error e => exact ⟨fi_calm k1 f, k1.fg, rfl, k1.mx⟩
      | ok w2 =>
        obtain ⟨g1, g2, g3⟩ := fi_orderUpdate (fi_calm k1 f) a pers  none (k1.hasOrder a ha) (by rw [k1.mkt a ha]; exact hmk) h
        exact ⟨g1, g2.trans k1.fg, rfl, MX.trans k1.mx g3⟩

theorem fi_orderReplace {w w' : World} {t : Txn} (f : FI w (some t)) (a : Nat) (price : Rat) (v : Option Int) (ha : HasOrder w a)
    (hmk : (w.order! a).market = t.market) (h : w.orderReplace a price = .ok w') :
    FI w' (some { t with pReplace := t.pReplace ++ [(a, v)], pendingOrders := true }) ∧ w'.foreign = w.foreign ∧ MX w w' := by
  unfold orderReplace at h
  simp only at h
  split_ifs at h with h1 h2 h3 h4
  have := (Except.ok.inj h).symm
  subst this
  exact fi_request f a _ .replacing ha (order!_id w a ha) rfl rfl (Decidable.of_not_not h4) (by decide) hmk rfl (txnIds_replace t (a, v) true)

theorem fi_txnReplace (w : World) (t : Txn) (a : Nat) (price : Rat) (mv : Option Int) (force : Bool) (f : FI w (some t)) (ha : HasOrder w a)
    (hmk : (w.order! a).market = t.market) :
    FI (w.txnReplace t a price mv force).1 (some (w.txnReplace t a price mv force).2.1) ∧
    (w.txnReplace t a price mv force).1.foreign = w.foreign ∧ (w.txnReplace t a price mv force).2.1.market = t.market ∧
    MX w (w.txnReplace t a price mv force).1 := by
  unfold txnReplace
  simp only
  split
  · exact ⟨f, rfl, rfl, MX.refl w⟩
  · have k1 : Q w [] w (if (!force) = true then w.validateControls a t.client .replace else (w, none)).1 := by
      split
      · exact q_validateControls w [] w a t.client .replace ha
      · exact Q.refl w [] w
    generalize (if (!force) = true then w.validateControls a t.client .replace else (w, none)) = vr at k1
    obtain ⟨w1, r⟩ := vr
    cases r with
    | some r => exact ⟨fi_calm k1 f, k1.fg, rfl, k1.mx⟩
    | none =>
      simp only at k1 ⊢
      cases h : w1.orderReplace a price with
      | error e => exact ⟨fi_calm k1 f, k1.fg, rfl, k1.mx⟩
      | ok w2 =>
        obtain ⟨g1, g2, g3⟩ := fi_orderReplace (fi_calm k1 f) a price  mv (k1.hasOrder a ha) (by rw [k1.mkt a ha]; exact hmk) h
        exact ⟨g1, g2.trans k1.fg, rfl, MX.trans k1.mx g3⟩

/-- `Transaction.place_order(order, execute=True)` through the order's own market -/
theorem fi_txnPlace (w : World) (t : Txn) (a : Nat) (mv : Option Int) (force : Bool) (f : FI w (some t)) (ha : HasOrder w a)
    (hmk : (w.order! a).market = t.market) (hex : (w.market? t.market).isSome = true) :
    FI (w.txnPlace t a mv true force).1 (some (w.txnPlace t a mv true force).2.1) ∧
    (w.txnPlace t a mv true force).1.foreign = w.foreign ∧ (w.txnPlace t a mv true force).2.1.market = t.market ∧
    MX w (w.txnPlace t a mv true force).1 := by
  unfold txnPlace
  simp only
  have k0 := q_modifyOrder w [] w a (fun o => { o with client := some t.client }) (fun _ h => h) rfl rfl
  generalize w.modifyOrder a (fun o => { o with client := some t.client }) = w0 at k0
  have h0 := k0.hasOrder a ha
  have k1 : Q w [] w0 (if (true && !force) = true then w0.validateControls a t.client .place else (w0, none)).1 := by
    split
    · exact q_validateControls w [] w0 a t.client .place h0
    · exact Q.refl w [] w0
  generalize (if (true && !force) = true then w0.validateControls a t.client .place else (w0, none)) = vr at k1
  obtain ⟨w1, r⟩ := vr
  simp only at k1 ⊢
  have k01 := k0.trans k1
  have h1 := k1.hasOrder a h0
  cases r with
  | some r => exact ⟨fi_calm k01 f, k01.fg, rfl, k01.mx⟩
  | none =>
    simp only
    split
    · exact ⟨fi_calm k01 f, k01.fg, rfl, k01.mx⟩
    · rename_i hnc
      rw [Bool.or_eq_true, not_or] at hnc
      have hn1 : a ∉ (w1.market! t.market).blotter := fun hin => hnc.1 (List.contains_iff_mem.mpr hin)
      have k2 := q_modifyOrder w [] w1 a (fun o => { o with publishTime := some (((w1.market! t.market).book).getD {}).pt, marketVersion := mv }) (fun _ h => h) rfl rfl
      have m2 : (w1.modifyOrder a (fun o => { o with publishTime := some (((w1.market! t.market).book).getD {}).pt, marketVersion := mv })).markets = w1.markets := rfl
      generalize w1.modifyOrder a (fun o => { o with publishTime := some (((w1.market! t.market).book).getD {}).pt, marketVersion := mv }) = w2 at k2 m2
      have k012 := k01.trans k2
      have f2 := fi_calm k012 f
      have h2 := k2.hasOrder a h1
      have hmk2 : (w2.order! a).market = t.market := by rw [k012.mkt a ha]; exact hmk
      have hn2 : a ∉ (w2.market! t.market).blotter := by rw [Inv.market!_congr w2 w1 m2 t.market]; exact hn1
      have hnp2 : a ∉ pendIds w2 (some t) := by
        intro hin
        have := f2.hm a hin
        unfold Home at this
        rw [hmk2] at this
        exact hn2 this
      have f3 := fi_setStatus_free f2 a .pending h2 hnp2 (by decide)
      have m3 : (w2.orderUpdateStatus a .pending).markets = w2.markets := orderUpdateStatus_markets w2 a .pending
      have q3 : (w2.orderUpdateStatus a .pending).queue = w2.queue := orderUpdateStatus_queue w2 a .pending
      have g3 : (w2.orderUpdateStatus a .pending).foreign = w2.foreign := orderUpdateStatus_foreign w2 a .pending
      have hs3 : St (w2.orderUpdateStatus a .pending) a = some .pending := by unfold St; rw [orderUpdateStatus_self w2 a .pending h2]; rfl
      have hmk3 : ((w2.orderUpdateStatus a .pending).order! a).market = t.market := by
        rw [orderUpdateStatus_self w2 a .pending h2]; exact hmk2
      have h3 : HasOrder (w2.orderUpdateStatus a .pending) a := hasOrder_orderUpdateStatus w2 a a .pending h2
      unfold orderPlacing
      generalize w2.orderUpdateStatus a .pending = w3 at f3 m3 q3 g3 hs3 hmk3 h3
      have hn3 : a ∉ (w3.market! t.market).blotter := by rw [Inv.market!_congr w3 w2 m3 t.market]; exact hn2
      have hex3 : (w3.market? t.market).isSome = true := by
        have := k012.mx t.market hex
        unfold market? at this ⊢; rw [m3]; exact this
      have k4 := q_blotterAdd w3 [] w3 t.market a ((hasOrder_iff w3 a).mp h3) hn3
      have hmem4 := blotterAdd_mem w3 t.market a hex3
      -- whatever follows (trade event, runner context) is a calm step from w3
      have fin : ∀ wF, Q w3 [] (w3.blotterAdd t.market a) wF →
          FI wF (some { t with pPlace := t.pPlace ++ [(a, mv)], pendingOrders := true }) ∧ wF.foreign = w.foreign ∧ MX w wF := by
        intro wF kF
        have k4F := k4.trans kF
        have fF := fi_calm k4F f3
        have hF := k4F.hasOrder a h3
        have hmkF : (wF.order! a).market = t.market := by rw [k4F.mkt a h3]; exact hmk3
        have hnpF : a ∉ pendIds wF (some t) := by
          rw [pendIds_congr k4F.qu, pendIds_congr q3]; exact hnp2
        have hsF : St wF a ≠ some .executable := by
          intro hs
          rcases k4F.fr a h3 h3 with e | e | ⟨e, _⟩ | ⟨_, e⟩
          · rw [e, hs3] at hs; cases hs
          · rw [e] at hs; cases hs
          · cases e
          · rw [e] at hs; cases hs
        have hhF : Home wF a := by
          unfold Home
          rw [hmkF]
          exact kF.bl t.market a hmem4
        exact ⟨fi_add' fF a hF hnpF hsF hhF hmkF rfl (txnIds_place t (a, mv) true), (k4F.fg.trans g3).trans k012.fg,
          MX.trans k012.mx (MX.trans (MX.of_eq m3) k4F.mx)⟩
      simp only [↓reduceIte]
      have kE : Q w3 [] (w3.blotterAdd t.market a)
          (if (!(w3.market! t.market).blotter.any fun x => decide ((w3.order! x).trade = (w3.order! a).trade)) = true then
            (w3.blotterAdd t.market a).emit (Ev.tradeEvent (w3.order! a).trade) else w3.blotterAdd t.market a) := by
        split
        · exact q_emit w3 [] _ _
        · exact Q.refl w3 [] _
      obtain ⟨g1, g2, g3'⟩ := fin _ (kE.trans (q_ctxPlace w3 [] _ _ _))
      exact ⟨g1, g2, trivial, g3'⟩

/-! ### packaging: `Transaction.execute` moves the pending requests into the handler queue -/

/-- the invariant with the pending list of the open transaction given as a plain list -/
structure FIL (w : World) (L : List Nat) (M : Nat) : Prop where
  inv : Inv.Inv w
  ex : ∀ oid ∈ queueIds w ++ L, HasOrder w oid
  hx : ∀ oid, HasOrder w oid → St w oid = some .executable → Home w oid
  nd : (queueIds w ++ L).Nodup
  ne : ∀ oid ∈ queueIds w ++ L, St w oid ≠ some .executable
  hm : ∀ oid ∈ queueIds w ++ L, Home w oid
  qm : ∀ p ∈ w.queue, ∀ oid ∈ p.orders, (w.order! oid).market = p.market
  tm : ∀ oid ∈ L, (w.order! oid).market = M

theorem FI.toL {w : World} {t : Txn} (f : FI w (some t)) : FIL w (txnIds t) t.market :=
  ⟨f.inv, f.ex, f.hx, f.nd, f.ne, f.hm, f.qm, f.tm t rfl⟩

theorem FIL.toNone {w : World} {M : Nat} (f : FIL w [] M) : FI w none :=
  ⟨f.inv, f.ex, f.hx, f.nd, f.ne, f.hm, f.qm, fun t ht => by cases ht⟩

theorem FI.ofNone {w : World} (f : FI w none) (t : Txn) (ht : txnIds t = []) : FI w (some t) := by
  have hp : pendIds w (some t) = pendIds w none := by unfold pendIds batchIds; simp only [ht]
  exact ⟨f.inv, by rw [hp]; exact f.ex, f.hx, by rw [hp]; exact f.nd, by rw [hp]; exact f.ne, by rw [hp]; exact f.hm, f.qm,
    fun t2 ht2 oid ho => by rw [← Option.some.inj ht2, ht] at ho; cases ho⟩

theorem FI.drop {w : World} {b : Option Txn} (f : FI w b) : FI w none := by
  have hsub : ∀ oid, oid ∈ pendIds w none → oid ∈ pendIds w b := by
    intro oid h; unfold pendIds batchIds at h ⊢; simp only [List.append_nil] at h; exact List.mem_append_left _ h
  refine ⟨f.inv, fun oid h => f.ex oid (hsub oid h), f.hx, ?_, fun oid h => f.ne oid (hsub oid h), fun oid h => f.hm oid (hsub oid h), f.qm,
    fun t ht => by cases ht⟩
  have := f.nd
  unfold pendIds batchIds at this ⊢
  simp only [List.append_nil]
  exact (List.nodup_append.mp this).1

/-- one pending list A becomes packages N (a permutation of A) of market M at the end of the queue -/
theorem fil_pack {w w' : World} {A R N : List Nat} {M : Nat} (f : FIL w (A ++ R) M) (ho : w'.orders = w.orders) (hmk : w'.markets = w.markets)
    (hI : Inv.Inv w') (hq : queueIds w' = queueIds w ++ N) (hperm : N.Perm A)
    (hnew : ∀ p ∈ w'.queue, p ∈ w.queue ∨ (p.market = M ∧ ∀ oid ∈ p.orders, oid ∈ A)) : FIL w' R M := by
  have hor : ∀ oid, w'.order! oid = w.order! oid := order!_congr w w' ho
  have hst : ∀ oid, St w' oid = St w oid := fun oid => by unfold St; rw [hor]
  have hho : ∀ oid, Home w' oid ↔ Home w oid := fun oid => by unfold Home; rw [hor, Inv.market!_congr w' w hmk]
  have hha : ∀ oid, HasOrder w' oid ↔ HasOrder w oid := hasOrder_congr w w' ho
  have hp : (queueIds w' ++ R).Perm (queueIds w ++ (A ++ R)) := by
    rw [hq, List.append_assoc]
    exact List.Perm.append_left _ (hperm.append_right R)
  have hmem : ∀ oid, oid ∈ queueIds w' ++ R → oid ∈ queueIds w ++ (A ++ R) := fun oid h => hp.mem_iff.mp h
  refine ⟨hI, fun oid h => (hha oid).mpr (f.ex oid (hmem oid h)), fun oid h hs => (hho oid).mpr (f.hx oid ((hha oid).mp h) (by rw [← hst]; exact hs)),
    hp.nodup_iff.mpr f.nd, fun oid h => by rw [hst]; exact f.ne oid (hmem oid h), fun oid h => (hho oid).mpr (f.hm oid (hmem oid h)), ?_, ?_⟩
  · intro p hp' oid hoid
    rw [hor]
    rcases hnew p hp' with h | ⟨h1, h2⟩
    · exact f.qm p h oid hoid
    · rw [h1]; exact f.tm oid (List.mem_append_left _ (h2 oid hoid))
  · intro oid h; rw [hor]; exact f.tm oid (List.mem_append_right _ h)

theorem packs_queue (k : PackKind) (t : Txn) (d bd : Rat) (l : List (Option Int × List Nat)) (w : World) :
    queueIds (l.foldl (addPackage k t d bd) w) = queueIds w ++ l.flatMap (·.2) ∧
    (∀ p ∈ (l.foldl (addPackage k t d bd) w).queue, p ∈ w.queue ∨ (p.market = t.market ∧ ∃ vc ∈ l, p.orders = vc.2)) ∧
    (l.foldl (addPackage k t d bd) w).foreign = w.foreign := by
  induction l generalizing w with
  | nil => exact ⟨by simp, fun p h => Or.inl h, rfl⟩
  | cons x xs ih =>
    rw [List.foldl_cons]
    obtain ⟨a, b, c⟩ := ih (addPackage k t d bd w x)
    refine ⟨?_, ?_, c.trans rfl⟩
    · rw [a]
      unfold queueIds addPackage
      simp [List.flatMap_append, List.append_assoc]
    · intro p hp
      rcases b p hp with h | ⟨h1, vc, hvc, h2⟩
      · unfold addPackage at h
        simp only [List.mem_append, List.mem_singleton] at h
        rcases h with h | h
        · exact Or.inl h
        · right; rw [h]; exact ⟨rfl, x, List.mem_cons_self, rfl⟩
      · exact Or.inr ⟨h1, vc, List.mem_cons_of_mem _ hvc, h2⟩

/-- `_create_order_package` for one pending list -/
theorem fil_createPackages {w : World} {t : Txn} {pend : List (Nat × Option Int)} {R : List Nat} (k : PackKind)
    (f : FIL w (pend.map (·.1) ++ R) t.market) (hI : Inv.Inv (w.createPackages t pend k)) :
    FIL (w.createPackages t pend k) R t.market ∧ (w.createPackages t pend k).foreign = w.foreign := by
  obtain ⟨ho, hm⟩ := createPackages_orders w t pend k
  unfold createPackages at ho hm hI ⊢
  obtain ⟨a, b, c⟩ := packs_queue k t (delayOf w.cfg k (((w.market! t.market).book).getD {}).betDelay) (((w.market! t.market).book).getD {}).betDelay (packsOf pend k) w
  refine ⟨fil_pack f ho hm hI a (Packs.packs_perm pend k) ?_, c⟩
  intro p hp
  rcases b p hp with h | ⟨h1, vc, hvc, h2⟩
  · exact Or.inl h
  · right
    refine ⟨h1, fun oid hoid => ?_⟩
    rw [h2] at hoid
    exact List.mem_map.mpr ⟨(oid, vc.1), (Packs.packs_sound pend k vc hvc).2.2 oid hoid, rfl⟩

theorem fil_step {w : World} {t : Txn} {pend : List (Nat × Option Int)} {R : List Nat} (k : PackKind)
    (f : FIL w (pend.map (·.1) ++ R) t.market) :
    FIL (if pend.isEmpty then w else w.createPackages t pend k) R t.market ∧
    (if pend.isEmpty then w else w.createPackages t pend k).foreign = w.foreign ∧
    (if pend.isEmpty then w else w.createPackages t pend k).markets = w.markets := by
  split
  · rename_i he
    have : pend = [] := List.isEmpty_iff.mp he
    subst this
    exact ⟨by simpa using f, rfl, rfl⟩
  · have hp : ∀ x ∈ pend, x.1 ∈ ids w := by
      intro x hx
      exact (hasOrder_iff w x.1).mp (f.ex x.1 (List.mem_append_right _ (List.mem_append_left _ (List.mem_map.mpr ⟨x, hx, rfl⟩))))
    obtain ⟨g1, g2⟩ := fil_createPackages k f ((good_createPackages w t pend k hp).2 f.inv)
    exact ⟨g1, g2, (createPackages_orders w t pend k).2⟩

/-- `Transaction.execute()`: every pending request becomes part of exactly one queued package -/
theorem fi_txnExecute (w : World) (t : Txn) (f : FI w (some t)) :
    FI (w.txnExecute t).1 (some (w.txnExecute t).2) ∧ (w.txnExecute t).1.foreign = w.foreign ∧ (w.txnExecute t).2.market = t.market ∧
    MX w (w.txnExecute t).1 := by
  have f0 : FIL w (t.pPlace.map (·.1) ++ (t.pCancel.map (·.1) ++ (t.pUpdate.map (·.1) ++ (t.pReplace.map (·.1) ++ [])))) t.market := by
    have := f.toL
    unfold txnIds at this
    simpa [List.map_append, List.append_assoc] using this
  unfold txnExecute
  simp only
  obtain ⟨f1, g1, m1⟩ := fil_step .place f0
  generalize (if t.pPlace.isEmpty = true then w else w.createPackages t t.pPlace .place) = w1 at f1 g1 m1
  obtain ⟨f2, g2, m2⟩ := fil_step .cancel f1
  generalize (if t.pCancel.isEmpty = true then w1 else w1.createPackages t t.pCancel .cancel) = w2 at f2 g2 m2
  obtain ⟨f3, g3, m3⟩ := fil_step .update f2
  generalize (if t.pUpdate.isEmpty = true then w2 else w2.createPackages t t.pUpdate .update) = w3 at f3 g3 m3
  obtain ⟨f4, g4, m4⟩ := fil_step .replace f3
  generalize (if t.pReplace.isEmpty = true then w3 else w3.createPackages t t.pReplace .replace) = w4 at f4 g4 m4
  exact ⟨f4.toNone.ofNone _ (by unfold txnIds; rfl), ((g4.trans g3).trans g2).trans g1, trivial,
    MX.of_eq (((m4.trans m3).trans m2).trans m1)⟩

theorem fi_txnExit (w : World) (t : Txn) (f : FI w (some t)) :
    FI (w.txnExit t) none ∧ (w.txnExit t).foreign = w.foreign ∧ MX w (w.txnExit t) := by
  unfold txnExit
  split
  · obtain ⟨g1, g2, _, g4⟩ := fi_txnExecute w t f
    exact ⟨g1.drop, g2, g4⟩
  · exact ⟨f.drop, rfl, MX.refl w⟩

/-! ### scripted strategy actions and whole updates -/

/-- what is carried through the actions of a callback of market `mid` -/
def FIm (mid : Nat) (w : World) (b : Option Txn) : Prop :=
  FI w b ∧ (w.market? mid).isSome = true ∧ ∀ t, b = some t → t.market = mid

/-- one scripted action that addresses its order (if any) through the order's own market -/
theorem fi_doActionCore (w : World) (mid : Nat) (batch : Option Txn) (a : Action) (h : FIm mid w batch) (hloc : a.foreign w mid = false) :
    FIm mid (w.doActionCore mid batch a).1 (w.doActionCore mid batch a).2.1 ∧ (w.doActionCore mid batch a).1.foreign = w.foreign := by
  obtain ⟨hf, hex, hbm⟩ := h
  unfold doActionCore
  simp only
  split
  · exact ⟨⟨hf, hex, hbm⟩, rfl⟩
  · rename_i hmiss
    have hin : ∀ tg, a.target? = some tg → HasOrder w (tg.resolve w) := by
      intro tg htg
      rw [hasOrder_iff]
      apply target_mem w tg hf.inv
      rw [htg] at hmiss
      simpa using hmiss
    have hlocal : ∀ tg, a.target? = some tg → (w.order! (tg.resolve w)).market = mid := by
      intro tg htg
      unfold Action.foreign at hloc
      rw [htg] at hloc hmiss
      simp only [Option.map_some, Option.getD_some, Bool.not_eq_true] at hmiss
      simp only [hmiss, Bool.not_false, Bool.true_and, decide_eq_false_iff_not, ne_eq, Decidable.not_not] at hloc
      exact hloc
    cases a with
    | create o tr =>
      have hk : ∀ (w1 w' : World), Q w [] w w1 → Inv.Inv w1 →
          w'.orders = w1.orders ++ [{ o with id := w1.orders.length, created := w1.clock, statusAt := w1.clock, status := none, complete := false, log := [] }] →
          w'.markets = w1.markets → w'.queue = w1.queue → w'.foreign = w1.foreign → FIm mid w' batch ∧ w'.foreign = w.foreign := by
        intro w1 w' k1 hI1 h1 h2 h3 h4
        have k := k1.trans (q_appendOrder w [] w1 w' _ rfl h1 h2 h3 h4 (by simp) hI1)
        exact ⟨⟨fi_calm k hf, k.mx mid hex, hbm⟩, k.fg⟩
      cases tr with
      | none => exact hk w _ (Q.refl w [] w) hf.inv rfl rfl rfl rfl
      | some t => exact hk { w with trades := w.trades ++ [t] } _ (Q.of_eq rfl rfl rfl rfl) ((Q.of_eq (w0 := w) (X := []) (w := w) (w' := { w with trades := w.trades ++ [t] }) rfl rfl rfl rfl).good.2 hf.inv) rfl rfl rfl rfl
    | place tg v force =>
      have ho := hin tg rfl
      have hmk : (w.order! (tg.resolve w)).market = mid := hlocal tg rfl
      cases batch with
      | some t =>
        obtain ⟨g1, g2, g3, g4⟩ := fi_txnPlace w t (tg.resolve w) v force hf ho (by rw [hmk]; exact (hbm t rfl).symm) (by rw [hbm t rfl]; exact hex)
        exact ⟨⟨g1, g4 mid hex, fun t' ht' => by rw [← Option.some.inj ht', g3]; exact hbm t rfl⟩, g2⟩
      | none =>
        obtain ⟨g1, g2, g3, g4⟩ := fi_txnPlace w { market := mid, client := _ } (tg.resolve w) v force (hf.ofNone _ rfl) ho hmk hex
        obtain ⟨e1, e2, e3⟩ := fi_txnExit _ _ g1
        exact ⟨⟨e1, e3 mid (g4 mid hex), fun t' ht' => by cases ht'⟩, e2.trans g2⟩
    | cancel tg red force =>
      have ho := hin tg rfl
      have hmk : (w.order! (tg.resolve w)).market = mid := hlocal tg rfl
      cases batch with
      | some t =>
        obtain ⟨g1, g2, g3, g4⟩ := fi_txnCancel w t (tg.resolve w) red force hf ho (by rw [hmk]; exact (hbm t rfl).symm)
        exact ⟨⟨g1, g4 mid hex, fun t' ht' => by rw [← Option.some.inj ht', g3]; exact hbm t rfl⟩, g2⟩
      | none =>
        obtain ⟨g1, g2, g3, g4⟩ := fi_txnCancel w { market := mid, client := _ } (tg.resolve w) red force (hf.ofNone _ rfl) ho hmk
        obtain ⟨e1, e2, e3⟩ := fi_txnExit _ _ g1
        exact ⟨⟨e1, e3 mid (g4 mid hex), fun t' ht' => by cases ht'⟩, e2.trans g2⟩
    | update tg pers force =>
      have ho := hin tg rfl
      have hmk : (w.order! (tg.resolve w)).market = mid := hlocal tg rfl
      cases batch with
      | some t =>
        obtain ⟨g1, g2, g3, g4⟩ := fi_txnUpdate w t (tg.resolve w) pers force hf ho (by rw [hmk]; exact (hbm t rfl).symm)
        exact ⟨⟨g1, g4 mid hex, fun t' ht' => by rw [← Option.some.inj ht', g3]; exact hbm t rfl⟩, g2⟩
      | none =>
        obtain ⟨g1, g2, g3, g4⟩ := fi_txnUpdate w { market := mid, client := _ } (tg.resolve w) pers force (hf.ofNone _ rfl) ho hmk
        obtain ⟨e1, e2, e3⟩ := fi_txnExit _ _ g1
        exact ⟨⟨e1, e3 mid (g4 mid hex), fun t' ht' => by cases ht'⟩, e2.trans g2⟩
    | replace tg price v force =>
      have ho := hin tg rfl
      have hmk : (w.order! (tg.resolve w)).market = mid := hlocal tg rfl
      cases batch with
      | some t =>
        obtain ⟨g1, g2, g3, g4⟩ := fi_txnReplace w t (tg.resolve w) price v force hf ho (by rw [hmk]; exact (hbm t rfl).symm)
        exact ⟨⟨g1, g4 mid hex, fun t' ht' => by rw [← Option.some.inj ht', g3]; exact hbm t rfl⟩, g2⟩
      | none =>
        obtain ⟨g1, g2, g3, g4⟩ := fi_txnReplace w { market := mid, client := _ } (tg.resolve w) price v force (hf.ofNone _ rfl) ho hmk
        obtain ⟨e1, e2, e3⟩ := fi_txnExit _ _ g1
        exact ⟨⟨e1, e3 mid (g4 mid hex), fun t' ht' => by cases ht'⟩, e2.trans g2⟩
    | batchBegin c =>
      cases batch with
      | some t =>
        obtain ⟨e1, e2, e3⟩ := fi_txnExit w t hf
        exact ⟨⟨e1.ofNone _ rfl, e3 mid hex, fun t' ht' => by rw [← Option.some.inj ht']⟩, e2⟩
      | none => exact ⟨⟨hf.ofNone _ rfl, hex, fun t' ht' => by rw [← Option.some.inj ht']⟩, rfl⟩
    | batchExecute =>
      cases batch with
      | some t =>
        obtain ⟨g1, g2, g3, g4⟩ := fi_txnExecute w t hf
        exact ⟨⟨g1, g4 mid hex, fun t' ht' => by rw [← Option.some.inj ht', g3]; exact hbm t rfl⟩, g2⟩
      | none => exact ⟨⟨hf, hex, hbm⟩, rfl⟩
    | batchEnd =>
      cases batch with
      | some t =>
        obtain ⟨e1, e2, e3⟩ := fi_txnExit w t hf
        exact ⟨⟨e1, e3 mid hex, fun t' ht' => by cases ht'⟩, e2⟩
      | none => exact ⟨⟨hf, hex, hbm⟩, rfl⟩

/-! ### folds under the ghost counter -/

theorem fold_le {α σ} (fg : σ → Nat) (f : σ → α → σ) (hle : ∀ s a, fg s ≤ fg (f s a)) (l : List α) (s : σ) : fg s ≤ fg (l.foldl f s) := by
  induction l generalizing s with
  | nil => exact Nat.le_refl _
  | cons a as ih => rw [List.foldl_cons]; exact Nat.le_trans (hle s a) (ih _)

/-- if the counter is still 0 after the fold it was 0 after every step, so every step kept P -/
theorem fold_cond {α σ} (fg : σ → Nat) (f : σ → α → σ) (P : σ → Prop) (hle : ∀ s a, fg s ≤ fg (f s a))
    (hstep : ∀ s a, fg (f s a) = 0 → P s → P (f s a)) (l : List α) (s : σ) (hz : fg (l.foldl f s) = 0) (hp : P s) : P (l.foldl f s) := by
  induction l generalizing s with
  | nil => exact hp
  | cons a as ih =>
    rw [List.foldl_cons] at hz ⊢
    have h0 : fg (f s a) = 0 := Nat.le_zero.mp (hz ▸ fold_le fg f hle as (f s a))
    exact ih _ hz (hstep s a h0 hp)

theorem fi_doAction (w : World) (mid : Nat) (batch : Option Txn) (a : Action) (hz : (w.doAction mid batch a).1.foreign = 0) (h : FIm mid w batch) :
    FIm mid (w.doAction mid batch a).1 (w.doAction mid batch a).2.1 := by
  obtain ⟨hloc, hnote⟩ := doAction_foreign_zero w mid batch a hz
  unfold doAction
  rw [hnote]
  exact (fi_doActionCore w mid batch a h hloc).1

/-- the actions of one callback, all of them through the market of the callback -/
theorem fi_doActions (w : World) (mid : Nat) (as : List Action) (hz : (w.doActions mid as).1.foreign = 0) (f : FI w none)
    (hex : (w.market? mid).isSome = true) : FI (w.doActions mid as).1 none ∧ ((w.doActions mid as).1.market? mid).isSome = true := by
  unfold doActions at hz ⊢
  simp only at hz ⊢
  have key := fold_cond (fun (s : World × Option Txn × List String) => s.1.foreign)
    (fun (acc : World × Option Txn × List String) a =>
      ((acc.1.doAction mid acc.2.1 a).1, (acc.1.doAction mid acc.2.1 a).2.1, acc.2.2 ++ [(acc.1.doAction mid acc.2.1 a).2.2]))
    (fun s => FIm mid s.1 s.2.1) (fun s a => doAction_le s.1 mid s.2.1 a) (fun s a h0 hp => fi_doAction s.1 mid s.2.1 a h0 hp) as (w, none, [])
  generalize as.foldl _ (w, none, []) = r at hz key
  obtain ⟨w1, b, outs⟩ := r
  cases b with
  | some t =>
    simp only at hz key ⊢
    have hz1 : w1.foreign = 0 := by rw [txnExit_foreign] at hz; exact hz
    obtain ⟨g1, g2, g3⟩ := key hz1 ⟨f, hex, fun t ht => by cases ht⟩
    obtain ⟨e1, _, e3⟩ := fi_txnExit w1 t g1
    exact ⟨e1, e3 mid g2⟩
  | none =>
    simp only at hz key ⊢
    obtain ⟨g1, g2, _⟩ := key hz ⟨f, hex, fun t ht => by cases ht⟩
    exact ⟨g1, g2⟩

theorem q_appendMarket (w0 : World) (X : List Nat) (w : World) (m : Market) (hnew : (w.market? m.id).isNone = true) (hb : m.blotter = []) (hl : m.live = []) :
    Q w0 X w ({ w with markets := w.markets ++ [m] } : World) := by
  refine ⟨good_appendMarket w m hnew hb hl, rfl, rfl, fun _ _ => rfl, ?_, fun _ _ _ => Or.inl rfl, fun oid ho hs => Or.inl ⟨ho, hs⟩, ?_⟩
  · intro mid oid h
    by_cases e : m.id = mid
    · have h0 : w.market! mid = default := by
        unfold market!; rw [← e]
        cases hx : w.market? m.id with
        | none => rfl
        | some x => rw [hx] at hnew; cases hnew
      rw [h0] at h; cases h
    · rw [market!_append_other w m mid e]; exact h
  · intro mid h
    unfold market? at h ⊢
    simp only
    rw [List.find?_append]
    cases hx : w.markets.find? (fun x => decide (x.id = mid)) with
    | none => rw [hx] at h; cases h
    | some x => rfl

theorem appendMarket_isSome (w : World) (m : Market) : (({ w with markets := w.markets ++ [m] } : World).market? m.id).isSome = true := by
  unfold market?
  simp only
  rw [List.find?_append]
  cases hx : w.markets.find? (fun x => decide (x.id = m.id)) with
  | some x => rfl
  | none => simp

theorem fold_le_pair {α β} (f : World × β → α → World × β) (hle : ∀ acc a, acc.1.foreign ≤ (f acc a).1.foreign) (l : List α) (acc : World × β) :
    acc.1.foreign ≤ (l.foldl f acc).1.foreign :=
  fold_le (fun s : World × β => s.1.foreign) f hle l acc

theorem fold_cond_pair {α β} (f : World × β → α → World × β) (P : World → Prop) (hle : ∀ acc a, acc.1.foreign ≤ (f acc a).1.foreign)
    (hstep : ∀ acc a, (f acc a).1.foreign = 0 → P acc.1 → P (f acc a).1) (l : List α) (acc : World × β)
    (hz : (l.foldl f acc).1.foreign = 0) (hp : P acc.1) : P (l.foldl f acc).1 :=
  fold_cond (fun s : World × β => s.1.foreign) f (fun s => P s.1) hle hstep l acc hz hp

/-- one market update, whatever the strategies do in their callbacks - as long as every request they make goes
    through the market of the callback and that is the order's own market -/
theorem fi_processMarketBook (w : World) (mid : Nat) (book : Book) (script : Nat → List Action) :
    w.foreign ≤ (w.processMarketBook mid book script).1.foreign ∧
    ((w.processMarketBook mid book script).1.foreign = 0 → FI w none → FI (w.processMarketBook mid book script).1 none) := by
  unfold processMarketBook
  simp only
  have q0 : Q w [] w (w.setClock book.pt) := Q.of_eq rfl rfl rfl rfl
  have e0 : (w.setClock book.pt).foreign = w.foreign := rfl
  generalize w.setClock book.pt = w0 at q0 e0
  have e1 : (if w0.queue.isEmpty = true then w0 else w0.checkPendingPackages mid).foreign = w.foreign := by
    split <;> simp [e0]
  have c1 : FI w none → FI (if w0.queue.isEmpty = true then w0 else w0.checkPendingPackages mid) none := by
    intro f
    split
    · exact fi_calm q0 f
    · exact (fi_checkPendingPackages w0 mid (fi_calm q0 f)).1
  generalize (if w0.queue.isEmpty = true then w0 else w0.checkPendingPackages mid) = w1 at e1 c1
  split
  · refine ⟨by simp [e1], fun _ f => ?_⟩
    have f1 := c1 f
    exact fi_calm (q_processCloseMarket w1 [] w1 mid book f1.inv) f1
  · have q2 : Q w1 [] w1 (if (w1.market? mid).isNone = true then
          ({ w1 with markets := w1.markets ++ [({ id := mid, book := some book } : Market)] } : World).emit (.marketEvent mid)
        else if (w1.market! mid).closed = true then w1.modifyMarket mid (fun m => { m with closed := false }) else w1) := by
      split
      · rename_i hnone
        exact (q_appendMarket w1 [] w1 { id := mid, book := some book } hnone rfl rfl).trans (q_emit w1 [] _ _)
      · split
        · exact q_modifyMarket w1 [] w1 mid _ (fun _ => ⟨rfl, rfl, rfl⟩)
        · exact Q.refl w1 [] w1
    have x2 : ((if (w1.market? mid).isNone = true then
          ({ w1 with markets := w1.markets ++ [({ id := mid, book := some book } : Market)] } : World).emit (.marketEvent mid)
        else if (w1.market! mid).closed = true then w1.modifyMarket mid (fun m => { m with closed := false }) else w1).market? mid).isSome = true := by
      split
      · exact appendMarket_isSome w1 { id := mid, book := some book }
      · rename_i hn
        have hs : (w1.market? mid).isSome = true := by
          cases h : w1.market? mid with
          | none => rw [h] at hn; exact absurd rfl hn
          | some x => rfl
        split
        · exact modifyMarket_isSome w1 mid (fun m => { m with closed := false }) (fun _ => rfl) mid hs
        · exact hs
    generalize (if (w1.market? mid).isNone = true then
          ({ w1 with markets := w1.markets ++ [({ id := mid, book := some book } : Market)] } : World).emit (.marketEvent mid)
        else if (w1.market! mid).closed = true then w1.modifyMarket mid (fun m => { m with closed := false }) else w1) = w2 at q2 x2
    have q3a := q2.trans (q_modifyMarket w1 [] w2 mid (fun m => { m with book := some book }) (fun _ => ⟨rfl, rfl, rfl⟩))
    have e3 : ((w2.modifyMarket mid (fun m => { m with book := some book })).simulatedMiddleware mid).foreign = w.foreign := by
      rw [simulatedMiddleware_foreign, modifyMarket_foreign, q2.fg, e1]
    have c3 : FI w none → FI ((w2.modifyMarket mid (fun m => { m with book := some book })).simulatedMiddleware mid) none ∧
        (((w2.modifyMarket mid (fun m => { m with book := some book })).simulatedMiddleware mid).market? mid).isSome = true := by
      intro f
      have f1 := c1 f
      have k := q3a.trans (q_simulatedMiddleware w1 [] _ mid (q3a.good.2 f1.inv))
      exact ⟨fi_calm k f1, (q_simulatedMiddleware w1 [] _ mid (q3a.good.2 f1.inv)).mx mid (modifyMarket_isSome w2 mid (fun m => { m with book := some book }) (fun _ => rfl) mid x2)⟩
    generalize (w2.modifyMarket mid (fun m => { m with book := some book })).simulatedMiddleware mid = w3 at e3 c3
    have e4 : (if (w3.market! mid).active = true then w3.processSimulatedOrders mid else w3).foreign = w.foreign := by
      split <;> simp [e3]
    have c4 : FI w none → FI (if (w3.market! mid).active = true then w3.processSimulatedOrders mid else w3) none ∧
        ((if (w3.market! mid).active = true then w3.processSimulatedOrders mid else w3).market? mid).isSome = true := by
      intro f
      obtain ⟨f3, x3⟩ := c3 f
      split
      · have k := q_processSimulatedOrders w3 [] w3 mid f3.inv
        exact ⟨fi_calm k f3, k.mx mid x3⟩
      · exact ⟨f3, x3⟩
    generalize (if (w3.market! mid).active = true then w3.processSimulatedOrders mid else w3) = w4 at e4 c4
    -- the strategies' callbacks
    have hle : ∀ (acc : World × List (Nat × List String)) (s : Strategy), acc.1.foreign ≤
        (if s.streams.contains book.streamId = true then
          (((if (w1.market? mid).isNone = true then acc.1.emit (.newMarket s.id mid) else acc.1).emit (.bookCallback s.id mid book.pt)).doActions mid (script s.id)).1
        else acc.1).foreign := by
      intro acc s
      split
      · refine Nat.le_trans ?_ (doActions_le _ mid _)
        split <;> simp
      · exact Nat.le_refl _
    refine ⟨?_, fun hz f => ?_⟩
    · rw [← e4]
      refine fold_le_pair _ ?_ w4.strategies (w4, ([] : List (Nat × List String)))
      intro acc s
      obtain ⟨wa, outs⟩ := acc
      simp only
      have := hle (wa, outs) s
      split
      · rename_i hc; rw [if_pos hc] at this; exact this
      · rename_i hc; rw [if_neg hc] at this; exact this
    · refine (fold_cond_pair _ (fun w => FI w none ∧ (w.market? mid).isSome = true) ?_ ?_ w4.strategies (w4, ([] : List (Nat × List String))) hz (c4 f)).1
      · intro acc s
        obtain ⟨wa, outs⟩ := acc
        simp only
        have := hle (wa, outs) s
        split
        · rename_i hc; rw [if_pos hc] at this; exact this
        · rename_i hc; rw [if_neg hc] at this; exact this
      · intro acc s
        obtain ⟨wa, outs⟩ := acc
        simp only
        split
        · intro h0 hp
          have k : Q wa [] wa ((if (w1.market? mid).isNone = true then wa.emit (.newMarket s.id mid) else wa).emit (.bookCallback s.id mid book.pt)) := by
            refine Q.trans ?_ (q_emit wa [] _ _)
            split
            · exact q_emit wa [] _ _
            · exact Q.refl wa [] wa
          exact fi_doActions _ mid _ h0 (fi_calm k hp.1) (k.mx mid hp.2)
        · intro _ hp; exact hp

/-- any run (`Inv.runUpdates`: any markets, in any interleaving) -/
theorem fi_runUpdates (w : World) (us : List (Nat × Book × (Nat → List Action))) :
    w.foreign ≤ (runUpdates w us).foreign ∧ ((runUpdates w us).foreign = 0 → FI w none → FI (runUpdates w us) none) := by
  unfold runUpdates
  refine ⟨fold_le (fun w : World => w.foreign) _ (fun w u => (fi_processMarketBook w u.1 u.2.1 u.2.2).1) us w, fun hz f => ?_⟩
  exact fold_cond (fun w : World => w.foreign) (fun w (u : Nat × Book × (Nat → List Action)) => (w.processMarketBook u.1 u.2.1 u.2.2).1) (fun w => FI w none)
    (fun w u => (fi_processMarketBook w u.1 u.2.1 u.2.2).1) (fun w u h0 hp => (fi_processMarketBook w u.1 u.2.1 u.2.2).2 h0 hp) us w hz f

theorem fi_empty (cfg : Config) (cl : List Client) (ss : List Strategy) : FI { cfg := cfg, clients := cl, strategies := ss } none := by
  refine ⟨inv_empty cfg cl ss, ?_, ?_, ?_, ?_, ?_, ?_, fun t ht => by cases ht⟩
  · intro oid h; simp [pendIds, queueIds, batchIds] at h
  · intro oid h; obtain ⟨o, ho⟩ := h; simp at ho
  · simp [pendIds, queueIds, batchIds]
  · intro oid h; simp [pendIds, queueIds, batchIds] at h
  · intro oid h; simp [pendIds, queueIds, batchIds] at h
  · intro p h; simp at h

/-- every world reachable from an empty framework by a run without foreign requests satisfies the invariant -/
theorem fi_reachable (cfg : Config) (cl : List Client) (ss : List Strategy) (us : List (Nat × Book × (Nat → List Action)))
    (hz : (runUpdates { cfg := cfg, clients := cl, strategies := ss } us).foreign = 0) :
    FI (runUpdates { cfg := cfg, clients := cl, strategies := ss } us) none :=
  (fi_runUpdates _ us).2 hz (fi_empty cfg cl ss)

end Flumine.Fl
