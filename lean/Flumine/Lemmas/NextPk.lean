/- Lemmas/NextPk.lean — the package counter `World.nextPackage` is written by `addPackage` only (so by
   `Transaction.execute`): requests, response handlers, middleware, completion loop and closure leave it alone. -/
import Flumine.SimLoop
import Mathlib.Tactic.SplitIfs
namespace Flumine.NextPk
open Flumine Flumine.World

@[simp] theorem modifyOrder_nextPackage (w : World) (a : Nat) (f : Order → Order) : (w.modifyOrder a f).nextPackage = w.nextPackage := rfl
@[simp] theorem setOrder_nextPackage (w : World) (o : Order) : (w.setOrder o).nextPackage = w.nextPackage := rfl
@[simp] theorem setTrade_nextPackage (w : World) (t : Trade) : (w.setTrade t).nextPackage = w.nextPackage := rfl
@[simp] theorem setMarket_nextPackage (w : World) (m : Market) : (w.setMarket m).nextPackage = w.nextPackage := rfl
@[simp] theorem setClient_nextPackage (w : World) (c : Client) : (w.setClient c).nextPackage = w.nextPackage := rfl
@[simp] theorem modifyMarket_nextPackage (w : World) (a : Nat) (f : Market → Market) : (w.modifyMarket a f).nextPackage = w.nextPackage := rfl
@[simp] theorem emit_nextPackage (w : World) (e : Ev) : (w.emit e).nextPackage = w.nextPackage := rfl
@[simp] theorem bumpBetId_nextPackage (w : World) : w.bumpBetId.nextPackage = w.nextPackage := rfl
@[simp] theorem addTransaction_nextPackage (w : World) (c n : Nat) (f : Bool) : (w.addTransaction c n f).nextPackage = w.nextPackage := rfl
@[simp] theorem blotterAdd_nextPackage (w : World) (m o : Nat) : (w.blotterAdd m o).nextPackage = w.nextPackage := rfl
@[simp] theorem blotterComplete_nextPackage (w : World) (m o : Nat) : (w.blotterComplete m o).nextPackage = w.nextPackage := rfl
@[simp] theorem setClock_nextPackage (w : World) (t : Time) : (w.setClock t).nextPackage = w.nextPackage := rfl

@[simp] theorem setCtx_nextPackage (w : World) (c : RunnerCtx) : (w.setCtx c).nextPackage = w.nextPackage := by
  unfold setCtx; split <;> rfl
@[simp] theorem ctxPlace_nextPackage (w : World) (k : CtxKey) (t : Nat) : (w.ctxPlace k t).nextPackage = w.nextPackage := setCtx_nextPackage _ _
@[simp] theorem ctxReset_nextPackage (w : World) (k : CtxKey) (t : Nat) : (w.ctxReset k t).nextPackage = w.nextPackage := setCtx_nextPackage _ _
@[simp] theorem completeTrade_nextPackage (w : World) (tid : Nat) : (w.completeTrade tid).nextPackage = w.nextPackage := by
  unfold completeTrade; simp
@[simp] theorem tradeUpdateStatus_nextPackage (w : World) (tid : Nat) (s : TradeStatus) : (w.tradeUpdateStatus tid s).nextPackage = w.nextPackage := by
  unfold tradeUpdateStatus
  simp only
  split <;> simp
@[simp] theorem tradeEnter_nextPackage (w : World) (tid : Nat) : (w.tradeEnter tid).nextPackage = w.nextPackage := tradeUpdateStatus_nextPackage _ _ _
@[simp] theorem tradeExit_nextPackage (w : World) (tid : Nat) : (w.tradeExit tid).nextPackage = w.nextPackage := tradeUpdateStatus_nextPackage _ _ _
@[simp] theorem orderUpdateStatus_nextPackage (w : World) (oid : Nat) (s : Status) : (w.orderUpdateStatus oid s).nextPackage = w.nextPackage := by
  unfold orderUpdateStatus
  simp only
  split <;> simp
@[simp] theorem orderExecutable_nextPackage (w : World) (oid : Nat) : (w.orderExecutable oid).nextPackage = w.nextPackage := by
  unfold orderExecutable; split <;> simp
@[simp] theorem orderExecutionComplete_nextPackage (w : World) (oid : Nat) : (w.orderExecutionComplete oid).nextPackage = w.nextPackage := by
  unfold orderExecutionComplete; simp
@[simp] theorem orderViolation_nextPackage (w : World) (oid : Nat) (m : String) : (w.orderViolation oid m).nextPackage = w.nextPackage := by
  unfold orderViolation; split <;> simp
@[simp] theorem orderPlacing_nextPackage (w : World) (oid : Nat) : (w.orderPlacing oid).nextPackage = w.nextPackage := orderUpdateStatus_nextPackage _ _ _

theorem foldl_nextPackage {α} (f : World → α → World) (hf : ∀ w a, (f w a).nextPackage = w.nextPackage) (l : List α) (w : World) :
    (l.foldl f w).nextPackage = w.nextPackage := by
  induction l generalizing w with
  | nil => rfl
  | cons a as ih => rw [List.foldl_cons, ih, hf]

theorem foldl_pair_nextPackage {α β} (f : World × β → α → World × β) (hf : ∀ acc a, (f acc a).1.nextPackage = acc.1.nextPackage) (l : List α) (acc : World × β) :
    (l.foldl f acc).1.nextPackage = acc.1.nextPackage := by
  induction l generalizing acc with
  | nil => rfl
  | cons a as ih => rw [List.foldl_cons, ih, hf]

theorem orderCancel_nextPackage (w w' : World) (a : Nat) (r : Option Rat) (h : w.orderCancel a r = .ok w') : w'.nextPackage = w.nextPackage := by
  unfold orderCancel at h
  simp only at h
  split_ifs at h
  have := (Except.ok.inj h).symm
  subst this
  unfold orderCancelling; simp
theorem orderUpdate_nextPackage (w w' : World) (a : Nat) (p : String) (h : w.orderUpdate a p = .ok w') : w'.nextPackage = w.nextPackage := by
  unfold orderUpdate at h
  simp only at h
  split_ifs at h
  have := (Except.ok.inj h).symm
  subst this
  unfold orderUpdating; simp
theorem orderReplace_nextPackage (w w' : World) (a : Nat) (p : Rat) (h : w.orderReplace a p = .ok w') : w'.nextPackage = w.nextPackage := by
  unfold orderReplace at h
  simp only at h
  split_ifs at h
  have := (Except.ok.inj h).symm
  subst this
  unfold orderReplacing; simp

@[simp] theorem validateControls_nextPackage (w : World) (oid cid : Nat) (k : PackKind) : (w.validateControls oid cid k).1.nextPackage = w.nextPackage := by
  unfold validateControls
  simp only
  repeat' split
  all_goals simp

@[simp] theorem txnPlace_nextPackage (w : World) (t : Txn) (oid : Nat) (v : Option Int) (ex force : Bool) :
    (w.txnPlace t oid v ex force).1.nextPackage = w.nextPackage := by
  unfold txnPlace
  simp only
  have hv : (if (ex && !force) = true then (w.modifyOrder oid fun o => { o with client := some t.client }).validateControls oid t.client .place
      else (w.modifyOrder oid fun o => { o with client := some t.client }, none)).1.nextPackage = w.nextPackage := by
    split <;> simp
  generalize (if (ex && !force) = true then (w.modifyOrder oid fun o => { o with client := some t.client }).validateControls oid t.client .place
    else (w.modifyOrder oid fun o => { o with client := some t.client }, none)) = vr at hv
  obtain ⟨w1, r⟩ := vr
  simp only at hv ⊢
  cases r with
  | some r => exact hv
  | none =>
    simp only
    repeat' split
    all_goals simp [hv]

theorem txnCancel_nextPackage (w : World) (t : Txn) (oid : Nat) (red : Option Rat) (f : Bool) : (w.txnCancel t oid red f).1.nextPackage = w.nextPackage := by
  unfold txnCancel
  simp only
  split
  · rfl
  · have hv : (if (!f) = true then w.validateControls oid t.client .cancel else (w, none)).1.nextPackage = w.nextPackage := by split <;> simp
    generalize (if (!f) = true then w.validateControls oid t.client .cancel else (w, none)) = vr at hv
    obtain ⟨w1, r⟩ := vr
    cases r with
    | some r => exact hv
    | none =>
      simp only at hv ⊢
      cases h : w1.orderCancel oid red with
      | error e => exact hv
      | ok w2 => exact (orderCancel_nextPackage w1 w2 oid red h).trans hv

theorem txnUpdate_nextPackage (w : World) (t : Txn) (oid : Nat) (p : String) (f : Bool) : (w.txnUpdate t oid p f).1.nextPackage = w.nextPackage := by
  unfold txnUpdate
  simp only
  split
  · rfl
  · have hv : (if (!f) = true then w.validateControls oid t.client .update else (w, none)).1.nextPackage = w.nextPackage := by split <;> simp
    generalize (if (!f) = true then w.validateControls oid t.client .update else (w, none)) = vr at hv
    obtain ⟨w1, r⟩ := vr
    cases r with
    | some r => exact hv
    | none =>
      simp only at hv ⊢
      cases h : w1.orderUpdate oid p with
      | error e => exact hv
      | ok w2 => exact (orderUpdate_nextPackage w1 w2 oid p h).trans hv

theorem txnReplace_nextPackage (w : World) (t : Txn) (oid : Nat) (p : Rat) (v : Option Int) (f : Bool) : (w.txnReplace t oid p v f).1.nextPackage = w.nextPackage := by
  unfold txnReplace
  simp only
  split
  · rfl
  · have hv : (if (!f) = true then w.validateControls oid t.client .replace else (w, none)).1.nextPackage = w.nextPackage := by split <;> simp
    generalize (if (!f) = true then w.validateControls oid t.client .replace else (w, none)) = vr at hv
    obtain ⟨w1, r⟩ := vr
    cases r with
    | some r => exact hv
    | none =>
      simp only at hv ⊢
      cases h : w1.orderReplace oid p with
      | error e => exact hv
      | ok w2 => exact (orderReplace_nextPackage w1 w2 oid p h).trans hv

/-! ### simulated execution -/

@[simp] theorem logPlaced_nextPackage (w : World) (oid : Nat) (b : Option Nat) : (w.logPlaced oid b).nextPackage = w.nextPackage := by
  unfold logPlaced; cases b <;> simp

@[simp] theorem placeStep_nextPackage (p : Package) (w : World) (oid : Nat) : (placeStep p w oid).nextPackage = w.nextPackage := by
  unfold placeStep
  simp only
  split <;> simp

@[simp] theorem cancelStep_nextPackage (p : Package) (acc : World × Nat) (oid : Nat) : (cancelStep p acc oid).1.nextPackage = acc.1.nextPackage := by
  obtain ⟨w, failed⟩ := acc
  unfold cancelStep
  simp only
  repeat' split
  all_goals simp

@[simp] theorem updateStep_nextPackage (p : Package) (acc : World × Nat) (oid : Nat) : (updateStep p acc oid).1.nextPackage = acc.1.nextPackage := by
  obtain ⟨w, failed⟩ := acc
  unfold updateStep
  simp

@[simp] theorem createReplacement_nextPackage (w : World) (oid : Nat) (np sz : Rat) (cr : Time) : (w.createReplacement oid np sz cr).1.nextPackage = w.nextPackage := rfl

@[simp] theorem replacePlace_nextPackage (p : Package) (w : World) (o : Order) (oid : Nat) (book : Book) (np : Option Rat) (sc : Rat) (failed : Nat) :
    (replacePlace p w o oid book np sc failed).1.nextPackage = w.nextPackage := by
  unfold replacePlace
  simp only
  split <;> simp

@[simp] theorem replaceStep_nextPackage (p : Package) (acc : World × Nat) (pr : Nat × Option Rat) : (replaceStep p acc pr).1.nextPackage = acc.1.nextPackage := by
  obtain ⟨w, failed⟩ := acc
  obtain ⟨oid, np⟩ := pr
  unfold replaceStep
  simp only
  split <;> simp

@[simp] theorem executePackage_nextPackage (w : World) (p : Package) : (w.executePackage p).nextPackage = w.nextPackage := by
  unfold executePackage
  cases p.kind with
  | place =>
    simp only; unfold executePlace
    simp only [addTransaction_nextPackage]
    exact foldl_nextPackage _ (fun w oid => placeStep_nextPackage p w oid) _ w
  | cancel =>
    simp only; unfold executeCancel
    simp only
    have := foldl_pair_nextPackage (cancelStep p) (fun acc oid => cancelStep_nextPackage p acc oid) (w.packageOrders p) (w, 0)
    generalize (w.packageOrders p).foldl (cancelStep p) (w, 0) = r at this
    obtain ⟨w1, failed⟩ := r
    simp only at this ⊢
    split <;> simp [this]
  | update =>
    simp only; unfold executeUpdate
    simp only
    have := foldl_pair_nextPackage (updateStep p) (fun acc oid => updateStep_nextPackage p acc oid) (w.packageOrders p) (w, 0)
    generalize (w.packageOrders p).foldl (updateStep p) (w, 0) = r at this
    obtain ⟨w1, failed⟩ := r
    simp only at this ⊢
    split <;> simp [this]
  | replace =>
    simp only; unfold executeReplace
    simp only
    generalize (((w.packageOrders p).filter fun oid => (w.order! oid).status ≠ some .executionComplete).map fun oid => (oid, (w.order! oid).ud.newPrice)) = zs
    have := foldl_pair_nextPackage (replaceStep p) (fun acc pr => replaceStep_nextPackage p acc pr) zs (w, 0)
    generalize zs.foldl (replaceStep p) (w, 0) = r at this
    obtain ⟨w1, failed⟩ := r
    simp only at this ⊢
    split <;> simp [this]

@[simp] theorem checkPendingPackages_nextPackage (w : World) (mid : Nat) : (w.checkPendingPackages mid).nextPackage = w.nextPackage := by
  unfold checkPendingPackages
  simp only
  exact foldl_nextPackage _ (fun w p => executePackage_nextPackage w p) _ w

/-! ### middleware, completion loop, closure -/

@[simp] theorem processRunnerRemoval_nextPackage (w : World) (mid rsel : Nat) (rhc : Rat) (raf : Option Rat) :
    (w.processRunnerRemoval mid rsel rhc raf).nextPackage = w.nextPackage := by
  unfold processRunnerRemoval
  simp only
  exact foldl_nextPackage (fun w1 oid => w1.modifyOrder oid (w1.removalOnOrder (w.market! mid) rsel rhc raf)) (fun w oid => rfl) _ w

@[simp] theorem matchStep_nextPackage (mid : Nat) (r : Bool) (acc : World × List (Nat × Rat × List (Rat × Rat))) (o0 : Order) :
    (matchStep mid r acc o0).1.nextPackage = acc.1.nextPackage := by
  obtain ⟨w, lk⟩ := acc
  unfold matchStep
  simp only
  repeat' split
  all_goals simp

@[simp] theorem matchOrders_nextPackage (w : World) (mid : Nat) (l : List Order) (r : Bool) : (w.matchOrders mid l r).nextPackage = w.nextPackage := by
  unfold matchOrders
  exact foldl_pair_nextPackage _ (fun acc o => matchStep_nextPackage mid r acc o) l _

@[simp] theorem matchStrategy_nextPackage (mid : Nat) (w : World) (sid : Nat) : (matchStrategy mid w sid).nextPackage = w.nextPackage := by
  unfold matchStrategy
  simp only
  split <;> simp

@[simp] theorem mwProcessSimulatedOrders_nextPackage (w : World) (mid : Nat) : (w.mwProcessSimulatedOrders mid).nextPackage = w.nextPackage := by
  unfold mwProcessSimulatedOrders
  simp only
  split
  · exact foldl_nextPackage _ (fun w sid => matchStrategy_nextPackage mid w sid) _ w
  · split <;> simp

@[simp] theorem mwUpdateAnalytics_nextPackage (w : World) (mid : Nat) : (w.mwUpdateAnalytics mid).1.nextPackage = w.nextPackage := rfl

@[simp] theorem simulatedMiddleware_nextPackage (w : World) (mid : Nat) : (w.simulatedMiddleware mid).nextPackage = w.nextPackage := by
  unfold simulatedMiddleware
  simp only
  have h : (List.foldl (fun w (k : Nat × Rat × Option Rat) => w.processRunnerRemoval mid k.1 k.2.1 k.2.2) (w.mwUpdateAnalytics mid).1 (w.mwUpdateAnalytics mid).2).nextPackage = w.nextPackage := by
    rw [foldl_nextPackage (fun w (k : Nat × Rat × Option Rat) => w.processRunnerRemoval mid k.1 k.2.1 k.2.2) (fun w k => processRunnerRemoval_nextPackage w mid k.1 k.2.1 k.2.2)]; rfl
  split <;> simp [h]

@[simp] theorem processSimulatedOrders_nextPackage (w : World) (mid : Nat) : (w.processSimulatedOrders mid).nextPackage = w.nextPackage := by
  unfold processSimulatedOrders
  simp only
  rw [foldl_nextPackage, foldl_nextPackage]
  · intro w oid
    repeat' split
    all_goals simp
  · intro w s
    split <;> simp

@[simp] theorem blotterProcessClosed_nextPackage (w : World) (mid : Nat) (book : Book) : (w.blotterProcessClosed mid book).nextPackage = w.nextPackage := by
  unfold blotterProcessClosed
  simp only
  apply foldl_nextPackage
  intro w oid
  split <;> simp

@[simp] theorem processCloseMarket_nextPackage (w : World) (mid : Nat) (book : Book) : (w.processCloseMarket mid book).nextPackage = w.nextPackage := by
  unfold processCloseMarket
  split
  · rfl
  · simp only
    split <;> simp


end Flumine.NextPk
