/- Lemmas/Inv.lean — a well-formedness invariant of the world that every function of an update
   preserves: order ids are creation indices, every id in a blotter names an order of the table,
   no blotter lists an order twice, the live list is part of the blotter, market ids are unique. -/
import Flumine.SimLoop
import Flumine.Lemmas.OrderLemmas
import Flumine.Lemmas.Ids
import Flumine.Lemmas.Packs
import Mathlib.Tactic.SplitIfs
namespace Flumine.Inv
open Flumine Flumine.World Flumine.OL Flumine.Ids

structure Inv (w : World) : Prop where
  range : ids w = List.range w.orders.length
  blot : ∀ m ∈ w.markets, ∀ oid ∈ m.blotter, oid ∈ ids w
  nodup : ∀ m ∈ w.markets, m.blotter.Nodup
  live : ∀ m ∈ w.markets, ∀ oid ∈ m.live, oid ∈ m.blotter
  mnodup : (w.markets.map (·.id)).Nodup
  queue : ∀ p ∈ w.queue, ∀ oid ∈ p.orders, oid ∈ ids w

theorem inv_empty (cfg : Config) (cl : List Client) (ss : List Strategy) : Inv { cfg := cfg, clients := cl, strategies := ss } :=
  ⟨by simp [ids], by intro m h; simp at h, by intro m h; simp at h, by intro m h; simp at h, by simp, by intro p h; simp at h⟩

/-- w' keeps the order ids of w and is well-formed when w is -/
def Good (w w' : World) : Prop := Keeps w w' ∧ (Inv w → Inv w')

theorem Good.refl (w : World) : Good w w := ⟨Keeps.refl w, id⟩
theorem Good.trans {a b c : World} (h1 : Good a b) (h2 : Good b c) : Good a c :=
  ⟨h1.1.trans h2.1, fun h => h2.2 (h1.2 h)⟩

/-- the order table changed in place (same ids), markets untouched -/
theorem Good.inplace {w w' : World} (hids : ids w' = ids w) (hlen : w'.orders.length = w.orders.length)
    (hm : w'.markets = w.markets) (hq : ∀ p ∈ w'.queue, p ∈ w.queue) : Good w w' :=
  ⟨⟨[], by rw [hids]; simp⟩, fun h => ⟨by rw [hids, hlen]; exact h.range, by rw [hm, hids]; exact h.blot,
    by rw [hm]; exact h.nodup, by rw [hm]; exact h.live, by rw [hm]; exact h.mnodup,
    by intro p hp oid ho; rw [hids]; exact h.queue p (hq p hp) oid ho⟩⟩

theorem Good.of_eq {w w' : World} (ho : w'.orders = w.orders) (hm : w'.markets = w.markets) (hq : ∀ p ∈ w'.queue, p ∈ w.queue) : Good w w' :=
  Good.inplace (by unfold ids; rw [ho]) (by rw [ho]) hm hq

/-! ### markets frame lemmas -/
theorem setCtx_markets (w : World) (c : RunnerCtx) : (w.setCtx c).markets = w.markets := by
  unfold setCtx; split <;> rfl
theorem ctxReset_markets (w : World) (k : CtxKey) (t : Nat) : (w.ctxReset k t).markets = w.markets := setCtx_markets _ _
theorem ctxPlace_markets (w : World) (k : CtxKey) (t : Nat) : (w.ctxPlace k t).markets = w.markets := setCtx_markets _ _
theorem completeTrade_markets (w : World) (tid : Nat) : (w.completeTrade tid).markets = w.markets := by
  unfold completeTrade; simp only [ctxReset_markets]; rfl
theorem tradeUpdateStatus_markets (w : World) (tid : Nat) (s : TradeStatus) : (w.tradeUpdateStatus tid s).markets = w.markets := by
  unfold tradeUpdateStatus
  simp only
  split
  · rw [completeTrade_markets]; rfl
  · rfl
theorem tradeEnter_markets (w : World) (tid : Nat) : (w.tradeEnter tid).markets = w.markets := tradeUpdateStatus_markets _ _ _
theorem tradeExit_markets (w : World) (tid : Nat) : (w.tradeExit tid).markets = w.markets := tradeUpdateStatus_markets _ _ _
theorem orderUpdateStatus_markets (w : World) (oid : Nat) (s : Status) : (w.orderUpdateStatus oid s).markets = w.markets := by
  unfold orderUpdateStatus
  simp only
  split
  · rw [completeTrade_markets]; rfl
  · rfl

theorem setCtx_queue (w : World) (c : RunnerCtx) : (w.setCtx c).queue = w.queue := by
  unfold setCtx; split <;> rfl
theorem completeTrade_queue (w : World) (tid : Nat) : (w.completeTrade tid).queue = w.queue := by
  unfold completeTrade ctxReset; simp only [setCtx_queue]; rfl
theorem tradeUpdateStatus_queue (w : World) (tid : Nat) (s : TradeStatus) : (w.tradeUpdateStatus tid s).queue = w.queue := by
  unfold tradeUpdateStatus
  simp only
  split
  · rw [completeTrade_queue]; rfl
  · rfl
theorem orderUpdateStatus_queue (w : World) (oid : Nat) (s : Status) : (w.orderUpdateStatus oid s).queue = w.queue := by
  unfold orderUpdateStatus
  simp only
  split
  · rw [completeTrade_queue]; rfl
  · rfl
theorem sub_of_eq {w w' : World} (h : w'.queue = w.queue) : ∀ p ∈ w'.queue, p ∈ w.queue := by rw [h]; exact fun _ hp => hp

theorem good_modifyOrder (w : World) (a : Nat) (f : Order → Order) (hf : ∀ x, (f x).id = x.id) : Good w (w.modifyOrder a f) := by
  refine Good.inplace (w := w) (w' := w.modifyOrder a f) ?_ ?_ rfl (fun _ hp => hp)
  · unfold ids modifyOrder
    apply map_ids
    intro x _; split
    · exact hf x
    · rfl
  · unfold modifyOrder; simp

theorem good_setOrder (w : World) (o : Order) : Good w (w.setOrder o) := by
  refine Good.inplace (w := w) (w' := w.setOrder o) ?_ ?_ rfl (fun _ hp => hp)
  · unfold ids setOrder
    apply map_ids
    intro x _; split
    · rename_i h; exact h.symm
    · rfl
  · unfold setOrder; simp

theorem good_orderUpdateStatus (w : World) (oid : Nat) (s : Status) : Good w (w.orderUpdateStatus oid s) := by
  have h := orderUpdateStatus_orders w oid s
  refine Good.inplace ?_ ?_ (orderUpdateStatus_markets w oid s) (sub_of_eq (orderUpdateStatus_queue w oid s))
  · unfold ids; rw [h]
    unfold setOrder; apply map_ids; intro x _; split
    · rename_i hh; exact hh.symm
    · rfl
  · rw [h]; unfold setOrder; simp

theorem good_orderExecutable (w : World) (oid : Nat) : Good w (w.orderExecutable oid) := by
  unfold orderExecutable
  split
  · exact good_modifyOrder w oid _ (fun _ => rfl)
  · exact (good_orderUpdateStatus w oid .executable).trans (good_modifyOrder _ oid _ (fun _ => rfl))

theorem good_orderExecutionComplete (w : World) (oid : Nat) : Good w (w.orderExecutionComplete oid) :=
  (good_orderUpdateStatus w oid .executionComplete).trans (good_modifyOrder _ oid _ (fun _ => rfl))

theorem good_orderViolation (w : World) (oid : Nat) (msg : String) : Good w (w.orderViolation oid msg) := by
  unfold orderViolation
  split
  · exact Good.refl w
  · exact (good_orderUpdateStatus w oid .violation).trans (good_modifyOrder _ oid _ (fun _ => rfl))

theorem good_foldl {α} (f : World → α → World) (hf : ∀ w a, Good w (f w a)) (l : List α) (w : World) : Good w (l.foldl f w) := by
  induction l generalizing w with
  | nil => exact Good.refl w
  | cons a as ih => rw [List.foldl_cons]; exact (hf w a).trans (ih _)

/-! ### markets -/

/-- a change of one market that leaves its id and blotter alone and does not grow its live list -/
theorem good_modifyMarket (w : World) (mid : Nat) (f : Market → Market)
    (hf : ∀ m, (f m).id = m.id ∧ (f m).blotter = m.blotter ∧ (∀ x ∈ (f m).live, x ∈ m.live)) : Good w (w.modifyMarket mid f) := by
  refine ⟨Keeps.of_eq rfl, fun h => ?_⟩
  have hmem : ∀ m' ∈ (w.modifyMarket mid f).markets, ∃ m ∈ w.markets, m'.id = m.id ∧ m'.blotter = m.blotter ∧ (∀ x ∈ m'.live, x ∈ m.live) := by
    intro m' hm'
    unfold modifyMarket at hm'
    obtain ⟨m, hm, rfl⟩ := List.mem_map.mp hm'
    refine ⟨m, hm, ?_⟩
    split
    · exact hf m
    · exact ⟨rfl, rfl, fun _ hx => hx⟩
  refine ⟨h.range, ?_, ?_, ?_, ?_, h.queue⟩
  · intro m' hm' oid ho
    obtain ⟨m, hm, _, hb, _⟩ := hmem m' hm'
    rw [hb] at ho; exact h.blot m hm oid ho
  · intro m' hm'
    obtain ⟨m, hm, _, hb, _⟩ := hmem m' hm'
    rw [hb]; exact h.nodup m hm
  · intro m' hm' oid ho
    obtain ⟨m, hm, _, hb, hl⟩ := hmem m' hm'
    rw [hb]; exact h.live m hm oid (hl oid ho)
  · have : (w.modifyMarket mid f).markets.map (·.id) = w.markets.map (·.id) := by
      unfold modifyMarket
      rw [List.map_map]
      apply List.map_congr_left
      intro x _
      simp only [Function.comp]
      split
      · exact (hf x).1
      · rfl
    rw [this]; exact h.mnodup

theorem good_setClient (w : World) (c : Client) : Good w (w.setClient c) := Good.of_eq rfl rfl (fun _ hp => hp)
theorem good_emit (w : World) (e : Ev) : Good w (w.emit e) := Good.of_eq rfl rfl (fun _ hp => hp)
theorem good_setCtx (w : World) (c : RunnerCtx) : Good w (w.setCtx c) := Good.of_eq (setCtx_orders w c) (setCtx_markets w c) (sub_of_eq (setCtx_queue w c))
theorem good_ctxPlace (w : World) (k : CtxKey) (t : Nat) : Good w (w.ctxPlace k t) := Good.of_eq (ctxPlace_orders w k t) (ctxPlace_markets w k t) (sub_of_eq (setCtx_queue w _))
theorem good_tradeEnter (w : World) (t : Nat) : Good w (w.tradeEnter t) := Good.of_eq (tradeEnter_orders w t) (tradeEnter_markets w t) (sub_of_eq (tradeUpdateStatus_queue w t _))
theorem good_tradeExit (w : World) (t : Nat) : Good w (w.tradeExit t) := Good.of_eq (tradeExit_orders w t) (tradeExit_markets w t) (sub_of_eq (tradeUpdateStatus_queue w t _))
theorem good_addTransaction (w : World) (c n : Nat) (f : Bool) : Good w (w.addTransaction c n f) := Good.of_eq rfl rfl (fun _ hp => hp)
theorem good_blotterComplete (w : World) (mid oid : Nat) : Good w (w.blotterComplete mid oid) := by
  unfold blotterComplete
  exact good_modifyMarket w mid _ (fun m => ⟨rfl, rfl, fun x hx => List.mem_of_mem_erase hx⟩)

theorem find_of_mem_nodup (l : List Market) (m : Market) (hm : m ∈ l) (hn : (l.map (·.id)).Nodup) :
    l.find? (fun x => decide (x.id = m.id)) = some m := by
  induction l with
  | nil => cases hm
  | cons x xs ih =>
    rw [List.map_cons, List.nodup_cons] at hn
    rw [List.find?_cons]
    rcases List.mem_cons.mp hm with rfl | hin
    · simp
    · have hne : x.id ≠ m.id := by
        intro e; apply hn.1; rw [e]; exact List.mem_map.mpr ⟨m, hin, rfl⟩
      simp only [hne, decide_false]
      exact ih hin hn.2

theorem market!_of_mem (w : World) (m : Market) (hm : m ∈ w.markets) (hn : (w.markets.map (·.id)).Nodup) : w.market! m.id = m := by
  unfold market! market?
  rw [find_of_mem_nodup w.markets m hm hn]; rfl

theorem good_blotterAdd (w : World) (mid oid : Nat) (ho : oid ∈ ids w) (hn : oid ∉ (w.market! mid).blotter) :
    Good w (w.blotterAdd mid oid) := by
  unfold blotterAdd
  refine Good.trans (b := w.modifyMarket mid fun m => { m with active := true, blotter := m.blotter ++ [oid], live := m.live ++ [oid] }) ?_
    (good_modifyOrder _ oid _ (fun _ => rfl))
  refine ⟨Keeps.of_eq rfl, fun h => ?_⟩
  have hmem : ∀ m' ∈ (w.modifyMarket mid fun m => { m with active := true, blotter := m.blotter ++ [oid], live := m.live ++ [oid] }).markets,
      ∃ m ∈ w.markets, m'.id = m.id ∧ ((m'.blotter = m.blotter ∧ m'.live = m.live) ∨
        (m.id = mid ∧ m'.blotter = m.blotter ++ [oid] ∧ m'.live = m.live ++ [oid])) := by
    intro m' hm'
    unfold modifyMarket at hm'
    obtain ⟨m, hm, rfl⟩ := List.mem_map.mp hm'
    refine ⟨m, hm, ?_⟩
    split
    · rename_i hid; exact ⟨rfl, Or.inr ⟨hid, rfl, rfl⟩⟩
    · exact ⟨rfl, Or.inl ⟨rfl, rfl⟩⟩
  refine ⟨h.range, ?_, ?_, ?_, ?_, h.queue⟩
  · intro m' hm' x hx
    obtain ⟨m, hm, _, hc⟩ := hmem m' hm'
    rcases hc with ⟨hb, _⟩ | ⟨_, hb, _⟩
    · rw [hb] at hx; exact h.blot m hm x hx
    · rw [hb] at hx
      rcases List.mem_append.mp hx with hx | hx
      · exact h.blot m hm x hx
      · rw [List.mem_singleton.mp hx]; exact ho
  · intro m' hm'
    obtain ⟨m, hm, _, hc⟩ := hmem m' hm'
    rcases hc with ⟨hb, _⟩ | ⟨hid, hb, _⟩
    · rw [hb]; exact h.nodup m hm
    · rw [hb]
      have hmm := market!_of_mem w m hm h.mnodup
      rw [hid] at hmm
      rw [hmm] at hn
      rw [List.nodup_append]
      exact ⟨h.nodup m hm, by simp, by intro a ha b hb'; rw [List.mem_singleton.mp hb']; intro e; exact hn (e ▸ ha)⟩
  · intro m' hm' x hx
    obtain ⟨m, hm, _, hc⟩ := hmem m' hm'
    rcases hc with ⟨hb, hl⟩ | ⟨_, hb, hl⟩
    · rw [hb]; rw [hl] at hx; exact h.live m hm x hx
    · rw [hb]; rw [hl] at hx
      rcases List.mem_append.mp hx with hx | hx
      · exact List.mem_append_left _ (h.live m hm x hx)
      · exact List.mem_append_right _ hx
  · have : (w.modifyMarket mid fun m => { m with active := true, blotter := m.blotter ++ [oid], live := m.live ++ [oid] }).markets.map (·.id) = w.markets.map (·.id) := by
      unfold modifyMarket
      rw [List.map_map]
      apply List.map_congr_left
      intro x _
      simp only [Function.comp]
      split <;> rfl
    rw [this]; exact h.mnodup

/-! ### requests -/

theorem good_orderCancel (w w' : World) (oid : Nat) (red : Option Rat) (h : w.orderCancel oid red = .ok w') : Good w w' := by
  unfold orderCancel at h
  simp only at h
  split_ifs at h
  have := (Except.ok.inj h).symm
  subst this
  exact (good_setOrder w _).trans (good_orderUpdateStatus _ oid .cancelling)

theorem good_orderUpdate (w w' : World) (oid : Nat) (p : String) (h : w.orderUpdate oid p = .ok w') : Good w w' := by
  unfold orderUpdate at h
  simp only at h
  split_ifs at h
  have := (Except.ok.inj h).symm
  subst this
  exact (good_setOrder w _).trans (good_orderUpdateStatus _ oid .updating)

theorem good_orderReplace (w w' : World) (oid : Nat) (p : Rat) (h : w.orderReplace oid p = .ok w') : Good w w' := by
  unfold orderReplace at h
  simp only at h
  split_ifs at h
  have := (Except.ok.inj h).symm
  subst this
  exact (good_setOrder w _).trans (good_orderUpdateStatus _ oid .replacing)

theorem good_validateControls (w : World) (oid cid : Nat) (k : PackKind) : Good w (w.validateControls oid cid k).1 := by
  unfold validateControls
  simp only
  split
  · exact good_orderViolation w oid _
  · split
    · exact good_orderViolation w oid _
    · split
      · split_ifs
        · exact (good_setCtx w _).trans (good_orderViolation _ oid _)
        · exact good_orderViolation w oid _
      · split_ifs
        · exact (good_setCtx w _).trans (good_setClient _ _)
        · exact ((good_setCtx w _).trans (good_setClient _ _)).trans (good_orderViolation _ oid _)
        · exact good_setClient w _
        · exact (good_setClient w _).trans (good_orderViolation _ oid _)

/-- every order a transaction has pending (accepted, not yet packaged) is in the order table -/
def TOk (w : World) (t : Txn) : Prop :=
  (∀ x ∈ t.pPlace, x.1 ∈ ids w) ∧ (∀ x ∈ t.pCancel, x.1 ∈ ids w) ∧ (∀ x ∈ t.pUpdate, x.1 ∈ ids w) ∧ (∀ x ∈ t.pReplace, x.1 ∈ ids w)

theorem Keeps.mem {w w' : World} (h : Keeps w w') (id : Nat) (ho : id ∈ ids w) : id ∈ ids w' := by
  obtain ⟨e, he⟩ := h; rw [he]; exact List.mem_append_left _ ho

theorem TOk.keeps {w w' : World} {t : Txn} (h : TOk w t) (k : Keeps w w') : TOk w' t :=
  ⟨fun x hx => Keeps.mem k _ (h.1 x hx), fun x hx => Keeps.mem k _ (h.2.1 x hx), fun x hx => Keeps.mem k _ (h.2.2.1 x hx),
   fun x hx => Keeps.mem k _ (h.2.2.2 x hx)⟩

theorem TOk.fresh (w : World) (m c : Nat) : TOk w { market := m, client := c } := by
  unfold TOk
  refine ⟨?_, ?_, ?_, ?_⟩ <;> (intro x h; cases h)

theorem good_addPackage (kind : PackKind) (t : Txn) (d bd : Rat) (w : World) (vc : Option Int × List Nat)
    (hv : ∀ oid ∈ vc.2, oid ∈ ids w) : Good w (addPackage kind t d bd w vc) := by
  refine ⟨Keeps.of_eq rfl, fun h => ⟨h.range, h.blot, h.nodup, h.live, h.mnodup, ?_⟩⟩
  intro p hp oid ho
  unfold addPackage at hp
  rcases List.mem_append.mp hp with hp | hp
  · exact h.queue p hp oid ho
  · rw [List.mem_singleton.mp hp] at ho; exact hv oid ho

theorem good_packs (kind : PackKind) (t : Txn) (d bd : Rat) (l : List (Option Int × List Nat)) (w : World)
    (hv : ∀ vc ∈ l, ∀ oid ∈ vc.2, oid ∈ ids w) : Good w (l.foldl (addPackage kind t d bd) w) := by
  induction l generalizing w with
  | nil => exact Good.refl w
  | cons vc rest ih =>
    rw [List.foldl_cons]
    exact (good_addPackage kind t d bd w vc (hv vc List.mem_cons_self)).trans
      (ih _ (fun x hx => hv x (List.mem_cons_of_mem _ hx)))

theorem good_createPackages (w : World) (t : Txn) (pend : List (Nat × Option Int)) (k : PackKind)
    (hp : ∀ x ∈ pend, x.1 ∈ ids w) : Good w (w.createPackages t pend k) := by
  unfold createPackages
  apply good_packs
  intro vc hvc oid ho
  exact hp (oid, vc.1) ((Packs.packs_sound pend k vc hvc).2.2 oid ho)

theorem good_txnExecute_of (w : World) (t : Txn) (ht : TOk w t) : Good w (w.txnExecute t).1 := by
  unfold txnExecute
  simp only
  have h : ∀ (w : World) (c : Bool) (p : List (Nat × Option Int)) (k : PackKind), (∀ x ∈ p, x.1 ∈ ids w) →
      Good w (if c then w else w.createPackages t p k) := by
    intro w c p k hp; split
    · exact Good.refl w
    · exact good_createPackages w t p k hp
  have k1 := h w t.pPlace.isEmpty t.pPlace .place ht.1
  generalize (if t.pPlace.isEmpty = true then w else w.createPackages t t.pPlace .place) = w1 at k1
  have k2 := h w1 t.pCancel.isEmpty t.pCancel .cancel (fun x hx => Keeps.mem k1.1 _ (ht.2.1 x hx))
  generalize (if t.pCancel.isEmpty = true then w1 else w1.createPackages t t.pCancel .cancel) = w2 at k2
  have k3 := h w2 t.pUpdate.isEmpty t.pUpdate .update (fun x hx => Keeps.mem (k1.1.trans k2.1) _ (ht.2.2.1 x hx))
  generalize (if t.pUpdate.isEmpty = true then w2 else w2.createPackages t t.pUpdate .update) = w3 at k3
  have k4 := h w3 t.pReplace.isEmpty t.pReplace .replace (fun x hx => Keeps.mem ((k1.1.trans k2.1).trans k3.1) _ (ht.2.2.2 x hx))
  exact ((k1.trans k2).trans k3).trans k4

theorem good_txnExecute (w : World) (t : Txn) (ht : Inv w → TOk w t) : Good w (w.txnExecute t).1 :=
  ⟨keeps_txnExecute w t, fun hI => (good_txnExecute_of w t (ht hI)).2 hI⟩

theorem tok_txnExecute (w : World) (t : Txn) : TOk (w.txnExecute t).1 (w.txnExecute t).2 := by
  unfold TOk txnExecute
  refine ⟨?_, ?_, ?_, ?_⟩ <;> (intro x h; cases h)

theorem good_txnExit (w : World) (t : Txn) (ht : Inv w → TOk w t) : Good w (w.txnExit t) := by
  unfold txnExit; split
  · exact good_txnExecute w t ht
  · exact Good.refl w

theorem market!_congr (w1 w2 : World) (h : w1.markets = w2.markets) (mid : Nat) : w1.market! mid = w2.market! mid := by
  unfold market! market?; rw [h]

/-- a new order appended to the table under the next creation index -/
theorem good_appendOrder (w w' : World) (o : Order) (hid : o.id = w.orders.length) (ho : w'.orders = w.orders ++ [o])
    (hm : w'.markets = w.markets) (hq : ∀ p ∈ w'.queue, p ∈ w.queue) : Good w w' := by
  have hids : ids w' = ids w ++ [w.orders.length] := by unfold ids; rw [ho]; simp [hid]
  refine ⟨⟨[w.orders.length], hids⟩, fun h => ⟨?_, ?_, by rw [hm]; exact h.nodup, by rw [hm]; exact h.live, by rw [hm]; exact h.mnodup, ?_⟩⟩
  · rw [hids, ho, List.length_append, List.length_singleton, List.range_succ, h.range]
  · rw [hm]; intro m hmm oid hx
    rw [hids]; exact List.mem_append_left _ (h.blot m hmm oid hx)
  · intro p hp oid hx
    rw [hids]; exact List.mem_append_left _ (h.queue p (hq p hp) oid hx)

theorem good_txnPlace_of_mem (w : World) (t : Txn) (oid : Nat) (v : Option Int) (ex force : Bool) (ho : oid ∈ ids w) : Good w (w.txnPlace t oid v ex force).1 := by
  unfold txnPlace
  simp only
  have k0 := good_modifyOrder w oid (fun o => { o with client := some t.client }) (fun _ => rfl)
  generalize w.modifyOrder oid (fun o => { o with client := some t.client }) = w0 at k0
  have k1 : Good w0 (if (ex && !force) = true then w0.validateControls oid t.client .place else (w0, none)).1 := by
    split
    · exact good_validateControls w0 oid t.client .place
    · exact Good.refl w0
  generalize (if (ex && !force) = true then w0.validateControls oid t.client .place else (w0, none)) = vr at k1
  obtain ⟨w1, r⟩ := vr
  simp only at k1 ⊢
  cases r with
  | some r => exact k0.trans k1
  | none =>
    simp only
    split
    · exact k0.trans k1
    · rename_i hnc
      have k2 := good_modifyOrder w1 oid (fun o => { o with publishTime := some (((w1.market! t.market).book).getD {}).pt, marketVersion := v }) (fun _ => rfl)
      have m2 : (w1.modifyOrder oid (fun o => { o with publishTime := some (((w1.market! t.market).book).getD {}).pt, marketVersion := v })).markets = w1.markets := rfl
      generalize w1.modifyOrder oid (fun o => { o with publishTime := some (((w1.market! t.market).book).getD {}).pt, marketVersion := v }) = w2 at k2 m2
      have k3 := good_orderUpdateStatus w2 oid .pending
      have m3 : (w2.orderUpdateStatus oid .pending).markets = w1.markets := (orderUpdateStatus_markets w2 oid .pending).trans m2
      have base := ((k0.trans k1).trans k2).trans k3
      unfold orderPlacing
      generalize w2.orderUpdateStatus oid .pending = w3 at base m3
      have hn3 : oid ∉ (w3.market! t.market).blotter := by
        rw [market!_congr w3 w1 m3 t.market]
        intro hin; apply hnc; rw [Bool.or_eq_true]; exact Or.inl (List.contains_iff_mem.mpr hin)
      have k4 := good_blotterAdd w3 t.market oid (Keeps.mem base.1 oid ho) hn3
      split
      · split
        · exact ((base.trans k4).trans (good_emit _ _)).trans (good_ctxPlace _ _ _)
        · exact (base.trans k4).trans (good_ctxPlace _ _ _)
      · split
        · exact (base.trans k4).trans (good_emit _ _)
        · exact base.trans k4

theorem good_txnPlace (w : World) (t : Txn) (oid : Nat) (v : Option Int) (ex force : Bool) (ho : Inv w → oid ∈ ids w) :
    Good w (w.txnPlace t oid v ex force).1 :=
  ⟨keeps_txnPlace w t oid v ex force, fun hI => (good_txnPlace_of_mem w t oid v ex force (ho hI)).2 hI⟩

theorem good_txnCancel (w : World) (t : Txn) (oid : Nat) (red : Option Rat) (f : Bool) : Good w (w.txnCancel t oid red f).1 := by
  unfold txnCancel
  simp only
  split
  · exact Good.refl w
  · have k1 : Good w (if (!f) = true then w.validateControls oid t.client .cancel else (w, none)).1 := by
      split
      · exact good_validateControls w oid t.client .cancel
      · exact Good.refl w
    generalize (if (!f) = true then w.validateControls oid t.client .cancel else (w, none)) = vr at k1
    obtain ⟨w1, r⟩ := vr
    cases r with
    | some r => exact k1
    | none =>
      simp only at k1 ⊢
      cases h : w1.orderCancel oid red with
      | error e => exact k1
      | ok w2 => exact k1.trans (good_orderCancel w1 w2 oid red h)

theorem good_txnUpdate (w : World) (t : Txn) (oid : Nat) (p : String) (f : Bool) : Good w (w.txnUpdate t oid p f).1 := by
  unfold txnUpdate
  simp only
  split
  · exact Good.refl w
  · have k1 : Good w (if (!f) = true then w.validateControls oid t.client .update else (w, none)).1 := by
      split
      · exact good_validateControls w oid t.client .update
      · exact Good.refl w
    generalize (if (!f) = true then w.validateControls oid t.client .update else (w, none)) = vr at k1
    obtain ⟨w1, r⟩ := vr
    cases r with
    | some r => exact k1
    | none =>
      simp only at k1 ⊢
      cases h : w1.orderUpdate oid p with
      | error e => exact k1
      | ok w2 => exact k1.trans (good_orderUpdate w1 w2 oid p h)

theorem good_txnReplace (w : World) (t : Txn) (oid : Nat) (p : Rat) (v : Option Int) (f : Bool) : Good w (w.txnReplace t oid p v f).1 := by
  unfold txnReplace
  simp only
  split
  · exact Good.refl w
  · have k1 : Good w (if (!f) = true then w.validateControls oid t.client .replace else (w, none)).1 := by
      split
      · exact good_validateControls w oid t.client .replace
      · exact Good.refl w
    generalize (if (!f) = true then w.validateControls oid t.client .replace else (w, none)) = vr at k1
    obtain ⟨w1, r⟩ := vr
    cases r with
    | some r => exact k1
    | none =>
      simp only at k1 ⊢
      cases h : w1.orderReplace oid p with
      | error e => exact k1
      | ok w2 => exact k1.trans (good_orderReplace w1 w2 oid p h)


/-! ### what a request leaves pending in the transaction -/

theorem txnPlace_txn (w : World) (t : Txn) (oid : Nat) (v : Option Int) (ex force : Bool) :
    (w.txnPlace t oid v ex force).2.1 = t ∨
    (w.txnPlace t oid v ex force).2.1 = { t with pPlace := t.pPlace ++ [(oid, v)], pendingOrders := true } := by
  unfold txnPlace
  simp only
  generalize (if (ex && !force) = true then (w.modifyOrder oid fun o => { o with client := some t.client }).validateControls oid t.client .place
    else (w.modifyOrder oid fun o => { o with client := some t.client }, none)) = vr
  obtain ⟨w1, r⟩ := vr
  cases r with
  | some r => left; rfl
  | none =>
    simp only
    split
    · left; rfl
    · split
      · right; rfl
      · left; rfl

theorem txnCancel_txn (w : World) (t : Txn) (oid : Nat) (red : Option Rat) (f : Bool) :
    (w.txnCancel t oid red f).2.1 = t ∨
    (w.txnCancel t oid red f).2.1 = { t with pCancel := t.pCancel ++ [(oid, none)], pendingOrders := true } := by
  unfold txnCancel
  simp only
  split
  · left; rfl
  · generalize (if (!f) = true then w.validateControls oid t.client .cancel else (w, none)) = vr
    obtain ⟨w1, r⟩ := vr
    cases r with
    | some r => left; rfl
    | none =>
      simp only
      cases w1.orderCancel oid red with
      | error e => left; rfl
      | ok w2 => right; rfl

theorem txnUpdate_txn (w : World) (t : Txn) (oid : Nat) (p : String) (f : Bool) :
    (w.txnUpdate t oid p f).2.1 = t ∨
    (w.txnUpdate t oid p f).2.1 = { t with pUpdate := t.pUpdate ++ [(oid, none)], pendingOrders := true } := by
  unfold txnUpdate
  simp only
  split
  · left; rfl
  · generalize (if (!f) = true then w.validateControls oid t.client .update else (w, none)) = vr
    obtain ⟨w1, r⟩ := vr
    cases r with
    | some r => left; rfl
    | none =>
      simp only
      cases w1.orderUpdate oid p with
      | error e => left; rfl
      | ok w2 => right; rfl

theorem txnReplace_txn (w : World) (t : Txn) (oid : Nat) (p : Rat) (v : Option Int) (f : Bool) :
    (w.txnReplace t oid p v f).2.1 = t ∨
    (w.txnReplace t oid p v f).2.1 = { t with pReplace := t.pReplace ++ [(oid, v)], pendingOrders := true } := by
  unfold txnReplace
  simp only
  split
  · left; rfl
  · generalize (if (!f) = true then w.validateControls oid t.client .replace else (w, none)) = vr
    obtain ⟨w1, r⟩ := vr
    cases r with
    | some r => left; rfl
    | none =>
      simp only
      cases w1.orderReplace oid p with
      | error e => left; rfl
      | ok w2 => right; rfl

theorem tok_add (w : World) (t t' : Txn) (oid : Nat) (ht : TOk w t) (ho : oid ∈ ids w)
    (h : t' = t ∨ (∃ v, t' = { t with pPlace := t.pPlace ++ [(oid, v)], pendingOrders := true }) ∨
      (∃ v, t' = { t with pCancel := t.pCancel ++ [(oid, v)], pendingOrders := true }) ∨
      (∃ v, t' = { t with pUpdate := t.pUpdate ++ [(oid, v)], pendingOrders := true }) ∨
      (∃ v, t' = { t with pReplace := t.pReplace ++ [(oid, v)], pendingOrders := true })) : TOk w t' := by
  unfold TOk at ht ⊢
  have app : ∀ (l : List (Nat × Option Int)) (v : Option Int), (∀ x ∈ l, x.1 ∈ ids w) → ∀ x ∈ l ++ [(oid, v)], x.1 ∈ ids w := by
    intro l v hl x hx
    rcases List.mem_append.mp hx with hx | hx
    · exact hl x hx
    · rw [List.mem_singleton.mp hx]; exact ho
  rcases h with rfl | ⟨v, rfl⟩ | ⟨v, rfl⟩ | ⟨v, rfl⟩ | ⟨v, rfl⟩
  · exact ht
  · exact ⟨app _ v ht.1, ht.2.1, ht.2.2.1, ht.2.2.2⟩
  · exact ⟨ht.1, app _ v ht.2.1, ht.2.2.1, ht.2.2.2⟩
  · exact ⟨ht.1, ht.2.1, app _ v ht.2.2.1, ht.2.2.2⟩
  · exact ⟨ht.1, ht.2.1, ht.2.2.1, app _ v ht.2.2.2⟩

/-! ### simulated execution -/

theorem good_logPlaced (w : World) (oid : Nat) (b : Option Nat) : Good w (w.logPlaced oid b) := by
  unfold logPlaced
  have k1 := good_modifyOrder w oid (fun o => { o with placedAt := some w.clock }) (fun _ => rfl)
  cases b with
  | none => exact k1
  | some b => exact (k1.trans (good_modifyOrder _ oid (fun o => { o with betId := some b }) (fun _ => rfl))).trans (good_emit _ _)

theorem good_bumpBetId (w : World) : Good w w.bumpBetId := Good.of_eq rfl rfl (fun _ hp => hp)

theorem good_placeStep (p : Package) (w : World) (oid : Nat) : Good w (placeStep p w oid) := by
  unfold placeStep
  simp only
  have k1 := (good_tradeEnter w (w.order! oid).trade).trans (good_bumpBetId _)
  generalize (w.tradeEnter (w.order! oid).trade).bumpBetId = w1 at k1
  generalize placeResponse p w1 (w.order! oid) = pr
  have k2 := k1.trans ((good_modifyOrder w1 oid (fun o => { o with sim := pr.1 }) (fun _ => rfl)).trans (good_logPlaced _ oid pr.2.betId))
  generalize (w1.modifyOrder oid fun o => { o with sim := pr.1 }).logPlaced oid pr.2.betId = w2 at k2
  cases pr.2.status with
  | success => exact (k2.trans (good_orderExecutable w2 oid)).trans (good_tradeExit _ _)
  | failure => exact (k2.trans (good_orderExecutionComplete w2 oid)).trans (good_tradeExit _ _)

theorem good_cancelStep (p : Package) (acc : World × Nat) (oid : Nat) : Good acc.1 (cancelStep p acc oid).1 := by
  obtain ⟨w, failed⟩ := acc
  unfold cancelStep
  simp only
  have k1 := good_tradeEnter w (w.order! oid).trade
  generalize w.tradeEnter (w.order! oid).trade = w1 at k1
  generalize (w.order! oid).sim.cancel (((w1.market! p.market).book).getD {}).status
    (if (w.order! oid).ud.hasReduction then (w.order! oid).ud.sizeReduction else none) = cr
  have k2 := k1.trans (good_modifyOrder w1 oid (fun o => { o with sim := cr.1, cancelResponses := o.cancelResponses + 1 }) (fun _ => rfl))
  generalize w1.modifyOrder oid (fun o => { o with sim := cr.1, cancelResponses := o.cancelResponses + 1 }) = w2 at k2
  cases cr.2.status with
  | success =>
    simp only
    split
    · exact (k2.trans (good_orderExecutionComplete w2 oid)).trans (good_tradeExit _ _)
    · exact (k2.trans (good_orderExecutable w2 oid)).trans (good_tradeExit _ _)
  | failure => exact (k2.trans (good_orderExecutable w2 oid)).trans (good_tradeExit _ _)

theorem good_updateStep (p : Package) (acc : World × Nat) (oid : Nat) : Good acc.1 (updateStep p acc oid).1 := by
  obtain ⟨w, failed⟩ := acc
  unfold updateStep
  simp only
  have k1 := good_tradeEnter w (w.order! oid).trade
  generalize w.tradeEnter (w.order! oid).trade = w1 at k1
  generalize (w.order! oid).sim.update (((w1.market! p.market).book).getD {}).view (w.order! oid).sim.persistence = ur
  have k2 := k1.trans (good_modifyOrder w1 oid (fun o => { o with sim := ur.1, updateResponses := o.updateResponses + 1 }) (fun _ => rfl))
  generalize w1.modifyOrder oid (fun o => { o with sim := ur.1, updateResponses := o.updateResponses + 1 }) = w2 at k2
  exact (k2.trans (good_orderExecutable w2 oid)).trans (good_tradeExit _ _)

theorem good_createReplacement (w : World) (oid : Nat) (np sz : Rat) (cr : Time) : Good w (w.createReplacement oid np sz cr).1 := by
  unfold createReplacement
  simp only
  exact good_appendOrder w _ _ rfl rfl rfl (fun _ hp => hp)

theorem createReplacement_mem (w : World) (oid : Nat) (np sz : Rat) (cr : Time) :
    (w.createReplacement oid np sz cr).2 ∈ ids (w.createReplacement oid np sz cr).1 := by
  unfold createReplacement ids setTrade
  simp

theorem good_replacePlace (p : Package) (w : World) (o : Order) (oid : Nat) (book : Book) (np : Option Rat) (sc : Rat) (failed : Nat) :
    Good w (replacePlace p w o oid book np sc failed).1 := by
  unfold replacePlace
  simp only
  have k1 := (good_orderExecutionComplete w oid).trans (good_bumpBetId _)
  generalize (w.orderExecutionComplete oid).bumpBetId = w1 at k1
  have k2 := k1.trans (good_createReplacement w1 oid (np.getD 0) sc p.created)
  have hr := createReplacement_mem w1 oid (np.getD 0) sc p.created
  generalize w1.createReplacement oid (np.getD 0) sc p.created = cr at k2 hr
  obtain ⟨w2, rid⟩ := cr
  simp only at k2 hr ⊢
  generalize (w2.order! rid).sim.place p.marketVersion (w2.client! p.client).bpe (w2.client! ((w2.order! rid).client.getD 0)).fullMatch book.view
    ((runnerOf book (w2.order! rid).sel (w2.order! rid).hc).getD { sel := (w2.order! rid).sel }).view false none w2.betId = pr
  have q3 := good_modifyOrder w2 rid (fun x => { x with sim := pr.1 }) (fun _ => rfl)
  have k3 := k2.trans q3
  generalize w2.modifyOrder rid (fun x => { x with sim := pr.1 }) = w3 at k3 q3
  cases pr.2.status with
  | success =>
    simp only
    have q4 := (good_modifyOrder w3 rid (fun x => { x with placedAt := some w3.clock, betId := pr.2.betId }) (fun _ => rfl)).trans (good_emit _ (.orderEvent rid))
    have k4 := k3.trans q4
    generalize (w3.modifyOrder rid (fun x => { x with placedAt := some w3.clock, betId := pr.2.betId })).emit (.orderEvent rid) = w4 at k4 q4
    have hr4 : rid ∈ ids w4 := Keeps.mem (q3.1.trans q4.1) rid hr
    exact ((k4.trans (good_txnPlace w4 _ rid none false false (fun _ => hr4))).trans (good_orderExecutable _ rid)).trans (good_tradeExit _ _)
  | failure =>
    exact ((k3.trans (good_orderExecutionComplete w3 rid)).trans (good_orderExecutable _ oid)).trans (good_tradeExit _ _)

theorem good_replaceStep (p : Package) (acc : World × Nat) (pr : Nat × Option Rat) : Good acc.1 (replaceStep p acc pr).1 := by
  obtain ⟨w, failed⟩ := acc
  obtain ⟨oid, newPrice⟩ := pr
  unfold replaceStep
  simp only
  have k1 := good_tradeEnter w (w.order! oid).trade
  generalize w.tradeEnter (w.order! oid).trade = w1 at k1
  generalize (w.order! oid).sim.cancel (((w1.market! p.market).book).getD {}).status
    (if (w.order! oid).ud.hasReduction then (w.order! oid).ud.sizeReduction else none) = cr
  have k2 := k1.trans (good_modifyOrder w1 oid (fun o => { o with sim := cr.1, cancelResponses := o.cancelResponses + 1 }) (fun _ => rfl))
  generalize w1.modifyOrder oid (fun o => { o with sim := cr.1, cancelResponses := o.cancelResponses + 1 }) = w2 at k2
  cases cr.2.status with
  | failure => exact (k2.trans (good_orderExecutable w2 oid)).trans (good_tradeExit _ _)
  | success => exact k2.trans (good_replacePlace p w2 _ oid _ newPrice _ failed)

theorem good_foldl_pair {α β} (f : World × β → α → World × β) (hf : ∀ acc a, Good acc.1 (f acc a).1) (l : List α) (acc : World × β) :
    Good acc.1 (l.foldl f acc).1 := by
  induction l generalizing acc with
  | nil => exact Good.refl _
  | cons a as ih => rw [List.foldl_cons]; exact (hf acc a).trans (ih _)

theorem good_executePackage (w : World) (p : Package) : Good w (w.executePackage p) := by
  unfold executePackage
  cases p.kind with
  | place =>
    simp only; unfold executePlace
    exact (good_foldl _ (fun w oid => good_placeStep p w oid) _ w).trans (good_addTransaction _ _ _ _)
  | cancel =>
    simp only; unfold executeCancel
    simp only
    have := good_foldl_pair (cancelStep p) (fun acc oid => good_cancelStep p acc oid) (w.packageOrders p) (w, 0)
    generalize (w.packageOrders p).foldl (cancelStep p) (w, 0) = r at this
    obtain ⟨w1, failed⟩ := r
    simp only at this ⊢
    split
    · exact this.trans (good_addTransaction _ _ _ _)
    · exact this
  | update =>
    simp only; unfold executeUpdate
    simp only
    have := good_foldl_pair (updateStep p) (fun acc oid => good_updateStep p acc oid) (w.packageOrders p) (w, 0)
    generalize (w.packageOrders p).foldl (updateStep p) (w, 0) = r at this
    obtain ⟨w1, failed⟩ := r
    simp only at this ⊢
    split
    · exact this.trans (good_addTransaction _ _ _ _)
    · exact this
  | replace =>
    simp only; unfold executeReplace
    simp only
    generalize (((w.packageOrders p).filter fun oid => (w.order! oid).status ≠ some .executionComplete).map fun oid => (oid, (w.order! oid).ud.newPrice)) = zs
    have := good_foldl_pair (replaceStep p) (fun acc pr => good_replaceStep p acc pr) zs (w, 0)
    generalize zs.foldl (replaceStep p) (w, 0) = r at this
    obtain ⟨w1, failed⟩ := r
    simp only at this ⊢
    split
    · exact (this.trans (good_addTransaction _ _ _ _)).trans (good_addTransaction _ _ _ _)
    · exact this.trans (good_addTransaction _ _ _ _)

theorem good_checkPendingPackages (w : World) (mid : Nat) : Good w (w.checkPendingPackages mid) := by
  unfold checkPendingPackages
  simp only
  exact (good_foldl _ (fun w p => good_executePackage w p) _ w).trans (Good.of_eq rfl rfl (fun p hp => (List.mem_filter.mp hp).1))


/-! ### middleware, completion loop, closure -/

theorem removalOnOrder_id (w : World) (m : Market) (rsel : Nat) (rhc : Rat) (raf : Option Rat) (o : Order) :
    (w.removalOnOrder m rsel rhc raf o).id = o.id := by
  unfold removalOnOrder
  simp only
  repeat' split
  all_goals rfl

theorem good_processRunnerRemoval (w : World) (mid rsel : Nat) (rhc : Rat) (raf : Option Rat) : Good w (w.processRunnerRemoval mid rsel rhc raf) := by
  unfold processRunnerRemoval
  simp only
  exact good_foldl _ (fun w oid => good_modifyOrder w oid _ (fun o => removalOnOrder_id w _ rsel rhc raf o)) _ w

theorem good_matchStep (mid : Nat) (r : Bool) (acc : World × List (Nat × Rat × List (Rat × Rat))) (o0 : Order) :
    Good acc.1 (matchStep mid r acc o0).1 := by
  obtain ⟨w, lk⟩ := acc
  unfold matchStep
  simp only
  split
  · exact Good.refl w
  · generalize (w.order! o0.id).sim.call _ _ _ _ = cr
    have k1 := good_modifyOrder w (w.order! o0.id).id (fun x => { x with sim := cr.1 }) (fun _ => rfl)
    split
    · exact k1.trans (good_orderExecutionComplete _ _)
    · exact k1

theorem good_matchOrders (w : World) (mid : Nat) (l : List Order) (r : Bool) : Good w (w.matchOrders mid l r) := by
  unfold matchOrders
  exact good_foldl_pair (matchStep mid r) (fun acc o => good_matchStep mid r acc o) l _

theorem good_matchStrategy (mid : Nat) (w : World) (sid : Nat) : Good w (matchStrategy mid w sid) := by
  unfold matchStrategy
  simp only
  split
  · exact Good.refl w
  · exact good_matchOrders w mid _ false

theorem good_mwProcessSimulatedOrders (w : World) (mid : Nat) : Good w (w.mwProcessSimulatedOrders mid) := by
  unfold mwProcessSimulatedOrders
  simp only
  split
  · exact good_foldl _ (fun w sid => good_matchStrategy mid w sid) _ w
  · split
    · exact Good.refl w
    · exact good_matchOrders w mid _ true

theorem good_mwUpdateAnalytics (w : World) (mid : Nat) : Good w (w.mwUpdateAnalytics mid).1 := by
  unfold mwUpdateAnalytics
  simp only
  exact Good.trans (b := { w with removals := w.removals ++ (detectRemovals ((w.market! mid).book.getD {}).runners (w.market! mid).removals).2 }) (Good.of_eq rfl rfl (fun _ hp => hp)) (good_modifyMarket _ mid _ (fun m => ⟨rfl, rfl, fun _ hx => hx⟩))

theorem good_simulatedMiddleware (w : World) (mid : Nat) : Good w (w.simulatedMiddleware mid) := by
  unfold simulatedMiddleware
  simp only
  have k1 := good_mwUpdateAnalytics w mid
  generalize w.mwUpdateAnalytics mid = p at k1
  have k2 := k1.trans (good_foldl (fun w (k : Nat × Rat × Option Rat) => w.processRunnerRemoval mid k.1 k.2.1 k.2.2)
    (fun w k => good_processRunnerRemoval w mid k.1 k.2.1 k.2.2) p.2 p.1)
  split
  · exact k2.trans (good_mwProcessSimulatedOrders _ mid)
  · exact k2

theorem good_processSimulatedOrders (w : World) (mid : Nat) : Good w (w.processSimulatedOrders mid) := by
  unfold processSimulatedOrders
  simp only
  refine Good.trans (good_foldl _ ?_ _ w) (good_foldl _ ?_ _ _)
  · intro w oid
    split
    · exact good_blotterComplete w mid oid
    · split
      · split
        · exact (good_orderExecutionComplete w oid).trans (good_blotterComplete _ mid oid)
        · exact Good.refl w
      · split
        · exact (good_orderExecutionComplete w oid).trans (good_blotterComplete _ mid oid)
        · exact Good.refl w
  · intro w s
    split
    · exact good_emit w _
    · exact Good.refl w

theorem good_blotterProcessClosed (w : World) (mid : Nat) (book : Book) : Good w (w.blotterProcessClosed mid book) := by
  unfold blotterProcessClosed
  simp only
  apply good_foldl
  intro w oid
  split
  · exact Good.refl w
  · exact good_setOrder w _

theorem good_mm (w : World) (mid : Nat) (f : Market → Market)
    (hf : ∀ m, (f m).id = m.id ∧ (f m).blotter = m.blotter ∧ (f m).live = m.live) : Good w (w.modifyMarket mid f) :=
  good_modifyMarket w mid f (fun m => ⟨(hf m).1, (hf m).2.1, fun x hx => (hf m).2.2 ▸ hx⟩)

theorem good_processCloseMarket (w : World) (mid : Nat) (book : Book) : Good w (w.processCloseMarket mid book) := by
  unfold processCloseMarket
  split
  · exact good_emit w _
  · rename_i m hm
    have k0 : Good w (if (!m.closed) = true then w.modifyMarket mid (fun m => { m with closed := true, closedAt := some w.clock }) else w) := by
      split
      · exact good_mm w mid _ (fun _ => ⟨rfl, rfl, rfl⟩)
      · exact Good.refl w
    have k : Good w (((if (!m.closed) = true then w.modifyMarket mid (fun m => { m with closed := true, closedAt := some w.clock }) else w).modifyMarket mid
        (fun m => { m with book := some book })).blotterProcessClosed mid book) :=
      (k0.trans (good_mm _ mid (fun m => { m with book := some book }) (fun _ => ⟨rfl, rfl, rfl⟩))).trans (good_blotterProcessClosed _ mid book)
    simp only
    generalize (((if (!m.closed) = true then w.modifyMarket mid (fun m => { m with closed := true, closedAt := some w.clock }) else w).modifyMarket mid
        (fun m => { m with book := some book })).blotterProcessClosed mid book) = w1 at k
    have k2 : Good w1 ({ w1 with out := w1.out ++ w1.closeCallbacks mid book ++ w1.clearedEvents mid ++ [Ev.closeEvent mid] } : World) := Good.of_eq rfl rfl (fun _ hp => hp)
    generalize ({ w1 with out := w1.out ++ w1.closeCallbacks mid book ++ w1.clearedEvents mid ++ [Ev.closeEvent mid] } : World) = w2 at k2
    have k3 := good_mm w2 mid (fun m => { m with analytics := [], hasAnalytics := false }) (fun _ => ⟨rfl, rfl, rfl⟩)
    generalize w2.modifyMarket mid (fun m => { m with analytics := [], hasAnalytics := false }) = w3 at k3
    exact ((k.trans k2).trans k3).trans (Good.of_eq rfl rfl (fun _ hp => hp))

/-! ### scripted strategy actions and the whole update -/

/-- the open transaction of a `with market.transaction()` block, if any, only holds existing orders -/
def BOk (w : World) (b : Option Txn) : Prop := ∀ t, b = some t → TOk w t

theorem target_mem (w : World) (tg : Target) (hI : Inv w) (hm : tg.missing w = false) : tg.resolve w ∈ ids w := by
  rw [hI.range, List.mem_range]
  cases tg with
  | byId oid =>
    simp only [Target.missing, decide_eq_false_iff_not, Nat.not_le] at hm
    exact hm
  | lastOfTrade tid =>
    simp only [Target.missing, Bool.or_eq_false_iff, decide_eq_false_iff_not, Nat.not_le] at hm
    exact hm.2

/-- a request through the open transaction -/
theorem step_direct_some (w : World) (t : Txn) (oid : Nat) (f : World → Txn → World × Txn × ReqResult)
    (hk : Keeps w (f w t).1) (hg : Inv (f w t).1)
    (hs : (f w t).2.1 = t ∨ (∃ v, (f w t).2.1 = { t with pPlace := t.pPlace ++ [(oid, v)], pendingOrders := true }) ∨
      (∃ v, (f w t).2.1 = { t with pCancel := t.pCancel ++ [(oid, v)], pendingOrders := true }) ∨
      (∃ v, (f w t).2.1 = { t with pUpdate := t.pUpdate ++ [(oid, v)], pendingOrders := true }) ∨
      (∃ v, (f w t).2.1 = { t with pReplace := t.pReplace ++ [(oid, v)], pendingOrders := true }))
    (hB : TOk w t) (ho : oid ∈ ids w) :
    Inv (f w t).1 ∧ BOk (f w t).1 (some (f w t).2.1) := by
  refine ⟨hg, ?_⟩
  intro t' ht'
  have : (f w t).2.1 = t' := Option.some.inj ht'
  rw [← this]
  exact tok_add _ t _ oid (hB.keeps hk) (Keeps.mem hk oid ho) hs

/-- a one-request transaction that exits (and so executes) at once -/
theorem step_direct_none (w : World) (mid client oid : Nat) (f : World → Txn → World × Txn × ReqResult)
    (hk : Keeps w (f w { market := mid, client := client }).1) (hg : Inv (f w { market := mid, client := client }).1)
    (hs : (f w { market := mid, client := client }).2.1 = { market := mid, client := client } ∨
      (∃ v, (f w { market := mid, client := client }).2.1 = { ({ market := mid, client := client } : Txn) with pPlace := [] ++ [(oid, v)], pendingOrders := true }) ∨
      (∃ v, (f w { market := mid, client := client }).2.1 = { ({ market := mid, client := client } : Txn) with pCancel := [] ++ [(oid, v)], pendingOrders := true }) ∨
      (∃ v, (f w { market := mid, client := client }).2.1 = { ({ market := mid, client := client } : Txn) with pUpdate := [] ++ [(oid, v)], pendingOrders := true }) ∨
      (∃ v, (f w { market := mid, client := client }).2.1 = { ({ market := mid, client := client } : Txn) with pReplace := [] ++ [(oid, v)], pendingOrders := true }))
    (ho : oid ∈ ids w) :
    Inv ((f w { market := mid, client := client }).1.txnExit (f w { market := mid, client := client }).2.1) ∧
    BOk ((f w { market := mid, client := client }).1.txnExit (f w { market := mid, client := client }).2.1) none := by
  have ht1 : TOk (f w { market := mid, client := client }).1 (f w { market := mid, client := client }).2.1 :=
    tok_add _ { market := mid, client := client } _ oid ((TOk.fresh w mid client).keeps hk) (Keeps.mem hk oid ho) hs
  exact ⟨(good_txnExit _ _ (fun _ => ht1)).2 hg, fun t h => by cases h⟩

theorem step_doActionCore (w : World) (mid : Nat) (batch : Option Txn) (a : Action) (hI : Inv w) (hB : BOk w batch) :
    Inv (w.doActionCore mid batch a).1 ∧ BOk (w.doActionCore mid batch a).1 (w.doActionCore mid batch a).2.1 := by
  unfold doActionCore
  simp only
  split
  · exact ⟨hI, hB⟩
  · rename_i hmiss
    have hin : ∀ tg, a.target? = some tg → tg.resolve w ∈ ids w := by
      intro tg htg
      apply target_mem w tg hI
      rw [htg] at hmiss
      simpa using hmiss
    cases a with
    | create o tr =>
      have hk : ∀ (w' : World), w'.orders = w.orders ++ [{ o with id := w.orders.length, created := w.clock, statusAt := w.clock, status := none, complete := false, log := [] }] →
          w'.markets = w.markets → w'.queue = w.queue → Inv w' ∧ BOk w' batch := by
        intro w' h1 h2 h3
        have g := good_appendOrder w w' _ rfl h1 h2 (sub_of_eq h3)
        exact ⟨g.2 hI, fun t ht => (hB t ht).keeps g.1⟩
      cases tr with
      | none => exact hk _ rfl rfl rfl
      | some t => exact hk _ rfl rfl rfl
    | place tg v force =>
      have ho := hin tg rfl
      cases batch with
      | some t =>
        exact step_direct_some w t (tg.resolve w) (fun w t => w.txnPlace t (tg.resolve w) v true force) (keeps_txnPlace w t _ v true force) ((good_txnPlace_of_mem w t _ v true force ho).2 hI)
          (by
            rcases txnPlace_txn w t (tg.resolve w) v true force with h | h
            · exact Or.inl h
            · exact Or.inr (Or.inl ⟨v, h⟩)) (hB t rfl) ho
      | none =>
        exact step_direct_none w mid _ (tg.resolve w) (fun w t => w.txnPlace t (tg.resolve w) v true force) (keeps_txnPlace w _ _ v true force) ((good_txnPlace_of_mem w _ _ v true force ho).2 hI)
          (by
            rcases txnPlace_txn w { market := mid, client := _ } (tg.resolve w) v true force with h | h
            · exact Or.inl h
            · exact Or.inr (Or.inl ⟨v, h⟩)) ho
    | cancel tg red force =>
      have ho := hin tg rfl
      cases batch with
      | some t =>
        exact step_direct_some w t (tg.resolve w) (fun w t => w.txnCancel t (tg.resolve w) red force) (keeps_txnCancel w t _ red force) ((good_txnCancel w t _ red force).2 hI)
          (by
            rcases txnCancel_txn w t (tg.resolve w) red force with h | h
            · exact Or.inl h
            · exact Or.inr (Or.inr (Or.inl ⟨none, h⟩))) (hB t rfl) ho
      | none =>
        exact step_direct_none w mid _ (tg.resolve w) (fun w t => w.txnCancel t (tg.resolve w) red force) (keeps_txnCancel w _ _ red force) ((good_txnCancel w _ _ red force).2 hI)
          (by
            rcases txnCancel_txn w { market := mid, client := _ } (tg.resolve w) red force with h | h
            · exact Or.inl h
            · exact Or.inr (Or.inr (Or.inl ⟨none, h⟩))) ho
    | update tg pers force =>
      have ho := hin tg rfl
      cases batch with
      | some t =>
        exact step_direct_some w t (tg.resolve w) (fun w t => w.txnUpdate t (tg.resolve w) pers force) (keeps_txnUpdate w t _ pers force) ((good_txnUpdate w t _ pers force).2 hI)
          (by
            rcases txnUpdate_txn w t (tg.resolve w) pers force with h | h
            · exact Or.inl h
            · exact Or.inr (Or.inr (Or.inr (Or.inl ⟨none, h⟩)))) (hB t rfl) ho
      | none =>
        exact step_direct_none w mid _ (tg.resolve w) (fun w t => w.txnUpdate t (tg.resolve w) pers force) (keeps_txnUpdate w _ _ pers force) ((good_txnUpdate w _ _ pers force).2 hI)
          (by
            rcases txnUpdate_txn w { market := mid, client := _ } (tg.resolve w) pers force with h | h
            · exact Or.inl h
            · exact Or.inr (Or.inr (Or.inr (Or.inl ⟨none, h⟩)))) ho
    | replace tg price v force =>
      have ho := hin tg rfl
      cases batch with
      | some t =>
        exact step_direct_some w t (tg.resolve w) (fun w t => w.txnReplace t (tg.resolve w) price v force) (keeps_txnReplace w t _ price v force) ((good_txnReplace w t _ price v force).2 hI)
          (by
            rcases txnReplace_txn w t (tg.resolve w) price v force with h | h
            · exact Or.inl h
            · exact Or.inr (Or.inr (Or.inr (Or.inr ⟨v, h⟩)))) (hB t rfl) ho
      | none =>
        exact step_direct_none w mid _ (tg.resolve w) (fun w t => w.txnReplace t (tg.resolve w) price v force) (keeps_txnReplace w _ _ price v force) ((good_txnReplace w _ _ price v force).2 hI)
          (by
            rcases txnReplace_txn w { market := mid, client := _ } (tg.resolve w) price v force with h | h
            · exact Or.inl h
            · exact Or.inr (Or.inr (Or.inr (Or.inr ⟨v, h⟩)))) ho
    | batchBegin c =>
      cases batch with
      | some t => exact ⟨(good_txnExit w t (fun _ => hB t rfl)).2 hI, fun t' ht' => by rw [← Option.some.inj ht']; exact TOk.fresh _ mid c⟩
      | none => exact ⟨hI, fun t ht => by rw [← Option.some.inj ht]; exact TOk.fresh w mid c⟩
    | batchExecute =>
      cases batch with
      | some t =>
        exact ⟨(good_txnExecute w t (fun _ => hB t rfl)).2 hI, fun t' ht' => by rw [← Option.some.inj ht']; exact tok_txnExecute w t⟩
      | none => exact ⟨hI, hB⟩
    | batchEnd =>
      cases batch with
      | some t => exact ⟨(good_txnExit w t (fun _ => hB t rfl)).2 hI, fun t h => by cases h⟩
      | none => exact ⟨hI, hB⟩

theorem good_noteForeign (w : World) (mid : Nat) (a : Action) : Good w (w.noteForeign mid a) :=
  Good.of_eq (noteForeign_orders w mid a) (noteForeign_markets w mid a) (sub_of_eq (noteForeign_queue w mid a))

theorem step_doAction (w : World) (mid : Nat) (batch : Option Txn) (a : Action) (hI : Inv w) (hB : BOk w batch) :
    Inv (w.doAction mid batch a).1 ∧ BOk (w.doAction mid batch a).1 (w.doAction mid batch a).2.1 := by
  unfold doAction
  have g := good_noteForeign w mid a
  exact step_doActionCore _ mid batch a (g.2 hI) (fun t ht => (hB t ht).keeps g.1)

theorem inv_doActions (w : World) (mid : Nat) (as : List Action) (hI : Inv w) : Inv (w.doActions mid as).1 := by
  unfold doActions
  simp only
  have h : ∀ (l : List Action) (acc : World × Option Txn × List String), Inv acc.1 → BOk acc.1 acc.2.1 →
      Inv (l.foldl (fun (acc : World × Option Txn × List String) a =>
        ((acc.1.doAction mid acc.2.1 a).1, (acc.1.doAction mid acc.2.1 a).2.1, acc.2.2 ++ [(acc.1.doAction mid acc.2.1 a).2.2])) acc).1 ∧
      BOk (l.foldl (fun (acc : World × Option Txn × List String) a =>
        ((acc.1.doAction mid acc.2.1 a).1, (acc.1.doAction mid acc.2.1 a).2.1, acc.2.2 ++ [(acc.1.doAction mid acc.2.1 a).2.2])) acc).1
        (l.foldl (fun (acc : World × Option Txn × List String) a =>
        ((acc.1.doAction mid acc.2.1 a).1, (acc.1.doAction mid acc.2.1 a).2.1, acc.2.2 ++ [(acc.1.doAction mid acc.2.1 a).2.2])) acc).2.1 := by
    intro l
    induction l with
    | nil => intro acc h1 h2; exact ⟨h1, h2⟩
    | cons a as ih =>
      intro acc h1 h2
      rw [List.foldl_cons]
      obtain ⟨g1, g2⟩ := step_doAction acc.1 mid acc.2.1 a h1 h2
      exact ih _ g1 g2
  have := h as (w, none, []) hI (fun t ht => by cases ht)
  generalize as.foldl _ (w, none, []) = r at this
  obtain ⟨w1, b, outs⟩ := r
  cases b with
  | some t => exact (good_txnExit w1 t (fun _ => this.2 t rfl)).2 this.1
  | none => exact this.1

theorem good_doActions (w : World) (mid : Nat) (as : List Action) : Good w (w.doActions mid as).1 :=
  ⟨keeps_doActions w mid as, inv_doActions w mid as⟩

theorem good_appendMarket (w : World) (m : Market) (hnew : (w.market? m.id).isNone = true) (hb : m.blotter = []) (hl : m.live = []) :
    Good w ({ w with markets := w.markets ++ [m] } : World) := by
  refine ⟨Keeps.of_eq rfl, fun h => ⟨h.range, ?_, ?_, ?_, ?_, h.queue⟩⟩
  · intro m' hm' oid ho
    rcases List.mem_append.mp hm' with hm' | hm'
    · exact h.blot m' hm' oid ho
    · rw [List.mem_singleton.mp hm', hb] at ho; cases ho
  · intro m' hm'
    rcases List.mem_append.mp hm' with hm' | hm'
    · exact h.nodup m' hm'
    · rw [List.mem_singleton.mp hm', hb]; exact List.nodup_nil
  · intro m' hm' oid ho
    rcases List.mem_append.mp hm' with hm' | hm'
    · exact h.live m' hm' oid ho
    · rw [List.mem_singleton.mp hm', hl] at ho; cases ho
  · show ((w.markets ++ [m]).map (·.id)).Nodup
    rw [List.map_append, List.nodup_append]
    refine ⟨h.mnodup, by simp, ?_⟩
    intro a ha b hb'
    simp only [List.map_cons, List.map_nil, List.mem_singleton] at hb'
    rw [hb']
    intro e
    obtain ⟨x, hx, hxid⟩ := List.mem_map.mp ha
    unfold market? at hnew
    rw [Option.isNone_iff_eq_none, List.find?_eq_none] at hnew
    have := hnew x hx
    simp only [decide_eq_true_eq] at this
    exact this (hxid.trans e)

theorem good_processMarketBook (w : World) (mid : Nat) (book : Book) (script : Nat → List Action) :
    Good w (w.processMarketBook mid book script).1 := by
  unfold processMarketBook
  simp only
  have k0 : Good w (w.setClock book.pt) := Good.of_eq rfl rfl (fun _ hp => hp)
  generalize w.setClock book.pt = w0 at k0
  have k1 : Good w (if w0.queue.isEmpty = true then w0 else w0.checkPendingPackages mid) := by
    split
    · exact k0
    · exact k0.trans (good_checkPendingPackages w0 mid)
  generalize (if w0.queue.isEmpty = true then w0 else w0.checkPendingPackages mid) = w1 at k1
  split
  · exact k1.trans (good_processCloseMarket w1 mid book)
  · have k2 : Good w1 (if (w1.market? mid).isNone = true then
          ({ w1 with markets := w1.markets ++ [({ id := mid, book := some book } : Market)] } : World).emit (.marketEvent mid)
        else if (w1.market! mid).closed = true then w1.modifyMarket mid (fun m => { m with closed := false }) else w1) := by
      split
      · rename_i hnone
        exact (good_appendMarket w1 { id := mid, book := some book } hnone rfl rfl).trans (good_emit _ _)
      · split
        · exact good_mm w1 mid _ (fun _ => ⟨rfl, rfl, rfl⟩)
        · exact Good.refl w1
    generalize (if (w1.market? mid).isNone = true then
          ({ w1 with markets := w1.markets ++ [({ id := mid, book := some book } : Market)] } : World).emit (.marketEvent mid)
        else if (w1.market! mid).closed = true then w1.modifyMarket mid (fun m => { m with closed := false }) else w1) = w2 at k2
    have k3 := ((k1.trans k2).trans (good_mm w2 mid (fun m => { m with book := some book }) (fun _ => ⟨rfl, rfl, rfl⟩))).trans (good_simulatedMiddleware _ mid)
    generalize (w2.modifyMarket mid (fun m => { m with book := some book })).simulatedMiddleware mid = w3 at k3
    have k4 : Good w (if (w3.market! mid).active = true then w3.processSimulatedOrders mid else w3) := by
      split
      · exact k3.trans (good_processSimulatedOrders w3 mid)
      · exact k3
    generalize (if (w3.market! mid).active = true then w3.processSimulatedOrders mid else w3) = w4 at k4
    -- the strategies' callbacks
    refine k4.trans (good_foldl_pair _ ?_ _ _)
    intro acc s
    obtain ⟨wa, outs⟩ := acc
    simp only
    split
    · have : Good wa (if (w1.market? mid).isNone = true then wa.emit (.newMarket s.id mid) else wa) := by
        split
        · exact good_emit _ _
        · exact Good.refl _
      exact (this.trans (good_emit _ _)).trans (good_doActions _ mid _)
    · exact Good.refl _


/-- a whole run: any sequence of market updates (market id, book, what every strategy does in its callback) -/
def runUpdates (w : World) (us : List (Nat × Book × (Nat → List Action))) : World :=
  us.foldl (fun w u => (w.processMarketBook u.1 u.2.1 u.2.2).1) w

theorem good_runUpdates (w : World) (us : List (Nat × Book × (Nat → List Action))) : Good w (runUpdates w us) := by
  unfold runUpdates
  exact good_foldl _ (fun w u => good_processMarketBook w u.1 u.2.1 u.2.2) us w

/-- every world reachable from an empty framework (any configuration, clients, strategies) by any
    sequence of updates with any scripted strategy behaviour is well-formed -/
theorem inv_reachable (cfg : Config) (cl : List Client) (ss : List Strategy) (us : List (Nat × Book × (Nat → List Action))) :
    Inv (runUpdates { cfg := cfg, clients := cl, strategies := ss } us) :=
  (good_runUpdates _ us).2 (inv_empty cfg cl ss)

theorem market!_mem_or_default (w : World) (mid : Nat) : w.market! mid ∈ w.markets ∨ w.market! mid = default := by
  unfold market! market?
  cases h : w.markets.find? (fun x => decide (x.id = mid)) with
  | none => right; rfl
  | some m => left; exact List.mem_of_find?_eq_some h

/-- in a well-formed world every id listed in a market's blotter names an order of the table -/
theorem Inv.blotter_hasOrder {w : World} (h : Inv w) (mid : Nat) : ∀ oid ∈ (w.market! mid).blotter, HasOrder w oid := by
  intro oid ho
  rcases market!_mem_or_default w mid with hm | hm
  · exact (hasOrder_iff w oid).mpr (h.blot _ hm oid ho)
  · rw [hm] at ho; cases ho

theorem Inv.blotter_nodup {w : World} (h : Inv w) (mid : Nat) : (w.market! mid).blotter.Nodup := by
  rcases market!_mem_or_default w mid with hm | hm
  · exact h.nodup _ hm
  · rw [hm]; exact List.nodup_nil

theorem Inv.live_sub {w : World} (h : Inv w) (mid : Nat) : ∀ oid ∈ (w.market! mid).live, oid ∈ (w.market! mid).blotter := by
  intro oid ho
  rcases market!_mem_or_default w mid with hm | hm
  · exact h.live _ hm oid ho
  · rw [hm] at ho; cases ho

end Flumine.Inv
