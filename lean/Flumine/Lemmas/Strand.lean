/- Lemmas/Strand.lean — no order is left in an in-flight status without an outstanding operation.

   The converse of `Lemmas/Flight.lean`: in every reachable state (of a run whose requests go through the order's own
   market) an order that is PENDING / CANCELLING / UPDATING / REPLACING is listed in the pending list of the open
   transaction or in a package of the handler queue - exactly once by `Flight.FI` - and executing that package
   settles it (`C12.package_settles_every_order`). -/
import Flumine.SimLoop
import Flumine.Lemmas.OrderLemmas
import Flumine.Lemmas.Ids
import Flumine.Lemmas.Inv
import Flumine.Lemmas.Final
import Flumine.Lemmas.Flight
import Flumine.Lemmas.Settle
import Flumine.Lemmas.Len
import Flumine.Lemmas.NextPk
import Flumine.Lemmas.Queue
import Flumine.Props.C02
import Mathlib.Tactic.SplitIfs
namespace Flumine.Strand
open Flumine Flumine.World Flumine.OL Flumine.Ids Flumine.Inv Flumine.Fin Flumine.Fl Flumine.Ghost Flumine.Settle Flumine.Len Flumine.NextPk Flumine.Qu

/-! ### functions that work in place: the order table keeps its ids -/

def SI (w w' : World) : Prop := ids w' = ids w

theorem SI.refl (w : World) : SI w w := rfl
theorem SI.trans {a b c : World} (h1 : SI a b) (h2 : SI b c) : SI a c := Eq.trans h2 h1
theorem SI.of_eq {w w' : World} (h : w'.orders = w.orders) : SI w w' := by unfold SI ids; rw [h]
theorem SI.hasOrder {w w' : World} (h : SI w w') (oid : Nat) : HasOrder w' oid ↔ HasOrder w oid := by
  rw [hasOrder_iff, hasOrder_iff, h]

theorem si_foldl {α} (f : World → α → World) (hf : ∀ w a, SI w (f w a)) (l : List α) (w : World) : SI w (l.foldl f w) := by
  induction l generalizing w with
  | nil => exact SI.refl w
  | cons a as ih => rw [List.foldl_cons]; exact (hf w a).trans (ih _)

theorem si_foldl_pair {α β} (f : World × β → α → World × β) (hf : ∀ acc a, SI acc.1 (f acc a).1) (l : List α) (acc : World × β) :
    SI acc.1 (l.foldl f acc).1 := by
  induction l generalizing acc with
  | nil => exact SI.refl _
  | cons a as ih => rw [List.foldl_cons]; exact (hf acc a).trans (ih _)

theorem si_modifyOrder (w : World) (a : Nat) (f : Order → Order) (hf : ∀ x, x.id = a → (f x).id = a) : SI w (w.modifyOrder a f) :=
  ids_modifyOrder w a f hf
theorem si_setOrder (w : World) (o : Order) : SI w (w.setOrder o) := by
  rw [setOrder_eq_modify]; exact ids_modifyOrder w _ _ (fun _ _ => rfl)
theorem si_orderUpdateStatus (w : World) (a : Nat) (s : Status) : SI w (w.orderUpdateStatus a s) := by
  unfold SI ids
  rw [orderUpdateStatus_orders]
  exact si_setOrder w _
theorem si_orderExecutable (w : World) (a : Nat) : SI w (w.orderExecutable a) := by
  unfold orderExecutable
  split
  · exact si_modifyOrder w a _ (fun _ h => h)
  · exact (si_orderUpdateStatus w a .executable).trans (si_modifyOrder _ a _ (fun _ h => h))
theorem si_orderExecutionComplete (w : World) (a : Nat) : SI w (w.orderExecutionComplete a) := by
  unfold orderExecutionComplete
  exact (si_orderUpdateStatus w a .executionComplete).trans (si_modifyOrder _ a _ (fun _ h => h))
theorem si_tradeEnter (w : World) (t : Nat) : SI w (w.tradeEnter t) := SI.of_eq (tradeEnter_orders w t)
theorem si_tradeExit (w : World) (t : Nat) : SI w (w.tradeExit t) := SI.of_eq (tradeExit_orders w t)
theorem si_logPlaced (w : World) (a : Nat) (b : Option Nat) : SI w (w.logPlaced a b) := by
  unfold logPlaced
  have k1 := si_modifyOrder w a (fun o => { o with placedAt := some w.clock }) (fun _ h => h)
  cases b with
  | none => exact k1
  | some v => exact (k1.trans (si_modifyOrder _ a (fun o => { o with betId := some v }) (fun _ h => h))).trans (SI.of_eq rfl)

theorem si_placeStep (p : Package) (w : World) (a : Nat) : SI w (placeStep p w a) := by
  unfold placeStep
  simp only
  have k1 : SI w (w.tradeEnter (w.order! a).trade).bumpBetId :=
    (si_tradeEnter w (w.order! a).trade).trans (SI.of_eq (w := w.tradeEnter (w.order! a).trade) (w' := (w.tradeEnter (w.order! a).trade).bumpBetId) rfl)
  generalize (w.tradeEnter (w.order! a).trade).bumpBetId = w1 at k1
  generalize placeResponse p w1 (w.order! a) = pr
  have k2 := k1.trans ((si_modifyOrder w1 a (fun o => { o with sim := pr.1 }) (fun _ h => h)).trans (si_logPlaced _ a pr.2.betId))
  generalize (w1.modifyOrder a fun o => { o with sim := pr.1 }).logPlaced a pr.2.betId = w2 at k2
  cases pr.2.status with
  | success => exact (k2.trans (si_orderExecutable w2 a)).trans (si_tradeExit _ _)
  | failure => exact (k2.trans (si_orderExecutionComplete w2 a)).trans (si_tradeExit _ _)

theorem si_cancelStep (p : Package) (acc : World × Nat) (a : Nat) : SI acc.1 (cancelStep p acc a).1 := by
  obtain ⟨w, failed⟩ := acc
  unfold cancelStep
  simp only
  have k1 := si_tradeEnter w (w.order! a).trade
  generalize w.tradeEnter (w.order! a).trade = w1 at k1
  generalize (w.order! a).sim.cancel (((w1.market! p.market).book).getD {}).status
    (if (w.order! a).ud.hasReduction then (w.order! a).ud.sizeReduction else none) = cr
  have k2 := k1.trans (si_modifyOrder w1 a (fun o => { o with sim := cr.1, cancelResponses := o.cancelResponses + 1 }) (fun _ h => h))
  generalize w1.modifyOrder a (fun o => { o with sim := cr.1, cancelResponses := o.cancelResponses + 1 }) = w2 at k2
  cases cr.2.status with
  | success =>
    simp only
    split
    · exact (k2.trans (si_orderExecutionComplete w2 a)).trans (si_tradeExit _ _)
    · exact (k2.trans (si_orderExecutable w2 a)).trans (si_tradeExit _ _)
  | failure => exact (k2.trans (si_orderExecutable w2 a)).trans (si_tradeExit _ _)

theorem si_updateStep (p : Package) (acc : World × Nat) (a : Nat) : SI acc.1 (updateStep p acc a).1 := by
  obtain ⟨w, failed⟩ := acc
  unfold updateStep
  simp only
  have k1 := si_tradeEnter w (w.order! a).trade
  generalize w.tradeEnter (w.order! a).trade = w1 at k1
  generalize (w.order! a).sim.update (((w1.market! p.market).book).getD {}).view (w.order! a).sim.persistence = ur
  have k2 := k1.trans (si_modifyOrder w1 a (fun o => { o with sim := ur.1, updateResponses := o.updateResponses + 1 }) (fun _ h => h))
  generalize w1.modifyOrder a (fun o => { o with sim := ur.1, updateResponses := o.updateResponses + 1 }) = w2 at k2
  exact (k2.trans (si_orderExecutable w2 a)).trans (si_tradeExit _ _)

/-! ### a package touches its own orders (and the replacement orders it creates) only -/

theorem same_refl (x : Nat) (w : World) : Same x w w := ⟨rfl, rfl⟩
theorem same_trans {x : Nat} {a b c : World} (h1 : Same x a b) (h2 : Same x b c) : Same x a c := ⟨h2.1.trans h1.1, h2.2.trans h1.2⟩

/-- steps on other orders leave order x as it is -/
theorem fold_frame {σ α} (wof : σ → World) (key : α → Nat) (f : σ → α → σ) (P : World → Prop)
    (hfr : ∀ s a, HasOrder (wof s) (key a) → P (wof s) → Fr (wof s) (key a) (wof s) (wof (f s a)))
    (hP : ∀ s a, HasOrder (wof s) (key a) → P (wof s) → P (wof (f s a)))
    (x : Nat) (l : List α) (s : σ) (hw : P (wof s)) (hl : ∀ a ∈ l, HasOrder (wof s) (key a)) (hk : ∀ a ∈ l, key a ≠ x)
    (hxo : HasOrder (wof s) x) : Same x (wof s) (wof (l.foldl f s)) := by
  induction l generalizing s with
  | nil => exact same_refl x _
  | cons b rest ih =>
    rw [List.foldl_cons]
    have hb := hl b List.mem_cons_self
    have fr := hfr s b hb hw
    have h1 : Same x (wof s) (wof (f s b)) := fr.2 x (fun e => hk b List.mem_cons_self e.symm) hxo
    exact same_trans h1 (ih (f s b) (hP s b hb hw) (fun y hy => fr.hasOrder _ (hl y (List.mem_cons_of_mem _ hy)))
      (fun y hy => hk y (List.mem_cons_of_mem _ hy)) (fr.hasOrder x hxo))

theorem same_of_orders {x : Nat} {w w' : World} (h : w'.orders = w.orders) : Same x w w' := by
  unfold Same; rw [order!_congr w w' h x]; exact ⟨rfl, rfl⟩

/-- the orders of the world that are not in the package keep status and `complete` flag -/
theorem fr_executePackage (w : World) (p : Package) (hI : Inv.Inv w) (hp : ∀ oid ∈ p.orders, HasOrder w oid)
    (x : Nat) (hx : HasOrder w x) (hnp : x ∉ p.orders) : Same x w (w.executePackage p) := by
  have hpo : ∀ oid ∈ w.packageOrders p, HasOrder w oid := fun oid h => hp oid (List.mem_filter.mp h).1
  have hne : ∀ oid ∈ w.packageOrders p, oid ≠ x := fun oid h e => hnp (e ▸ (List.mem_filter.mp h).1)
  unfold executePackage
  cases p.kind with
  | place =>
    simp only; unfold executePlace
    have := fold_frame (σ := World) id id (placeStep p) Inv.Inv (fun s a h _ => fr_placeStep s p s a h)
      (fun s a _ hi => (good_placeStep p s a).2 hi) x (w.packageOrders p) w hI hpo hne hx
    simp only [id] at this
    exact same_trans this (same_of_orders rfl)
  | cancel =>
    simp only; unfold executeCancel
    simp only
    have := fold_frame (σ := World × Nat) (·.1) id (cancelStep p) Inv.Inv (fun s a h _ => fr_cancelStep s.1 p s a h)
      (fun s a _ hi => (good_cancelStep p s a).2 hi) x (w.packageOrders p) (w, 0) hI hpo hne hx
    simp only [id] at this
    generalize (w.packageOrders p).foldl (cancelStep p) (w, 0) = r at this
    obtain ⟨w1, failed⟩ := r
    simp only at this ⊢
    split
    · exact same_trans this (same_of_orders rfl)
    · exact this
  | update =>
    simp only; unfold executeUpdate
    simp only
    have := fold_frame (σ := World × Nat) (·.1) id (updateStep p) Inv.Inv (fun s a h _ => fr_updateStep s.1 p s a h)
      (fun s a _ hi => (good_updateStep p s a).2 hi) x (w.packageOrders p) (w, 0) hI hpo hne hx
    simp only [id] at this
    generalize (w.packageOrders p).foldl (updateStep p) (w, 0) = r at this
    obtain ⟨w1, failed⟩ := r
    simp only at this ⊢
    split
    · exact same_trans this (same_of_orders rfl)
    · exact this
  | replace =>
    simp only; unfold executeReplace
    simp only
    have hz : ∀ a ∈ (((w.packageOrders p).filter fun oid => (w.order! oid).status ≠ some .executionComplete).map fun oid => (oid, (w.order! oid).ud.newPrice)),
        HasOrder w a.1 ∧ a.1 ≠ x := by
      intro a ha
      obtain ⟨oid, ho, rfl⟩ := List.mem_map.mp ha
      exact ⟨hpo oid (List.mem_filter.mp ho).1, hne oid (List.mem_filter.mp ho).1⟩
    generalize (((w.packageOrders p).filter fun oid => (w.order! oid).status ≠ some .executionComplete).map fun oid => (oid, (w.order! oid).ud.newPrice)) = zs at hz
    have := fold_frame (σ := World × Nat) (·.1) (·.1) (replaceStep p) Inv.Inv
      (fun s a h hi => fr_replaceStep s.1 p s a h hi (Ids.Keeps.refl s.1))
      (fun s a _ hi => (good_replaceStep p s a).2 hi) x zs (w, 0) hI (fun a ha => (hz a ha).1) (fun a ha => (hz a ha).2) hx
    generalize zs.foldl (replaceStep p) (w, 0) = r at this
    obtain ⟨w1, failed⟩ := r
    simp only at this ⊢
    split
    · exact same_trans (same_trans this (same_of_orders rfl)) (same_of_orders rfl)
    · exact same_trans this (same_of_orders rfl)

/-! ### the replacement order a replace creates ends EXECUTABLE or EXECUTION_COMPLETE -/

/-- status and flag of one order: (status, complete) -/
def SC (w : World) (x : Nat) : Option Status × Bool := ((w.order! x).status, (w.order! x).complete)

theorem sc_of_same {x : Nat} {w w' : World} (h : Same x w w') : SC w' x = SC w x := by
  unfold SC; rw [h.1, h.2]

theorem same_modifyOrder (w : World) (a : Nat) (f : Order → Order) (hf : ∀ y, y.id = a → (f y).id = a)
    (hs : (f (w.order! a)).status = (w.order! a).status ∧ (f (w.order! a)).complete = (w.order! a).complete) (x : Nat) :
    Same x w (w.modifyOrder a f) := by
  unfold Same
  rcases order!_modify' w a x f hf with h | ⟨e, _, h⟩
  · rw [h]; exact ⟨rfl, rfl⟩
  · rw [h, e]; exact hs

theorem same_blotterAdd (w : World) (m a x : Nat) : Same x w (w.blotterAdd m a) := by
  unfold blotterAdd
  have h1 : Same x w (w.modifyMarket m fun mk => { mk with active := true, blotter := mk.blotter ++ [a], live := mk.live ++ [a] }) := same_of_orders rfl
  exact same_trans h1 (same_modifyOrder _ a (fun o => { o with inBlotter := true, blotterClient := o.client }) (fun _ h => h) ⟨rfl, rfl⟩ x)

theorem sc_orderUpdateStatus_self (w : World) (a : Nat) (s : Status) (ha : HasOrder w a) :
    SC (w.orderUpdateStatus a s) a = (some s, statusComplete s) := by
  unfold SC; rw [orderUpdateStatus_self w a s ha]; rfl

theorem same_orderUpdateStatus_other (w : World) (a x : Nat) (s : Status) (ha : HasOrder w a) (hne : x ≠ a) : Same x w (w.orderUpdateStatus a s) := by
  unfold Same; rw [orderUpdateStatus_other w x a s ha hne]; exact ⟨rfl, rfl⟩

/-- `market.place_order(replacement, execute=False)` on a fresh order: PENDING afterwards -/
theorem txnPlace_noexec_self (w : World) (t : Txn) (rid : Nat) (v : Option Int) (hr : HasOrder w rid)
    (hnb : rid ∉ (w.market! t.market).blotter) (hst : St w rid = none) :
    SC (w.txnPlace t rid v false false).1 rid = (some .pending, false) := by
  unfold txnPlace
  simp only [Bool.false_and, Bool.false_eq_true, if_false]
  have k0 := same_modifyOrder w rid (fun o => { o with client := some t.client }) (fun _ h => h) ⟨rfl, rfl⟩ rid
  have hh0 := hasOrder_modify w rid rid (fun o => { o with client := some t.client }) hr (fun _ h => h)
  have hm1 : (w.modifyOrder rid (fun o => { o with client := some t.client })).markets = w.markets := rfl
  generalize w.modifyOrder rid (fun o => { o with client := some t.client }) = w1 at k0 hh0 hm1
  have hmk1 : ∀ m, w1.market! m = w.market! m := Inv.market!_congr w1 w hm1
  split
  · rename_i hc
    exfalso
    rw [hmk1, k0.1] at hc
    unfold St at hst
    rw [hst] at hc
    simp only [Bool.or_eq_true, List.contains_iff_mem, beq_iff_eq] at hc
    rcases hc with hc | hc
    · exact hnb hc
    · cases hc
  · have hh2 := hasOrder_modify w1 rid rid (fun o => { o with publishTime := some (((w1.market! t.market).book).getD {}).pt, marketVersion := v }) hh0 (fun _ h => h)
    generalize w1.modifyOrder rid (fun o => { o with publishTime := some (((w1.market! t.market).book).getD {}).pt, marketVersion := v }) = w2 at hh2
    unfold orderPlacing
    have e3 := sc_orderUpdateStatus_self w2 rid .pending hh2
    generalize w2.orderUpdateStatus rid .pending = w3 at e3
    have e4 : SC (w3.blotterAdd t.market rid) rid = (some .pending, false) := by
      rw [sc_of_same (same_blotterAdd w3 t.market rid rid), e3]; rfl
    split
    · show SC ((w3.blotterAdd t.market rid).emit _) rid = _
      exact (sc_of_same (x := rid) (w := w3.blotterAdd t.market rid) (w' := (w3.blotterAdd t.market rid).emit _) (same_of_orders rfl)).trans e4
    · exact e4

theorem si_blotterAdd (w : World) (m a : Nat) : SI w (w.blotterAdd m a) := by
  unfold blotterAdd
  exact SI.trans (b := w.modifyMarket m fun mk => { mk with active := true, blotter := mk.blotter ++ [a], live := mk.live ++ [a] })
    (SI.of_eq rfl) (si_modifyOrder _ a _ (fun _ h => h))

theorem si_txnPlace_noexec (w : World) (t : Txn) (rid : Nat) (v : Option Int) : SI w (w.txnPlace t rid v false false).1 := by
  unfold txnPlace
  simp only [Bool.false_and, Bool.false_eq_true, if_false]
  have k0 := si_modifyOrder w rid (fun o => { o with client := some t.client }) (fun _ h => h)
  generalize w.modifyOrder rid (fun o => { o with client := some t.client }) = w1 at k0
  split
  · exact k0
  · have k2 := k0.trans (si_modifyOrder w1 rid (fun o => { o with publishTime := some (((w1.market! t.market).book).getD {}).pt, marketVersion := v }) (fun _ h => h))
    generalize w1.modifyOrder rid (fun o => { o with publishTime := some (((w1.market! t.market).book).getD {}).pt, marketVersion := v }) = w2 at k2
    unfold orderPlacing
    have k3 := k2.trans (si_orderUpdateStatus w2 rid .pending)
    generalize w2.orderUpdateStatus rid .pending = w3 at k3
    have k4 := k3.trans (si_blotterAdd w3 t.market rid)
    split
    · exact k4.trans (SI.of_eq (w := w3.blotterAdd t.market rid) rfl)
    · exact k4

def St2 (s : Option Status) : Prop := s = some .executable ∨ s = some .executionComplete

theorem createReplacement_ids (w : World) (a : Nat) (np sz : Rat) (cr : Time) :
    ids (w.createReplacement a np sz cr).1 = ids w ++ [w.orders.length] := by
  unfold createReplacement ids setTrade
  simp

/-- the only order a replace creates is the replacement, and it ends EXECUTABLE (placed) or EXECUTION_COMPLETE (refused) -/
theorem replacePlace_new (p : Package) (w : World) (o : Order) (a : Nat) (book : Book) (np : Option Rat) (sc : Rat) (failed : Nat)
    (ha : HasOrder w a) (hI : Inv.Inv w) :
    ∀ x, ¬ HasOrder w x → HasOrder (replacePlace p w o a book np sc failed).1 x → St2 (St (replacePlace p w o a book np sc failed).1 x) := by
  unfold replacePlace
  simp only
  have s1 : SI w (w.orderExecutionComplete a).bumpBetId :=
    (si_orderExecutionComplete w a).trans (SI.of_eq (w := w.orderExecutionComplete a) rfl)
  have g1 : Good w (w.orderExecutionComplete a).bumpBetId := (good_orderExecutionComplete w a).trans (good_bumpBetId _)
  generalize (w.orderExecutionComplete a).bumpBetId = w1 at s1 g1
  have hI1 : Inv.Inv w1 := g1.2 hI
  have ha1 : HasOrder w1 a := g1.1.hasOrder a ha
  obtain ⟨hlen, hst2, _⟩ := createReplacement_new w1 a (np.getD 0) sc p.created hI1
  have hids2 := createReplacement_ids w1 a (np.getD 0) sc p.created
  have hnb : ∀ m, (w1.createReplacement a (np.getD 0) sc p.created).2 ∉ (w1.market! m).blotter := by
    intro m hc
    have := (hI1.blotter_hasOrder m _ hc)
    rw [hlen] at this
    exact Fl.not_hasOrder_len w1 w1 hI1 (Keeps.refl w1) this
  have hne : a ≠ (w1.createReplacement a (np.getD 0) sc p.created).2 := by
    intro e; rw [hlen] at e
    exact Fl.not_hasOrder_len w1 w1 hI1 (Keeps.refl w1) (e ▸ ha1)
  have hr := createReplacement_mem w1 a (np.getD 0) sc p.created
  have hmkts : (w1.createReplacement a (np.getD 0) sc p.created).1.markets = w1.markets := by unfold createReplacement; rfl
  have g2 := good_createReplacement w1 a (np.getD 0) sc p.created
  rw [← hlen] at hids2
  generalize w1.createReplacement a (np.getD 0) sc p.created = cr at hr hst2 hids2 hnb hmkts hne g2
  obtain ⟨w2, rid⟩ := cr
  simp only at hr hst2 hids2 hnb hmkts hne g2 ⊢
  have hr2 : HasOrder w2 rid := (hasOrder_iff w2 rid).mpr hr
  have ha2 : HasOrder w2 a := g2.1.hasOrder a ha1
  -- every order of the final world that w did not have is rid
  have hnewid : ∀ (wf : World), SI w2 wf → ∀ x, ¬ HasOrder w x → HasOrder wf x → x = rid := by
    intro wf hs x hx hxf
    rw [hasOrder_iff, hs, hids2, s1] at hxf
    rcases List.mem_append.mp hxf with h | h
    · exact absurd ((hasOrder_iff w x).mpr h) hx
    · exact List.mem_singleton.mp h
  generalize (w2.order! rid).sim.place p.marketVersion (w2.client! p.client).bpe (w2.client! ((w2.order! rid).client.getD 0)).fullMatch book.view
    ((runnerOf book (w2.order! rid).sel (w2.order! rid).hc).getD { sel := (w2.order! rid).sel }).view false none w2.betId = pr
  have s3 := si_modifyOrder w2 rid (fun x => { x with sim := pr.1 }) (fun _ h => h)
  have e3 := same_modifyOrder w2 rid (fun x => { x with sim := pr.1 }) (fun _ h => h) ⟨rfl, rfl⟩ rid
  have hr3 := hasOrder_modify w2 rid rid (fun x => { x with sim := pr.1 }) hr2 (fun _ h => h)
  have ha3 := hasOrder_modify w2 a rid (fun x => { x with sim := pr.1 }) ha2 (fun _ h => h)
  have hm3 : (w2.modifyOrder rid (fun x => { x with sim := pr.1 })).markets = w1.markets := hmkts
  generalize w2.modifyOrder rid (fun x => { x with sim := pr.1 }) = w3 at s3 e3 hr3 ha3 hm3
  have hst3 : St w3 rid = none := by unfold St; rw [e3.1]; exact hst2
  cases pr.2.status with
  | success =>
    simp only
    have s4 : SI w3 ((w3.modifyOrder rid (fun x => { x with placedAt := some w3.clock, betId := pr.2.betId })).emit (.orderEvent rid)) :=
      (si_modifyOrder w3 rid (fun x => { x with placedAt := some w3.clock, betId := pr.2.betId }) (fun _ h => h)).trans
        (SI.of_eq (w := w3.modifyOrder rid (fun x => { x with placedAt := some w3.clock, betId := pr.2.betId })) rfl)
    have e4 : Same rid w3 ((w3.modifyOrder rid (fun x => { x with placedAt := some w3.clock, betId := pr.2.betId })).emit (.orderEvent rid)) :=
      same_trans (same_modifyOrder w3 rid (fun x => { x with placedAt := some w3.clock, betId := pr.2.betId }) (fun _ h => h) ⟨rfl, rfl⟩ rid) (same_of_orders rfl)
    have hm4 : ((w3.modifyOrder rid (fun x => { x with placedAt := some w3.clock, betId := pr.2.betId })).emit (.orderEvent rid)).markets = w1.markets := hm3
    generalize (w3.modifyOrder rid (fun x => { x with placedAt := some w3.clock, betId := pr.2.betId })).emit (.orderEvent rid) = w4 at s4 e4 hm4
    have hr4 : HasOrder w4 rid := (s4.hasOrder rid).mpr hr3
    have hst4 : St w4 rid = none := by unfold St; rw [e4.1]; exact hst3
    have hnb4 : rid ∉ (w4.market! p.market).blotter := by rw [Inv.market!_congr w4 w1 hm4]; exact hnb p.market
    have e5 := txnPlace_noexec_self w4 { market := p.market, client := o.client.getD ((w4.clients.head?.map (·.id)).getD 0) } rid none hr4 hnb4 hst4
    have s5 := si_txnPlace_noexec w4 { market := p.market, client := o.client.getD ((w4.clients.head?.map (·.id)).getD 0) } rid none
    generalize (w4.txnPlace { market := p.market, client := o.client.getD ((w4.clients.head?.map (·.id)).getD 0) } rid none false false).1 = w5 at e5 s5
    have hr5 : HasOrder w5 rid := (s5.hasOrder rid).mpr hr4
    have sall : SI w2 ((w5.orderExecutable rid).tradeExit o.trade) :=
      (((s3.trans s4).trans s5).trans (si_orderExecutable w5 rid)).trans (si_tradeExit _ _)
    intro x hx hxf
    have := hnewid _ sall x hx hxf
    subst this
    left
    unfold St
    rw [order!_congr _ _ (tradeExit_orders _ _) x, C03.executable_self w5 x hr5]
    have hc : (w5.order! x).complete = false := by
      have := congrArg Prod.snd e5; exact this
    rw [hc]; rfl
  | failure =>
    have s4 := si_orderExecutionComplete w3 rid
    have e4 : St (w3.orderExecutionComplete rid) rid = some .executionComplete := by
      unfold St; rw [C03.executionComplete_self w3 rid hr3]; rfl
    have hr4 : HasOrder (w3.orderExecutionComplete rid) rid := (s4.hasOrder rid).mpr hr3
    have ha4 : HasOrder (w3.orderExecutionComplete rid) a := (s4.hasOrder a).mpr ha3
    generalize w3.orderExecutionComplete rid = w4 at s4 e4 hr4 ha4
    have f5 := fr_orderExecutable w4 a w4 a ha4 (Or.inl rfl)
    have e5 : Same rid w4 (w4.orderExecutable a) := f5.2 rid (fun e => hne e.symm) hr4
    have sall : SI w2 ((w4.orderExecutable a).tradeExit o.trade) :=
      ((s3.trans s4).trans (si_orderExecutable w4 a)).trans (si_tradeExit _ _)
    intro x hx hxf
    have := hnewid _ sall x hx hxf
    subst this
    right
    unfold St
    rw [order!_congr _ _ (tradeExit_orders _ _) x, e5.1]; exact e4

/-- orders that w does not have and w' has are EXECUTABLE or EXECUTION_COMPLETE in w' -/
def NS (w w' : World) : Prop := ∀ x, ¬ HasOrder w x → HasOrder w' x → St2 (St w' x)

theorem NS.of_si {w w' : World} (h : SI w w') : NS w w' := fun x hx hx' => absurd ((h.hasOrder x).mp hx') hx

theorem st2_same {x : Nat} {w w' : World} (h : Same x w w') (hs : St2 (St w x)) : St2 (St w' x) := by
  unfold St2 St at hs ⊢; rw [h.1]; exact hs

theorem ns_replaceStep (p : Package) (acc : World × Nat) (pr : Nat × Option Rat) (ha : HasOrder acc.1 pr.1) (hI : Inv.Inv acc.1) :
    NS acc.1 (replaceStep p acc pr).1 := by
  obtain ⟨w, failed⟩ := acc
  obtain ⟨a, newPrice⟩ := pr
  unfold replaceStep
  simp only
  simp only at ha hI
  have k1 := si_tradeEnter w (w.order! a).trade
  have g1 := good_tradeEnter w (w.order! a).trade
  generalize w.tradeEnter (w.order! a).trade = w1 at k1 g1
  generalize (w.order! a).sim.cancel (((w1.market! p.market).book).getD {}).status
    (if (w.order! a).ud.hasReduction then (w.order! a).ud.sizeReduction else none) = cr
  have k2 := k1.trans (si_modifyOrder w1 a (fun o => { o with sim := cr.1, cancelResponses := o.cancelResponses + 1 }) (fun _ h => h))
  have g2 := g1.trans (good_modifyOrder w1 a (fun o => { o with sim := cr.1, cancelResponses := o.cancelResponses + 1 }) (fun _ => rfl))
  generalize w1.modifyOrder a (fun o => { o with sim := cr.1, cancelResponses := o.cancelResponses + 1 }) = w2 at k2 g2
  cases cr.2.status with
  | failure => exact NS.of_si ((k2.trans (si_orderExecutable w2 a)).trans (si_tradeExit _ _))
  | success =>
    intro x hx hx'
    exact replacePlace_new p w2 _ a _ newPrice _ failed (g2.1.hasOrder a ha) (g2.2 hI) x (fun h => hx ((k2.hasOrder x).mp h)) hx'

/-- a fold of steps, each of which only touches the orders `keys a` (all of them orders of the base world w0) and orders it
    creates itself: what the fold creates is settled at the end -/
theorem ns_fold {σ α} (wof : σ → World) (keys : α → List Nat) (f : σ → α → σ) (P : World → Prop) (w0 : World)
    (hns : ∀ s a, (∀ k ∈ keys a, HasOrder (wof s) k) → P (wof s) → NS (wof s) (wof (f s a)))
    (hfr : ∀ s a, (∀ k ∈ keys a, HasOrder (wof s) k) → P (wof s) → ∀ x, HasOrder (wof s) x → x ∉ keys a → Same x (wof s) (wof (f s a)))
    (hkp : ∀ s a, (∀ k ∈ keys a, HasOrder (wof s) k) → P (wof s) → Keeps (wof s) (wof (f s a)))
    (hP : ∀ s a, (∀ k ∈ keys a, HasOrder (wof s) k) → P (wof s) → P (wof (f s a)))
    (l : List α) (s : σ) (hw : P (wof s)) (hl : ∀ a ∈ l, ∀ k ∈ keys a, HasOrder w0 k) (hk0 : Keeps w0 (wof s))
    (h0 : NS w0 (wof s)) : NS w0 (wof (l.foldl f s)) := by
  induction l generalizing s with
  | nil => exact h0
  | cons b rest ih =>
    rw [List.foldl_cons]
    have hb : ∀ k ∈ keys b, HasOrder (wof s) k := fun k hk => hk0.hasOrder k (hl b List.mem_cons_self k hk)
    refine ih (f s b) (hP s b hb hw) (fun a ha => hl a (List.mem_cons_of_mem _ ha)) (hk0.trans (hkp s b hb hw)) ?_
    intro x hx hx'
    by_cases hxs : HasOrder (wof s) x
    · have hnk : x ∉ keys b := fun hk => hx (hl b List.mem_cons_self x hk)
      exact st2_same (hfr s b hb hw x hxs hnk) (h0 x hx hxs)
    · exact hns s b hb hw x hxs hx'

theorem NS.congr {w w' w'' : World} (h : NS w w') (ho : w''.orders = w'.orders) : NS w w'' := by
  intro x hx hx'
  have := h x hx ((hasOrder_congr w' w'' ho x).mp hx')
  unfold St2 St at this ⊢
  rw [order!_congr w' w'' ho x]; exact this

/-- what a package creates (the replacement orders of a replace package) is settled when the package has been executed -/
theorem ns_executePackage (w : World) (p : Package) (hI : Inv.Inv w) (hp : ∀ oid ∈ p.orders, HasOrder w oid) : NS w (w.executePackage p) := by
  have hpo : ∀ oid ∈ w.packageOrders p, HasOrder w oid := fun oid h => hp oid (List.mem_filter.mp h).1
  unfold executePackage
  cases p.kind with
  | place =>
    simp only; unfold executePlace
    exact NS.of_si ((si_foldl (placeStep p) (fun w a => si_placeStep p w a) _ w).trans (SI.of_eq rfl))
  | cancel =>
    simp only; unfold executeCancel
    simp only
    have := si_foldl_pair (cancelStep p) (fun acc a => si_cancelStep p acc a) (w.packageOrders p) (w, 0)
    generalize (w.packageOrders p).foldl (cancelStep p) (w, 0) = r at this
    obtain ⟨w1, failed⟩ := r
    simp only at this ⊢
    split
    · exact NS.of_si (this.trans (SI.of_eq rfl))
    · exact NS.of_si this
  | update =>
    simp only; unfold executeUpdate
    simp only
    have := si_foldl_pair (updateStep p) (fun acc a => si_updateStep p acc a) (w.packageOrders p) (w, 0)
    generalize (w.packageOrders p).foldl (updateStep p) (w, 0) = r at this
    obtain ⟨w1, failed⟩ := r
    simp only at this ⊢
    split
    · exact NS.of_si (this.trans (SI.of_eq rfl))
    · exact NS.of_si this
  | replace =>
    simp only; unfold executeReplace
    simp only
    have hz : ∀ a ∈ (((w.packageOrders p).filter fun oid => (w.order! oid).status ≠ some .executionComplete).map fun oid => (oid, (w.order! oid).ud.newPrice)),
        ∀ k ∈ [a.1], HasOrder w k := by
      intro a ha k hk
      obtain ⟨oid, ho, rfl⟩ := List.mem_map.mp ha
      rw [List.mem_singleton.mp hk]
      exact hpo oid (List.mem_filter.mp ho).1
    generalize (((w.packageOrders p).filter fun oid => (w.order! oid).status ≠ some .executionComplete).map fun oid => (oid, (w.order! oid).ud.newPrice)) = zs at hz
    have := ns_fold (σ := World × Nat) (·.1) (fun (a : Nat × Option Rat) => [a.1]) (replaceStep p) Inv.Inv w
      (fun s a hk hi => ns_replaceStep p s a (hk a.1 (List.mem_singleton.mpr rfl)) hi)
      (fun s a hk hi x hx hnk => (fr_replaceStep s.1 p s a (hk a.1 (List.mem_singleton.mpr rfl)) hi (Ids.Keeps.refl s.1)).2 x
        (fun e => hnk (List.mem_singleton.mpr e)) hx)
      (fun s a _ _ => keeps_replaceStep p s a)
      (fun s a _ hi => (good_replaceStep p s a).2 hi) zs (w, 0) hI hz (Ids.Keeps.refl w) (NS.of_si (SI.refl w))
    generalize zs.foldl (replaceStep p) (w, 0) = r at this
    obtain ⟨w1, failed⟩ := r
    simp only at this ⊢
    split
    · exact (this.congr (w'' := w1.addTransaction p.client zs.length) rfl).congr rfl
    · exact this.congr rfl

/-- the same for the due packages executed one after the other -/
theorem ns_execAll (l : List Package) (w : World) (hI : Inv.Inv w) (hl : ∀ p ∈ l, ∀ oid ∈ p.orders, HasOrder w oid) :
    NS w (l.foldl (fun w p => w.executePackage p) w) :=
  ns_fold (σ := World) id (fun (p : Package) => p.orders) (fun w p => w.executePackage p) Inv.Inv w
    (fun s p hk hi => ns_executePackage s p hi hk)
    (fun s p hk hi x hx hnk => fr_executePackage s p hi hk x hx hnk)
    (fun s p _ _ => keeps_executePackage s p)
    (fun s p _ hi => (good_executePackage s p).2 hi) l w hI hl (Ids.Keeps.refl w) (NS.of_si (SI.refl w))

/-! ### the due packages, executed one after the other, settle every order they list -/

theorem frame_execAll (l : List Package) (w : World) (hI : Inv.Inv w) (hl : ∀ p ∈ l, ∀ oid ∈ p.orders, HasOrder w oid)
    (x : Nat) (hx : HasOrder w x) (hnk : ∀ p ∈ l, x ∉ p.orders) : Same x w (l.foldl (fun w p => w.executePackage p) w) := by
  induction l generalizing w with
  | nil => exact same_refl x w
  | cons p ps ih =>
    rw [List.foldl_cons]
    have h1 := fr_executePackage w p hI (hl p List.mem_cons_self) x hx (hnk p List.mem_cons_self)
    have g := good_executePackage w p
    exact same_trans h1 (ih _ (g.2 hI) (fun q hq oid ho => g.1.hasOrder oid (hl q (List.mem_cons_of_mem _ hq) oid ho))
      (g.1.hasOrder x hx) (fun q hq => hnk q (List.mem_cons_of_mem _ hq)))

theorem settled_execAll (l : List Package) (w : World) (hI : Inv.Inv w) (hl : ∀ p ∈ l, ∀ oid ∈ p.orders, HasOrder w oid)
    (hnd : (l.flatMap (·.orders)).Nodup) :
    ∀ p ∈ l, ∀ oid ∈ p.orders, (w.order! oid).status ≠ some .violation →
      Settled ((l.foldl (fun w p => w.executePackage p) w).order! oid) := by
  induction l generalizing w with
  | nil => intro p hp; cases hp
  | cons q qs ih =>
    rw [List.flatMap_cons, List.nodup_append] at hnd
    obtain ⟨_, hnd2, hdisj⟩ := hnd
    have g := good_executePackage w q
    have hl' : ∀ p ∈ qs, ∀ oid ∈ p.orders, HasOrder (w.executePackage q) oid :=
      fun p hp oid ho => g.1.hasOrder oid (hl p (List.mem_cons_of_mem _ hp) oid ho)
    intro p hp oid ho hv
    rw [List.foldl_cons]
    rcases List.mem_cons.mp hp with e | e
    · subst e
      -- settled by its own package, untouched by the others
      have h1 : Settled ((w.executePackage p).order! oid) :=
        Settle.package_settles w p hI (hl p List.mem_cons_self) oid (List.mem_filter.mpr ⟨ho, by simpa using hv⟩)
      have hfr := frame_execAll qs (w.executePackage p) (g.2 hI) hl' oid (g.1.hasOrder oid (hl p List.mem_cons_self oid ho))
        (fun r hr hin => hdisj oid ho oid (List.mem_flatMap.mpr ⟨r, hr, hin⟩) rfl)
      exact settled_same hfr h1
    · have hnq : oid ∉ q.orders := fun hin => hdisj oid hin oid (List.mem_flatMap.mpr ⟨p, e, ho⟩) rfl
      have hs := fr_executePackage w q hI (hl q List.mem_cons_self) oid (hl p hp oid ho) hnq
      exact ih (w.executePackage q) (g.2 hI) hl' hnd2 p e oid ho (by rw [hs.1]; exact hv)

/-! ### the invariant: an order in flight has an outstanding operation -/

def InFl (s : Option Status) : Prop := s = some .pending ∨ s = some .cancelling ∨ s = some .updating ∨ s = some .replacing

/-- the pending flag is set whenever a request waits in the transaction (so leaving the block sends it) -/
def Flg (t : Txn) : Prop := txnIds t ≠ [] → t.pendingOrders = true

/-- package ids are distinct and below the counter (`_check_pending_packages` removes what it executed by identity) -/
def PK (w : World) : Prop := (w.queue.map (·.id)).Nodup ∧ ∀ p ∈ w.queue, p.id < w.nextPackage

structure CV (w : World) (b : Option Txn) : Prop where
  cv : ∀ oid, HasOrder w oid → InFl (St w oid) → oid ∈ pendIds w b
  pk : PK w
  fl : ∀ t, b = some t → Flg t
  bi : ∀ M, BI M w

theorem SI.of_len {w w' : World} (k : Keeps w w') (h : w'.orders.length = w.orders.length) : SI w w' := by
  obtain ⟨e, he⟩ := k
  have : (ids w').length = (ids w).length + e.length := by rw [he, List.length_append]
  unfold ids at this
  simp only [List.length_map] at this
  have he0 : e = [] := List.eq_nil_of_length_eq_zero (by omega)
  unfold SI; rw [he, he0, List.append_nil]

theorem moves_inFl {X : List Nat} {oid : Nat} {s s' : Option Status} (h : Moves X oid s s') (hf : InFl s') : s' = s := by
  rcases h with e | e | ⟨_, e⟩ | ⟨_, e⟩
  · exact e
  · rw [e] at hf; rcases hf with h | h | h | h <;> cases h
  · rw [e] at hf; rcases hf with h | h | h | h <;> cases h
  · rw [e] at hf; rcases hf with h | h | h | h <;> cases h

/-- a step that is not a request, creates no order and leaves queue and package counter alone -/
theorem cv_calm {w w' : World} {b : Option Txn} (h : Q w [] w w') (hl : w'.orders.length = w.orders.length)
    (hn : w'.nextPackage = w.nextPackage) (hfs : ∀ M, FS M w w') (c : CV w b) : CV w' b := by
  have hsi := SI.of_len h.good.1 hl
  refine ⟨?_, ?_, c.fl, fun M => ((hfs M).2 (c.bi M)).1⟩
  · intro oid ho hf
    have how := (hsi.hasOrder oid).mp ho
    have := moves_inFl (h.fr oid how how) hf
    rw [pendIds_congr h.qu]
    exact c.cv oid how (by rw [← this]; exact hf)
  · unfold PK; rw [h.qu, hn]; exact c.pk

theorem eq_of_id_eq (l : List Package) (hn : (l.map (·.id)).Nodup) (p q : Package) (hp : p ∈ l) (hq : q ∈ l) (h : p.id = q.id) : p = q := by
  induction l with
  | nil => cases hp
  | cons x xs ih =>
    rw [List.map_cons, List.nodup_cons] at hn
    rcases List.mem_cons.mp hp with e1 | e1 <;> rcases List.mem_cons.mp hq with e2 | e2
    · rw [e1, e2]
    · exfalso; apply hn.1; rw [← e1, h]; exact List.mem_map.mpr ⟨q, e2, rfl⟩
    · exfalso; apply hn.1; rw [← e2, ← h]; exact List.mem_map.mpr ⟨p, e1, rfl⟩
    · exact ih hn.2 e1 e2

theorem inFl_not_complete {s : Status} (h : InFl (some s)) : statusComplete s = false := by
  rcases h with e | e | e | e <;> (cases (Option.some.inj e); decide)

theorem inFl_not_settled {w : World} {oid : Nat} {M : Nat} (hB : BI M w) (hb : oid ∈ (w.market! M).blotter)
    (hs : Settled (w.order! oid)) (hf : InFl (St w oid)) : False := by
  unfold St at hf
  rcases hs with e | e | e
  · rw [e] at hf; rcases hf with h | h | h | h <;> cases h
  · rw [e] at hf; rcases hf with h | h | h | h <;> cases h
  · cases hst : (w.order! oid).status with
    | none => rw [hst] at hf; rcases hf with h | h | h | h <;> cases h
    | some s =>
      rw [hst] at hf
      have := (hB.sent oid hb).2 s hst
      rw [e, inFl_not_complete hf] at this
      cases this

/-- executing the due packages: every order they list is settled, what they create is settled, nothing else moved -/
theorem cv_checkPendingPackages (w : World) (mid : Nat) (f : FI w none) (c : CV w none) : CV (w.checkPendingPackages mid) none := by
  have hbi2 : ∀ M, BI M (w.checkPendingPackages mid) := fun M => ((fs_checkPendingPackages M w mid).2 (c.bi M)).1
  have hnp : (w.checkPendingPackages mid).nextPackage = w.nextPackage := NextPk.checkPendingPackages_nextPackage w mid
  unfold checkPendingPackages at hbi2 hnp ⊢
  simp only at hbi2 hnp ⊢
  have hpq : pendIds w none = queueIds w := by unfold pendIds batchIds; simp
  have hnd : (w.queue.flatMap (·.orders)).Nodup := by
    have := f.nd; rw [hpq] at this; exact this
  have hdue : ∀ p ∈ w.queue.filter (fun p => p.market = mid ∧ p.delay < elapsedSeconds w.clock p.created), p ∈ w.queue :=
    fun p hp => (List.mem_filter.mp hp).1
  have hmemq : ∀ p ∈ w.queue, ∀ oid ∈ p.orders, oid ∈ pendIds w none := by
    intro p hp oid ho; rw [hpq]; exact mem_queueIds.mpr ⟨p, hp, ho⟩
  have hlo : ∀ p ∈ w.queue.filter (fun p => p.market = mid ∧ p.delay < elapsedSeconds w.clock p.created), ∀ oid ∈ p.orders, HasOrder w oid :=
    fun p hp oid ho => f.ex oid (hmemq p (hdue p hp) oid ho)
  have k := q_execAll w ((w.queue.filter (fun p => p.market = mid ∧ p.delay < elapsedSeconds w.clock p.created)).flatMap (·.orders))
    (w.queue.filter (fun p => p.market = mid ∧ p.delay < elapsedSeconds w.clock p.created)) w
    (fun p hp oid ho => List.mem_flatMap.mpr ⟨p, hp, ho⟩) f.inv (Keeps.refl w) f.inv
    (fun p hp oid ho => ⟨f.ex oid (hmemq p (hdue p hp) oid ho), f.hm oid (hmemq p (hdue p hp) oid ho), f.qm p (hdue p hp) oid ho⟩)
  have hns := ns_execAll (w.queue.filter (fun p => p.market = mid ∧ p.delay < elapsedSeconds w.clock p.created)) w f.inv hlo
  have hsett := settled_execAll (w.queue.filter (fun p => p.market = mid ∧ p.delay < elapsedSeconds w.clock p.created)) w f.inv hlo
    ((sublist_flatMap_filter w.queue (·.orders) _).nodup hnd)
  generalize (w.queue.filter (fun p => p.market = mid ∧ p.delay < elapsedSeconds w.clock p.created)).foldl (fun w p => w.executePackage p) w = w1 at k hns hsett hbi2 hnp
  have hq1 : w1.queue = w.queue := k.qu
  refine ⟨?_, ?_, (fun t ht => by cases ht), hbi2⟩
  · intro oid ho hf
    have ho1 : HasOrder w1 oid := ho
    have hf1 : InFl (St w1 oid) := hf
    by_cases how : HasOrder w oid
    · have hsame := moves_inFl (k.fr oid how how) hf1
      have hfw : InFl (St w oid) := by rw [← hsame]; exact hf1
      have hin := c.cv oid how hfw
      rw [hpq] at hin
      obtain ⟨p, hp, hop⟩ := mem_queueIds.mp hin
      by_cases hd : (decide (p.market = mid ∧ p.delay < elapsedSeconds w.clock p.created)) = true
      · -- its package was executed: the order is settled
        exfalso
        have hpd : p ∈ w.queue.filter (fun p => p.market = mid ∧ p.delay < elapsedSeconds w.clock p.created) := List.mem_filter.mpr ⟨hp, hd⟩
        have hnv : (w.order! oid).status ≠ some .violation := by
          intro e; unfold St at hfw; rw [e] at hfw; rcases hfw with h | h | h | h <;> cases h
        have hs := hsett p hpd oid hop hnv
        have hh : Home w1 oid := k.home oid how (f.hm oid (hmemq p hp oid hop))
        exact inFl_not_settled (w := { w1 with queue := w1.queue.filter fun p => !((w.queue.filter (fun p => p.market = mid ∧ p.delay < elapsedSeconds w.clock p.created)).any (·.id = p.id)) })
          (hbi2 ((w1.order! oid).market)) hh hs hf1
      · -- its package is still waiting
        unfold pendIds batchIds queueIds
        simp only [List.append_nil]
        rw [hq1]
        refine List.mem_flatMap.mpr ⟨p, List.mem_filter.mpr ⟨hp, ?_⟩, hop⟩
        simp only [Bool.not_eq_true', List.any_eq_false, decide_eq_true_eq]
        intro q hq e
        have : q = p := eq_of_id_eq w.queue c.pk.1 q p (hdue q hq) hp e
        rw [this] at hq
        exact hd (List.mem_filter.mp hq).2
    · exfalso
      rcases hns oid how ho1 with e | e <;> (rw [e] at hf1; rcases hf1 with h | h | h | h <;> cases h)
  · refine ⟨?_, ?_⟩
    · rw [hq1]
      exact (List.Sublist.map _ List.filter_sublist).nodup c.pk.1
    · intro p hp
      rw [hnp]
      have : p ∈ w1.queue := (List.mem_filter.mp hp).1
      rw [hq1] at this
      exact c.pk.2 p this

/-! ### requests -/

theorem pend_mono {w w' : World} {t t' : Txn} (hq : w'.queue = w.queue) (hsub : ∀ x ∈ txnIds t, x ∈ txnIds t') :
    ∀ x ∈ pendIds w (some t), x ∈ pendIds w' (some t') := by
  intro x hx
  unfold pendIds batchIds queueIds at hx ⊢
  rw [hq]
  rcases List.mem_append.mp hx with h | h
  · exact List.mem_append_left _ h
  · exact List.mem_append_right _ (hsub x h)

/-- a cancel / update / replace accepted by the guards: the order is in flight and listed in the transaction -/
theorem cv_request {w : World} {t t' : Txn} (c : CV w (some t)) (a : Nat) (o' : Order) (s : Status) (ha : HasOrder w a) (hid : o'.id = a)
    (hperm : (txnIds t').Perm (a :: txnIds t)) (hflag : t'.pendingOrders = true)
    (hbi : ∀ M, BI M ((w.setOrder o').orderUpdateStatus a s)) : CV ((w.setOrder o').orderUpdateStatus a s) (some t') := by
  have hA : HasOrder (w.setOrder o') a := hasOrder_setOrder w o' a ha
  have hsi : SI w ((w.setOrder o').orderUpdateStatus a s) := (si_setOrder w o').trans (si_orderUpdateStatus _ a s)
  have hq : ((w.setOrder o').orderUpdateStatus a s).queue = w.queue := (Inv.orderUpdateStatus_queue _ a s).trans rfl
  refine ⟨?_, ?_, fun t2 ht2 _ => by rw [← Option.some.inj ht2]; exact hflag, hbi⟩
  · intro oid ho hf
    by_cases e : oid = a
    · rw [e]
      unfold pendIds batchIds
      exact List.mem_append_right _ (hperm.mem_iff.mpr List.mem_cons_self)
    · have h1 : ((w.setOrder o').orderUpdateStatus a s).order! oid = w.order! oid := by
        rw [orderUpdateStatus_other _ oid a s hA e, order!_setOrder_other w o' oid (by rw [hid]; exact e)]
      have how := (hsi.hasOrder oid).mp ho
      have hfw : InFl (St w oid) := by unfold St at hf ⊢; rw [← h1]; exact hf
      exact pend_mono hq (fun x hx => hperm.mem_iff.mpr (List.mem_cons_of_mem _ hx)) oid (c.cv oid how hfw)
  · unfold PK
    rw [hq]
    have : ((w.setOrder o').orderUpdateStatus a s).nextPackage = w.nextPackage := by simp
    rw [this]; exact c.pk

theorem cv_txnCancel (w : World) (t : Txn) (a : Nat) (red : Option Rat) (force : Bool) (c : CV w (some t)) (ha : HasOrder w a) :
    CV (w.txnCancel t a red force).1 (some (w.txnCancel t a red force).2.1) := by
  unfold txnCancel
  simp only
  split
  · exact c
  · have k1 : Q w [] w (if (!force) = true then w.validateControls a t.client .cancel else (w, none)).1 ∧
        CV (if (!force) = true then w.validateControls a t.client .cancel else (w, none)).1 (some t) := by
      split
      · have k := q_validateControls w [] w a t.client .cancel ha
        exact ⟨k, cv_calm k (by simp) (by simp) (fun M => fs_validateControls M w a t.client .cancel ha) c⟩
      · exact ⟨Q.refl w [] w, c⟩
    generalize (if (!force) = true then w.validateControls a t.client .cancel else (w, none)) = vr at k1
    obtain ⟨w1, r⟩ := vr
    obtain ⟨k1, c1⟩ := k1
    cases r with
    | some r => exact c1
    | none =>
      simp only at k1 c1 ⊢
      cases h : w1.orderCancel a red with
      | error e => exact c1
      | ok w2 =>
        have ha1 := k1.hasOrder a ha
        have hbi : ∀ M, BI M w2 := fun M => ((fs_orderCancel M w1 w2 a red ha1 h).2 (c1.bi M)).1
        unfold orderCancel at h
        simp only at h
        split_ifs at h with h1 h2 h3 h4
        have := (Except.ok.inj h).symm
        subst this
        exact cv_request c1 a _ .cancelling ha1 (order!_id w1 a ha1) (txnIds_cancel t (a, none) true) rfl hbi

theorem cv_txnUpdate (w : World) (t : Txn) (a : Nat) (pers : String) (force : Bool) (c : CV w (some t)) (ha : HasOrder w a) :
    CV (w.txnUpdate t a pers force).1 (some (w.txnUpdate t a pers force).2.1) := by
  unfold txnUpdate
  simp only
  split
  · exact c
  · have k1 : Q w [] w (if (!force) = true then w.validateControls a t.client .update else (w, none)).1 ∧
        CV (if (!force) = true then w.validateControls a t.client .update else (w, none)).1 (some t) := by
      split
      · have k := q_validateControls w [] w a t.client .update ha
        exact ⟨k, cv_calm k (by simp) (by simp) (fun M => fs_validateControls M w a t.client .update ha) c⟩
      · exact ⟨Q.refl w [] w, c⟩
    generalize (if (!force) = true then w.validateControls a t.client .update else (w, none)) = vr at k1
    obtain ⟨w1, r⟩ := vr
    obtain ⟨k1, c1⟩ := k1
    cases r with
    | some r => exact c1
    | none =>
      simp only at k1 c1 ⊢
      cases h : w1.orderUpdate a pers with
      | error e => exact c1
      | ok w2 =>
        have ha1 := k1.hasOrder a ha
        have hbi : ∀ M, BI M w2 := fun M => ((fs_orderUpdate M w1 w2 a pers ha1 h).2 (c1.bi M)).1
        unfold orderUpdate at h
        simp only at h
        split_ifs at h with h1 h2 h3 h4
        have := (Except.ok.inj h).symm
        subst this
        exact cv_request c1 a _ .updating ha1 (order!_id w1 a ha1) (txnIds_update t (a, none) true) rfl hbi

theorem cv_txnReplace (w : World) (t : Txn) (a : Nat) (price : Rat) (mv : Option Int) (force : Bool) (c : CV w (some t)) (ha : HasOrder w a) :
    CV (w.txnReplace t a price mv force).1 (some (w.txnReplace t a price mv force).2.1) := by
  unfold txnReplace
  simp only
  split
  · exact c
  · have k1 : Q w [] w (if (!force) = true then w.validateControls a t.client .replace else (w, none)).1 ∧
        CV (if (!force) = true then w.validateControls a t.client .replace else (w, none)).1 (some t) := by
      split
      · have k := q_validateControls w [] w a t.client .replace ha
        exact ⟨k, cv_calm k (by simp) (by simp) (fun M => fs_validateControls M w a t.client .replace ha) c⟩
      · exact ⟨Q.refl w [] w, c⟩
    generalize (if (!force) = true then w.validateControls a t.client .replace else (w, none)) = vr at k1
    obtain ⟨w1, r⟩ := vr
    obtain ⟨k1, c1⟩ := k1
    cases r with
    | some r => exact c1
    | none =>
      simp only at k1 c1 ⊢
      cases h : w1.orderReplace a price with
      | error e => exact c1
      | ok w2 =>
        have ha1 := k1.hasOrder a ha
        have hbi : ∀ M, BI M w2 := fun M => ((fs_orderReplace M w1 w2 a price ha1 h).2 (c1.bi M)).1
        unfold orderReplace at h
        simp only at h
        split_ifs at h with h1 h2 h3 h4
        have := (Except.ok.inj h).symm
        subst this
        exact cv_request c1 a _ .replacing ha1 (order!_id w1 a ha1) (txnIds_replace t (a, mv) true) rfl hbi

/-- a step of kind Q that creates no order: an order in flight afterwards was in flight, with the same status, before -/
theorem q_inFl {w w' : World} (h : Q w [] w w') (hl : w'.orders.length = w.orders.length) (oid : Nat) (ho : HasOrder w' oid)
    (hf : InFl (St w' oid)) : HasOrder w oid ∧ InFl (St w oid) := by
  have how := ((SI.of_len h.good.1 hl).hasOrder oid).mp ho
  exact ⟨how, by rw [← moves_inFl (h.fr oid how how) hf]; exact hf⟩

theorem cv_txnPlace (w : World) (t : Txn) (a : Nat) (mv : Option Int) (force : Bool) (c : CV w (some t)) (ha : HasOrder w a) :
    CV (w.txnPlace t a mv true force).1 (some (w.txnPlace t a mv true force).2.1) := by
  have hbiF : ∀ M, BI M (w.txnPlace t a mv true force).1 := fun M => ((fs_txnPlace M w t a mv true force ha).2 (c.bi M)).1
  have hqF : (w.txnPlace t a mv true force).1.queue = w.queue := Qu.txnPlace_queue w t a mv true force
  have hnF : (w.txnPlace t a mv true force).1.nextPackage = w.nextPackage := NextPk.txnPlace_nextPackage w t a mv true force
  have hsiF : SI w (w.txnPlace t a mv true force).1 := SI.of_len (keeps_txnPlace w t a mv true force) (Len.txnPlace_len w t a mv true force)
  -- what is left: who is in flight afterwards, and the transaction's list
  suffices key : (∀ oid, HasOrder w oid → InFl (St (w.txnPlace t a mv true force).1 oid) →
        InFl (St w oid) ∨ (oid = a ∧ (w.txnPlace t a mv true force).2.1 = { t with pPlace := t.pPlace ++ [(a, mv)], pendingOrders := true })) ∧
      ((w.txnPlace t a mv true force).2.1 = t ∨ (w.txnPlace t a mv true force).2.1 = { t with pPlace := t.pPlace ++ [(a, mv)], pendingOrders := true }) by
    obtain ⟨k1, k2⟩ := key
    have hsub : ∀ x ∈ txnIds t, x ∈ txnIds (w.txnPlace t a mv true force).2.1 := by
      intro x hx
      rcases k2 with e | e <;> rw [e]
      · exact hx
      · exact (txnIds_place t (a, mv) true).mem_iff.mpr (List.mem_cons_of_mem _ hx)
    refine ⟨?_, ?_, ?_, hbiF⟩
    · intro oid ho hf
      have how := (hsiF.hasOrder oid).mp ho
      rcases k1 oid how hf with h | ⟨e1, e2⟩
      · exact pend_mono hqF hsub oid (c.cv oid how h)
      · rw [e1, e2]
        unfold pendIds batchIds
        exact List.mem_append_right _ ((txnIds_place t (a, mv) true).mem_iff.mpr List.mem_cons_self)
    · unfold PK; rw [hqF, hnF]; exact c.pk
    · intro t2 ht2
      rw [← Option.some.inj ht2]
      rcases k2 with e | e <;> rw [e]
      · exact c.fl t rfl
      · intro _; rfl
  clear hbiF hqF hnF hsiF
  unfold txnPlace
  simp only
  have k0 := q_modifyOrder w [] w a (fun o => { o with client := some t.client }) (fun _ h => h) rfl rfl
  have l0 : (w.modifyOrder a (fun o => { o with client := some t.client })).orders.length = w.orders.length := by simp
  generalize w.modifyOrder a (fun o => { o with client := some t.client }) = w0 at k0 l0
  have h0 := k0.hasOrder a ha
  have k1 : Q w [] w0 (if (true && !force) = true then w0.validateControls a t.client .place else (w0, none)).1 ∧
      (if (true && !force) = true then w0.validateControls a t.client .place else (w0, none)).1.orders.length = w0.orders.length := by
    split
    · exact ⟨q_validateControls w [] w0 a t.client .place h0, by simp⟩
    · exact ⟨Q.refl w [] w0, rfl⟩
  generalize (if (true && !force) = true then w0.validateControls a t.client .place else (w0, none)) = vr at k1
  obtain ⟨w1, r⟩ := vr
  obtain ⟨k1, l1⟩ := k1
  simp only at k1 l1 ⊢
  have k01 := k0.trans k1
  have l01 : w1.orders.length = w.orders.length := l1.trans l0
  have h1 := k1.hasOrder a h0
  have refused : (∀ oid, HasOrder w oid → InFl (St w1 oid) →
      InFl (St w oid) ∨ (oid = a ∧ t = { t with pPlace := t.pPlace ++ [(a, mv)], pendingOrders := true })) ∧
      (t = t ∨ t = { t with pPlace := t.pPlace ++ [(a, mv)], pendingOrders := true }) :=
    ⟨fun oid how hf => Or.inl (q_inFl k01 l01 oid (k01.hasOrder oid how) hf).2, Or.inl rfl⟩
  cases r with
  | some r => exact refused
  | none =>
    simp only
    split
    · exact refused
    · have k2 := q_modifyOrder w [] w1 a (fun o => { o with publishTime := some (((w1.market! t.market).book).getD {}).pt, marketVersion := mv }) (fun _ h => h) rfl rfl
      have l2 : (w1.modifyOrder a (fun o => { o with publishTime := some (((w1.market! t.market).book).getD {}).pt, marketVersion := mv })).orders.length = w1.orders.length := by simp
      generalize w1.modifyOrder a (fun o => { o with publishTime := some (((w1.market! t.market).book).getD {}).pt, marketVersion := mv }) = w2 at k2 l2
      have k012 := k01.trans k2
      have l012 : w2.orders.length = w.orders.length := l2.trans l01
      have h2 := k2.hasOrder a h1
      unfold orderPlacing
      simp only [↓reduceIte]
      refine ⟨fun oid how hf => ?_, Or.inr trivial⟩
      by_cases e : oid = a
      · exact Or.inr ⟨e, trivial⟩
      · left
        have ho2 := k012.hasOrder oid how
        -- the other orders are as they were in w2
        have hs : ∀ wF, Same oid (w2.orderUpdateStatus a .pending) wF → InFl (St wF oid) → InFl (St w oid) := by
          intro wF hsm hfF
          have h3 : Same oid w2 wF := same_trans (same_orderUpdateStatus_other w2 a oid .pending h2 e) hsm
          have hf2 : InFl (St w2 oid) := by unfold St at hfF ⊢; rw [← h3.1]; exact hfF
          exact (q_inFl k012 l012 oid ho2 hf2).2
        refine hs _ ?_ hf
        refine same_trans (same_blotterAdd _ t.market a oid) (same_of_orders ?_)
        split
        · rw [ctxPlace_orders]; rfl
        · rw [ctxPlace_orders]

/-! ### packaging -/

theorem pk_addPackage (k : PackKind) (t : Txn) (d bd : Rat) (w : World) (vc : Option Int × List Nat) (h : PK w) : PK (addPackage k t d bd w vc) := by
  unfold PK addPackage
  simp only [List.map_append, List.map_cons, List.map_nil]
  refine ⟨List.nodup_append.mpr ⟨h.1, by simp, ?_⟩, ?_⟩
  · intro x hx y hy
    simp only [List.mem_singleton] at hy
    subst hy
    obtain ⟨p, hp, rfl⟩ := List.mem_map.mp hx
    exact Nat.ne_of_lt (h.2 p hp)
  · intro p hp
    rcases List.mem_append.mp hp with hp | hp
    · exact Nat.lt_succ_of_lt (h.2 p hp)
    · rw [List.mem_singleton.mp hp]; exact Nat.lt_succ_self _

theorem pk_createPackages (w : World) (t : Txn) (pend : List (Nat × Option Int)) (k : PackKind) (h : PK w) : PK (w.createPackages t pend k) := by
  unfold createPackages
  have key : ∀ (d bd : Rat) (l : List (Option Int × List Nat)) (w : World), PK w → PK (l.foldl (addPackage k t d bd) w) := by
    intro d bd l
    induction l with
    | nil => intro w hw; exact hw
    | cons x xs ih => intro w hw; rw [List.foldl_cons]; exact ih _ (pk_addPackage k t d bd w x hw)
  exact key _ _ _ w h

theorem pk_txnExecute (w : World) (t : Txn) (h : PK w) : PK (w.txnExecute t).1 := by
  unfold txnExecute
  simp only
  have hs : ∀ (w : World) (c : Bool) (p : List (Nat × Option Int)) (k : PackKind), PK w → PK (if c then w else w.createPackages t p k) := by
    intro w c p k hw; split
    · exact hw
    · exact pk_createPackages w t p k hw
  exact hs _ _ _ _ (hs _ _ _ _ (hs _ _ _ _ (hs _ _ _ _ h)))

theorem txnExecute_orders (w : World) (t : Txn) : (w.txnExecute t).1.orders = w.orders := by
  unfold txnExecute
  simp only
  have h : ∀ (w : World) (c : Bool) (p : List (Nat × Option Int)) (k : PackKind), (if c then w else w.createPackages t p k).orders = w.orders := by
    intro w c p k; split
    · rfl
    · exact (createPackages_orders w t p k).1
  rw [h, h, h, h]

theorem tok_of_ex {w : World} {t : Txn} (h : ∀ oid ∈ pendIds w (some t), HasOrder w oid) : TOk w t := by
  have hm : ∀ x, x ∈ t.pPlace ++ t.pCancel ++ t.pUpdate ++ t.pReplace → x.1 ∈ ids w := by
    intro x hx
    rw [← hasOrder_iff]
    apply h
    unfold pendIds batchIds txnIds
    exact List.mem_append_right _ (List.mem_map.mpr ⟨x, hx, rfl⟩)
  refine ⟨fun x hx => hm x ?_, fun x hx => hm x ?_, fun x hx => hm x ?_, fun x hx => hm x ?_⟩ <;> simp [hx]

theorem cv_txnExecute (w : World) (t : Txn) (f : FI w (some t)) (c : CV w (some t)) :
    CV (w.txnExecute t).1 (some (w.txnExecute t).2) := by
  have ho := txnExecute_orders w t
  obtain ⟨N, hN, hperm⟩ := C02.execute_queues_each_request_once w t
  refine ⟨?_, pk_txnExecute w t c.pk, ?_, fun M => ((fs_txnExecute M w t (tok_of_ex f.ex)).2 (c.bi M)).1⟩
  · intro oid hoid hf
    have how := (hasOrder_congr w _ ho oid).mp hoid
    have hfw : InFl (St w oid) := by unfold St at hf ⊢; rw [← order!_congr w _ ho oid]; exact hf
    have hin := c.cv oid how hfw
    unfold pendIds batchIds at hin ⊢
    refine List.mem_append_left _ ?_
    rw [hN]
    rcases List.mem_append.mp hin with h | h
    · exact List.mem_append_left _ h
    · exact List.mem_append_right _ (hperm.mem_iff.mpr h)
  · intro t2 ht2 hne
    exfalso; apply hne
    rw [← Option.some.inj ht2]
    unfold txnExecute txnIds; rfl

theorem cv_drop {w : World} {t : Txn} (c : CV w (some t)) (ht : txnIds t = []) : CV w none := by
  refine ⟨fun oid ho hf => ?_, c.pk, (fun t2 ht2 => by cases ht2), c.bi⟩
  have := c.cv oid ho hf
  unfold pendIds batchIds at this ⊢
  simp only [ht] at this
  exact this

theorem cv_ofNone {w : World} (c : CV w none) (t : Txn) (ht : txnIds t = []) : CV w (some t) := by
  refine ⟨fun oid ho hf => ?_, c.pk, (fun t2 ht2 hne => by rw [← Option.some.inj ht2] at hne; exact absurd ht hne), c.bi⟩
  have := c.cv oid ho hf
  unfold pendIds batchIds at this ⊢
  simp only [ht]
  exact this

theorem cv_txnExit (w : World) (t : Txn) (f : FI w (some t)) (c : CV w (some t)) : CV (w.txnExit t) none := by
  unfold txnExit
  split
  · exact cv_drop (cv_txnExecute w t f c) (by unfold txnExecute txnIds; rfl)
  · rename_i hp
    have : txnIds t = [] := by
      by_cases e : txnIds t = []
      · exact e
      · exact absurd (c.fl t rfl e) hp
    exact cv_drop c this

/-! ### scripted strategy actions and whole updates -/

theorem cv_doActionCore (w : World) (mid : Nat) (batch : Option Txn) (a : Action) (h : FIm mid w batch) (c : CV w batch)
    (hloc : a.foreign w mid = false) : CV (w.doActionCore mid batch a).1 (w.doActionCore mid batch a).2.1 := by
  obtain ⟨hf, hex, hbm⟩ := h
  unfold doActionCore
  simp only
  split
  · exact c
  · rename_i hmiss
    have hin : ∀ tg, a.target? = some tg → HasOrder w (tg.resolve w) := by
      intro tg htg
      rw [hasOrder_iff]
      apply target_mem w tg hf.inv
      rw [htg] at hmiss
      simpa using hmiss
    have hlocal : ∀ tg, a.target? = some tg → (w.order! (tg.resolve w)).market = mid := by
      intro tg htg
      unfold Action.foreign at hloc
      rw [htg] at hloc hmiss
      simp only [Option.map_some, Option.getD_some, Bool.not_eq_true] at hmiss
      simp only [hmiss, Bool.not_false, Bool.true_and, decide_eq_false_iff_not, ne_eq, Decidable.not_not] at hloc
      exact hloc
    cases a with
    | create o tr =>
      have hk : ∀ (w' : World), w'.orders = w.orders ++ [{ o with id := w.orders.length, created := w.clock, statusAt := w.clock, status := none, complete := false, log := [] }] →
          w'.markets = w.markets → w'.queue = w.queue → w'.nextPackage = w.nextPackage → CV w' batch := by
        intro w' h1 h2 h3 h4
        have hn : ¬ HasOrder w w.orders.length := Fl.not_hasOrder_len w w hf.inv (Keeps.refl w)
        refine ⟨?_, by unfold PK; rw [h3, h4]; exact c.pk, c.fl, fun M => ((fs_appendOrder M w w' _ rfl h1 h2 (sub_of_eq h3)).2 (c.bi M)).1⟩
        intro oid ho hfl
        by_cases how : HasOrder w oid
        · rw [pendIds_congr h3]
          refine c.cv oid how ?_
          unfold St at hfl ⊢
          rw [← order!_append w w' _ h1 oid how]; exact hfl
        · exfalso
          have hid : oid = w.orders.length := by
            rw [hasOrder_iff] at ho how
            unfold ids at ho how
            rw [h1, List.map_append] at ho
            rcases List.mem_append.mp ho with h | h
            · exact absurd h how
            · simpa using h
          have := Fl.order!_append_new w w' { o with id := w.orders.length, created := w.clock, statusAt := w.clock, status := none, complete := false, log := [] } h1 hn
          unfold St at hfl
          rw [hid] at hfl
          simp only at this
          rw [this] at hfl
          rcases hfl with e | e | e | e <;> cases e
      cases tr with
      | none => exact hk _ rfl rfl rfl rfl
      | some t => exact hk _ rfl rfl rfl rfl
    | place tg v force =>
      have ho := hin tg rfl
      have hmk : (w.order! (tg.resolve w)).market = mid := hlocal tg rfl
      cases batch with
      | some t => exact cv_txnPlace w t (tg.resolve w) v force c ho
      | none =>
        exact cv_txnExit _ _ (fi_txnPlace w _ (tg.resolve w) v force (hf.ofNone _ rfl) ho hmk hex).1
          (cv_txnPlace w _ (tg.resolve w) v force (cv_ofNone c _ rfl) ho)
    | cancel tg red force =>
      have ho := hin tg rfl
      have hmk : (w.order! (tg.resolve w)).market = mid := hlocal tg rfl
      cases batch with
      | some t => exact cv_txnCancel w t (tg.resolve w) red force c ho
      | none =>
        exact cv_txnExit _ _ (fi_txnCancel w _ (tg.resolve w) red force (hf.ofNone _ rfl) ho hmk).1
          (cv_txnCancel w _ (tg.resolve w) red force (cv_ofNone c _ rfl) ho)
    | update tg pers force =>
      have ho := hin tg rfl
      have hmk : (w.order! (tg.resolve w)).market = mid := hlocal tg rfl
      cases batch with
      | some t => exact cv_txnUpdate w t (tg.resolve w) pers force c ho
      | none =>
        exact cv_txnExit _ _ (fi_txnUpdate w _ (tg.resolve w) pers force (hf.ofNone _ rfl) ho hmk).1
          (cv_txnUpdate w _ (tg.resolve w) pers force (cv_ofNone c _ rfl) ho)
    | replace tg price v force =>
      have ho := hin tg rfl
      have hmk : (w.order! (tg.resolve w)).market = mid := hlocal tg rfl
      cases batch with
      | some t => exact cv_txnReplace w t (tg.resolve w) price v force c ho
      | none =>
        exact cv_txnExit _ _ (fi_txnReplace w _ (tg.resolve w) price v force (hf.ofNone _ rfl) ho hmk).1
          (cv_txnReplace w _ (tg.resolve w) price v force (cv_ofNone c _ rfl) ho)
    | batchBegin c0 =>
      cases batch with
      | some t => exact cv_ofNone (cv_txnExit w t hf c) _ rfl
      | none => exact cv_ofNone c _ rfl
    | batchExecute =>
      cases batch with
      | some t => exact cv_txnExecute w t hf c
      | none => exact c
    | batchEnd =>
      cases batch with
      | some t => exact cv_txnExit w t hf c
      | none => exact c

/-- what is carried through the actions of a callback: both invariants -/
def FJ (mid : Nat) (w : World) (b : Option Txn) : Prop := FIm mid w b ∧ CV w b

theorem fj_doAction (w : World) (mid : Nat) (batch : Option Txn) (a : Action) (hz : (w.doAction mid batch a).1.foreign = 0) (h : FJ mid w batch) :
    FJ mid (w.doAction mid batch a).1 (w.doAction mid batch a).2.1 := by
  obtain ⟨hloc, hnote⟩ := doAction_foreign_zero w mid batch a hz
  unfold doAction
  rw [hnote]
  exact ⟨(fi_doActionCore w mid batch a h.1 hloc).1, cv_doActionCore w mid batch a h.1 h.2 hloc⟩

theorem fj_doActions (w : World) (mid : Nat) (as : List Action) (hz : (w.doActions mid as).1.foreign = 0) (f : FI w none) (c : CV w none)
    (hex : (w.market? mid).isSome = true) :
    FI (w.doActions mid as).1 none ∧ CV (w.doActions mid as).1 none ∧ ((w.doActions mid as).1.market? mid).isSome = true := by
  unfold doActions at hz ⊢
  simp only at hz ⊢
  have key := fold_cond (fun (s : World × Option Txn × List String) => s.1.foreign)
    (fun (acc : World × Option Txn × List String) a =>
      ((acc.1.doAction mid acc.2.1 a).1, (acc.1.doAction mid acc.2.1 a).2.1, acc.2.2 ++ [(acc.1.doAction mid acc.2.1 a).2.2]))
    (fun s => FJ mid s.1 s.2.1) (fun s a => doAction_le s.1 mid s.2.1 a) (fun s a h0 hp => fj_doAction s.1 mid s.2.1 a h0 hp) as (w, none, [])
  generalize as.foldl _ (w, none, []) = r at hz key
  obtain ⟨w1, b, outs⟩ := r
  cases b with
  | some t =>
    simp only at hz key ⊢
    have hz1 : w1.foreign = 0 := by rw [txnExit_foreign] at hz; exact hz
    obtain ⟨⟨g1, g2, g3⟩, c1⟩ := key hz1 ⟨⟨f, hex, fun t ht => by cases ht⟩, c⟩
    obtain ⟨e1, _, e3⟩ := fi_txnExit w1 t g1
    exact ⟨e1, cv_txnExit w1 t g1 c1, e3 mid g2⟩
  | none =>
    simp only at hz key ⊢
    obtain ⟨⟨g1, g2, _⟩, c1⟩ := key hz ⟨⟨f, hex, fun t ht => by cases ht⟩, c⟩
    exact ⟨g1, c1, g2⟩

/-- one market update -/
theorem fj_processMarketBook (w : World) (mid : Nat) (book : Book) (script : Nat → List Action)
    (hz : (w.processMarketBook mid book script).1.foreign = 0) (f : FI w none) (c : CV w none) :
    FI (w.processMarketBook mid book script).1 none ∧ CV (w.processMarketBook mid book script).1 none := by
  refine ⟨(fi_processMarketBook w mid book script).2 hz f, ?_⟩
  unfold processMarketBook at hz ⊢
  simp only at hz ⊢
  have q0 : Q w [] w (w.setClock book.pt) := Q.of_eq rfl rfl rfl rfl
  have c0 : CV (w.setClock book.pt) none := cv_calm q0 rfl rfl (fun M => FS.of_eq rfl rfl (fun _ hp => hp)) c
  have f0 := fi_calm q0 f
  generalize w.setClock book.pt = w0 at q0 c0 f0 hz
  have c1 : FI (if w0.queue.isEmpty = true then w0 else w0.checkPendingPackages mid) none ∧
      CV (if w0.queue.isEmpty = true then w0 else w0.checkPendingPackages mid) none := by
    split
    · exact ⟨f0, c0⟩
    · exact ⟨(fi_checkPendingPackages w0 mid f0).1, cv_checkPendingPackages w0 mid f0 c0⟩
  generalize (if w0.queue.isEmpty = true then w0 else w0.checkPendingPackages mid) = w1 at c1 hz
  obtain ⟨f1, c1⟩ := c1
  split
  · exact cv_calm (q_processCloseMarket w1 [] w1 mid book f1.inv) (by simp) (by simp) (fun M => fs_processCloseMarket M w1 mid book) c1
  · rename_i hclosed
    rw [if_neg hclosed] at hz
    have q2 : Q w1 [] w1 (if (w1.market? mid).isNone = true then
          ({ w1 with markets := w1.markets ++ [({ id := mid, book := some book } : Market)] } : World).emit (.marketEvent mid)
        else if (w1.market! mid).closed = true then w1.modifyMarket mid (fun m => { m with closed := false }) else w1) ∧
        CV (if (w1.market? mid).isNone = true then
          ({ w1 with markets := w1.markets ++ [({ id := mid, book := some book } : Market)] } : World).emit (.marketEvent mid)
        else if (w1.market! mid).closed = true then w1.modifyMarket mid (fun m => { m with closed := false }) else w1) none := by
      split
      · rename_i hnone
        have k := (q_appendMarket w1 [] w1 { id := mid, book := some book } hnone rfl rfl).trans (q_emit w1 [] _ (.marketEvent mid))
        exact ⟨k, cv_calm k rfl rfl (fun M => (fs_appendMarket M w1 { id := mid, book := some book } hnone rfl rfl).trans (fs_emit M _ _)) c1⟩
      · split
        · have k := q_modifyMarket w1 [] w1 mid (fun m => { m with closed := false }) (fun _ => ⟨rfl, rfl, rfl⟩)
          exact ⟨k, cv_calm k rfl rfl (fun M => fs_modifyMarket M w1 mid _ (fun _ => ⟨rfl, rfl, rfl⟩)) c1⟩
        · exact ⟨Q.refl w1 [] w1, c1⟩
    have x2 : ((if (w1.market? mid).isNone = true then
          ({ w1 with markets := w1.markets ++ [({ id := mid, book := some book } : Market)] } : World).emit (.marketEvent mid)
        else if (w1.market! mid).closed = true then w1.modifyMarket mid (fun m => { m with closed := false }) else w1).market? mid).isSome = true := by
      split
      · exact appendMarket_isSome w1 { id := mid, book := some book }
      · rename_i hn
        have hs : (w1.market? mid).isSome = true := by
          cases h : w1.market? mid with
          | none => rw [h] at hn; exact absurd rfl hn
          | some x => rfl
        split
        · exact modifyMarket_isSome w1 mid (fun m => { m with closed := false }) (fun _ => rfl) mid hs
        · exact hs
    generalize (if (w1.market? mid).isNone = true then
          ({ w1 with markets := w1.markets ++ [({ id := mid, book := some book } : Market)] } : World).emit (.marketEvent mid)
        else if (w1.market! mid).closed = true then w1.modifyMarket mid (fun m => { m with closed := false }) else w1) = w2 at q2 x2 hz
    obtain ⟨q2, c2⟩ := q2
    have f2 := fi_calm q2 f1
    have q3a := q_modifyMarket w2 [] w2 mid (fun m => { m with book := some book }) (fun _ => ⟨rfl, rfl, rfl⟩)
    have c3a := cv_calm q3a rfl rfl (fun M => fs_modifyMarket M w2 mid (fun m => { m with book := some book }) (fun _ => ⟨rfl, rfl, rfl⟩)) c2
    have f3a := fi_calm q3a f2
    have x3a := modifyMarket_isSome w2 mid (fun m => { m with book := some book }) (fun _ => rfl) mid x2
    generalize w2.modifyMarket mid (fun m => { m with book := some book }) = w2b at q3a c3a f3a x3a hz
    have q3 := q_simulatedMiddleware w2b [] w2b mid f3a.inv
    have c3 := cv_calm q3 (by simp) (by simp) (fun M => fs_simulatedMiddleware M w2b mid) c3a
    have f3 := fi_calm q3 f3a
    have x3 := q3.mx mid x3a
    generalize w2b.simulatedMiddleware mid = w3 at q3 c3 f3 x3 hz
    have c4 : FI (if (w3.market! mid).active = true then w3.processSimulatedOrders mid else w3) none ∧
        CV (if (w3.market! mid).active = true then w3.processSimulatedOrders mid else w3) none ∧
        ((if (w3.market! mid).active = true then w3.processSimulatedOrders mid else w3).market? mid).isSome = true := by
      split
      · have k := q_processSimulatedOrders w3 [] w3 mid f3.inv
        exact ⟨fi_calm k f3, cv_calm k (by simp) (by simp) (fun M => fs_processSimulatedOrders M w3 mid) c3, k.mx mid x3⟩
      · exact ⟨f3, c3, x3⟩
    generalize (if (w3.market! mid).active = true then w3.processSimulatedOrders mid else w3) = w4 at c4 hz
    have hle : ∀ (acc : World × List (Nat × List String)) (s : Strategy), acc.1.foreign ≤
        (if s.streams.contains book.streamId = true then
          (((if (w1.market? mid).isNone = true then acc.1.emit (.newMarket s.id mid) else acc.1).emit (.bookCallback s.id mid book.pt)).doActions mid (script s.id)).1
        else acc.1).foreign := by
      intro acc s
      split
      · refine Nat.le_trans ?_ (doActions_le _ mid _)
        split <;> simp
      · exact Nat.le_refl _
    refine (fold_cond_pair _ (fun w => FI w none ∧ CV w none ∧ (w.market? mid).isSome = true) ?_ ?_ w4.strategies (w4, ([] : List (Nat × List String))) hz c4).2.1
    · intro acc s
      obtain ⟨wa, outs⟩ := acc
      simp only
      have := hle (wa, outs) s
      split
      · rename_i hc; rw [if_pos hc] at this; exact this
      · exact Nat.le_refl _
    · intro acc s
      obtain ⟨wa, outs⟩ := acc
      simp only
      split
      · intro h0 hp
        have k : Q wa [] wa ((if (w1.market? mid).isNone = true then wa.emit (.newMarket s.id mid) else wa).emit (.bookCallback s.id mid book.pt)) := by
          refine Q.trans ?_ (q_emit wa [] _ _)
          split
          · exact q_emit wa [] _ _
          · exact Q.refl wa [] wa
        have hfs : ∀ M, FS M wa ((if (w1.market? mid).isNone = true then wa.emit (.newMarket s.id mid) else wa).emit (.bookCallback s.id mid book.pt)) := by
          intro M
          refine FS.trans ?_ (fs_emit M _ _)
          split
          · exact fs_emit M _ _
          · exact FS.refl M wa
        exact fj_doActions _ mid _ h0 (fi_calm k hp.1) (cv_calm k (by split <;> rfl) (by split <;> rfl) hfs hp.2.1) (k.mx mid hp.2.2)
      · intro _ hp; exact hp

/-- any run -/
theorem fj_runUpdates (w : World) (us : List (Nat × Book × (Nat → List Action))) (hz : (runUpdates w us).foreign = 0) (f : FI w none) (c : CV w none) :
    FI (runUpdates w us) none ∧ CV (runUpdates w us) none := by
  unfold runUpdates at hz ⊢
  exact fold_cond (fun w : World => w.foreign) (fun w (u : Nat × Book × (Nat → List Action)) => (w.processMarketBook u.1 u.2.1 u.2.2).1)
    (fun w => FI w none ∧ CV w none)
    (fun w u => (fi_processMarketBook w u.1 u.2.1 u.2.2).1) (fun w u h0 hp => fj_processMarketBook w u.1 u.2.1 u.2.2 h0 hp.1 hp.2) us w hz ⟨f, c⟩

theorem cv_empty (cfg : Config) (cl : List Client) (ss : List Strategy) : CV { cfg := cfg, clients := cl, strategies := ss } none := by
  refine ⟨?_, ?_, (fun t ht => by cases ht), fun M => bi_empty M cfg cl ss⟩
  · intro oid h; obtain ⟨o, ho⟩ := h; simp at ho
  · unfold PK; simp

/-- in every world reachable by a run without foreign requests: an order in flight is listed in exactly one queued package -/
theorem strand_reachable (cfg : Config) (cl : List Client) (ss : List Strategy) (us : List (Nat × Book × (Nat → List Action)))
    (hz : (runUpdates { cfg := cfg, clients := cl, strategies := ss } us).foreign = 0) :
    FI (runUpdates { cfg := cfg, clients := cl, strategies := ss } us) none ∧ CV (runUpdates { cfg := cfg, clients := cl, strategies := ss } us) none :=
  fj_runUpdates _ us hz (fi_empty cfg cl ss) (cv_empty cfg cl ss)

end Flumine.Strand
