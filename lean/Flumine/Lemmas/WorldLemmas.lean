/- Lemmas/WorldLemmas.lean — lookups after functional updates of the world. -/
import Flumine.SimLoop
namespace Flumine.C15
open Flumine Flumine.World

theorem find_map_modify (l : List Market) (mid : Nat) (f : Market → Market) (m : Market)
    (hm : l.find? (fun x => decide (x.id = mid)) = some m) (hf : (f m).id = m.id) :
    (l.map fun x => if x.id = mid then f x else x).find? (fun x => decide (x.id = mid)) = some (f m) := by
  induction l with
  | nil => simp at hm
  | cons x xs ih =>
    rw [List.map_cons]
    by_cases hx : x.id = mid
    · rw [List.find?_cons] at hm
      simp only [hx, decide_true] at hm
      have hxm : x = m := Option.some.inj hm
      subst hxm
      have hid : (f x).id = mid := by rw [hf, hx]
      rw [if_pos hx, List.find?_cons]
      simp [hid]
    · rw [List.find?_cons] at hm
      simp only [hx, decide_false] at hm
      rw [if_neg hx, List.find?_cons]
      simp only [hx, decide_false]
      exact ih hm

theorem market_modify_self (w : World) (mid : Nat) (f : Market → Market) (m : Market)
    (hm : w.markets.find? (fun x => decide (x.id = mid)) = some m) (hf : (f m).id = m.id) :
    (w.modifyMarket mid f).market? mid = some (f m) := by
  unfold modifyMarket market?
  exact find_map_modify w.markets mid f m hm hf


end Flumine.C15
