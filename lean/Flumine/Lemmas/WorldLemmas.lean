/- Lemmas/WorldLemmas.lean — lookups after functional updates of the world. -/
import Flumine.SimLoop
import Mathlib.Tactic.SplitIfs
namespace Flumine.C15
open Flumine Flumine.World

theorem find_map_modify (l : List Market) (mid : Nat) (f : Market → Market) (m : Market)
    (hm : l.find? (fun x => decide (x.id = mid)) = some m) (hf : (f m).id = m.id) :
    (l.map fun x => if x.id = mid then f x else x).find? (fun x => decide (x.id = mid)) = some (f m) := by
  induction l with
  | nil => simp at hm
  | cons x xs ih =>
    rw [List.map_cons]
    by_cases hx : x.id = mid
    · rw [List.find?_cons] at hm
      simp only [hx, decide_true] at hm
      have hxm : x = m := Option.some.inj hm
      subst hxm
      have hid : (f x).id = mid := by rw [hf, hx]
      rw [if_pos hx, List.find?_cons]
      simp [hid]
    · rw [List.find?_cons] at hm
      simp only [hx, decide_false] at hm
      rw [if_neg hx, List.find?_cons]
      simp only [hx, decide_false]
      exact ih hm

theorem market_modify_self (w : World) (mid : Nat) (f : Market → Market) (m : Market)
    (hm : w.markets.find? (fun x => decide (x.id = mid)) = some m) (hf : (f m).id = m.id) :
    (w.modifyMarket mid f).market? mid = some (f m) := by
  unfold modifyMarket market?
  exact find_map_modify w.markets mid f m hm hf


/-- C15.2 the only statuses with which an order can be absent from the live list are complete ones:
    the simulation loop's per-order step removes an order from the live list only if it is (or has
    just been made) complete -/
def loopStep (mid : Nat) (w : World) (oid : Nat) : World :=
  let o := w.order! oid
  if o.complete then w.blotterComplete mid oid
  else match o.sim.kind with
    | .limit =>
      if o.sim.sizeRemaining = 0 then (w.orderExecutionComplete oid).blotterComplete mid oid else w
    | _ =>
      if o.sim.simStatus = .executionComplete then (w.orderExecutionComplete oid).blotterComplete mid oid else w

theorem loopStep_keeps_or_completes (mid : Nat) (w : World) (oid : Nat) :
    loopStep mid w oid = w ∨
    (w.order! oid).complete = true ∧ loopStep mid w oid = w.blotterComplete mid oid ∨
    loopStep mid w oid = (w.orderExecutionComplete oid).blotterComplete mid oid := by
  unfold loopStep
  simp only
  by_cases hc : (w.order! oid).complete = true
  · right; left; simp [hc]
  · simp only [hc, Bool.false_eq_true, if_false]
    split
    · split_ifs
      · right; right; rfl
      · left; rfl
    · split_ifs
      · right; right; rfl
      · left; rfl


end Flumine.C15
