/- Lemmas/Strat.lean — the list of strategies is constant: no function of
   the model changes it. -/
import Flumine.SimLoop
import Flumine.Lemmas.Inv
import Mathlib.Tactic.SplitIfs
namespace Flumine.Strat
open Flumine Flumine.World

@[simp] theorem modifyOrder_strategies (w : World) (a : Nat) (f : Order → Order) : (w.modifyOrder a f).strategies = w.strategies := rfl
@[simp] theorem setOrder_strategies (w : World) (o : Order) : (w.setOrder o).strategies = w.strategies := rfl
@[simp] theorem setTrade_strategies (w : World) (t : Trade) : (w.setTrade t).strategies = w.strategies := rfl
@[simp] theorem setMarket_strategies (w : World) (m : Market) : (w.setMarket m).strategies = w.strategies := rfl
@[simp] theorem setClient_strategies (w : World) (c : Client) : (w.setClient c).strategies = w.strategies := rfl
@[simp] theorem modifyMarket_strategies (w : World) (a : Nat) (f : Market → Market) : (w.modifyMarket a f).strategies = w.strategies := rfl
@[simp] theorem emit_strategies (w : World) (e : Ev) : (w.emit e).strategies = w.strategies := rfl
@[simp] theorem bumpBetId_strategies (w : World) : w.bumpBetId.strategies = w.strategies := rfl
@[simp] theorem addTransaction_strategies (w : World) (c n : Nat) (f : Bool) : (w.addTransaction c n f).strategies = w.strategies := rfl
@[simp] theorem blotterAdd_strategies (w : World) (m o : Nat) : (w.blotterAdd m o).strategies = w.strategies := rfl
@[simp] theorem blotterComplete_strategies (w : World) (m o : Nat) : (w.blotterComplete m o).strategies = w.strategies := rfl
@[simp] theorem setClock_strategies (w : World) (t : Time) : (w.setClock t).strategies = w.strategies := rfl

@[simp] theorem setCtx_strategies (w : World) (c : RunnerCtx) : (w.setCtx c).strategies = w.strategies := by
  unfold setCtx; split <;> rfl
@[simp] theorem ctxPlace_strategies (w : World) (k : CtxKey) (t : Nat) : (w.ctxPlace k t).strategies = w.strategies := setCtx_strategies _ _
@[simp] theorem ctxReset_strategies (w : World) (k : CtxKey) (t : Nat) : (w.ctxReset k t).strategies = w.strategies := setCtx_strategies _ _
@[simp] theorem completeTrade_strategies (w : World) (tid : Nat) : (w.completeTrade tid).strategies = w.strategies := by
  unfold completeTrade; simp
@[simp] theorem tradeUpdateStatus_strategies (w : World) (tid : Nat) (s : TradeStatus) : (w.tradeUpdateStatus tid s).strategies = w.strategies := by
  unfold tradeUpdateStatus
  simp only
  split <;> simp
@[simp] theorem tradeEnter_strategies (w : World) (tid : Nat) : (w.tradeEnter tid).strategies = w.strategies := tradeUpdateStatus_strategies _ _ _
@[simp] theorem tradeExit_strategies (w : World) (tid : Nat) : (w.tradeExit tid).strategies = w.strategies := tradeUpdateStatus_strategies _ _ _
@[simp] theorem orderUpdateStatus_strategies (w : World) (oid : Nat) (s : Status) : (w.orderUpdateStatus oid s).strategies = w.strategies := by
  unfold orderUpdateStatus
  simp only
  split <;> simp
@[simp] theorem orderExecutable_strategies (w : World) (oid : Nat) : (w.orderExecutable oid).strategies = w.strategies := by
  unfold orderExecutable; split <;> simp
@[simp] theorem orderExecutionComplete_strategies (w : World) (oid : Nat) : (w.orderExecutionComplete oid).strategies = w.strategies := by
  unfold orderExecutionComplete; simp
@[simp] theorem orderViolation_strategies (w : World) (oid : Nat) (m : String) : (w.orderViolation oid m).strategies = w.strategies := by
  unfold orderViolation; split <;> simp
@[simp] theorem orderPlacing_strategies (w : World) (oid : Nat) : (w.orderPlacing oid).strategies = w.strategies := orderUpdateStatus_strategies _ _ _

theorem foldl_strategies {α} (f : World → α → World) (hf : ∀ w a, (f w a).strategies = w.strategies) (l : List α) (w : World) :
    (l.foldl f w).strategies = w.strategies := by
  induction l generalizing w with
  | nil => rfl
  | cons a as ih => rw [List.foldl_cons, ih, hf]

theorem foldl_pair_strategies {α β} (f : World × β → α → World × β) (hf : ∀ acc a, (f acc a).1.strategies = acc.1.strategies) (l : List α) (acc : World × β) :
    (l.foldl f acc).1.strategies = acc.1.strategies := by
  induction l generalizing acc with
  | nil => rfl
  | cons a as ih => rw [List.foldl_cons, ih, hf]

theorem orderCancel_strategies (w w' : World) (a : Nat) (r : Option Rat) (h : w.orderCancel a r = .ok w') : w'.strategies = w.strategies := by
  unfold orderCancel at h
  simp only at h
  split_ifs at h
  have := (Except.ok.inj h).symm
  subst this
  unfold orderCancelling; simp
theorem orderUpdate_strategies (w w' : World) (a : Nat) (p : String) (h : w.orderUpdate a p = .ok w') : w'.strategies = w.strategies := by
  unfold orderUpdate at h
  simp only at h
  split_ifs at h
  have := (Except.ok.inj h).symm
  subst this
  unfold orderUpdating; simp
theorem orderReplace_strategies (w w' : World) (a : Nat) (p : Rat) (h : w.orderReplace a p = .ok w') : w'.strategies = w.strategies := by
  unfold orderReplace at h
  simp only at h
  split_ifs at h
  have := (Except.ok.inj h).symm
  subst this
  unfold orderReplacing; simp

@[simp] theorem validateControls_strategies (w : World) (oid cid : Nat) (k : PackKind) : (w.validateControls oid cid k).1.strategies = w.strategies := by
  unfold validateControls
  simp only
  repeat' split
  all_goals simp

theorem addPackage_strategies (k : PackKind) (t : Txn) (d bd : Rat) (w : World) (vc : Option Int × List Nat) :
    (addPackage k t d bd w vc).strategies = w.strategies := rfl

@[simp] theorem createPackages_strategies (w : World) (t : Txn) (p : List (Nat × Option Int)) (k : PackKind) :
    (w.createPackages t p k).strategies = w.strategies := by
  unfold createPackages
  exact foldl_strategies _ (fun w vc => addPackage_strategies k t _ _ w vc) _ w

@[simp] theorem txnExecute_strategies (w : World) (t : Txn) : (w.txnExecute t).1.strategies = w.strategies := by
  unfold txnExecute
  simp only
  have h : ∀ (w : World) (c : Bool) (p : List (Nat × Option Int)) (k : PackKind), (if c then w else w.createPackages t p k).strategies = w.strategies := by
    intro w c p k; split <;> simp
  rw [h, h, h, h]

@[simp] theorem txnExit_strategies (w : World) (t : Txn) : (w.txnExit t).strategies = w.strategies := by
  unfold txnExit; split <;> simp

@[simp] theorem txnPlace_strategies (w : World) (t : Txn) (oid : Nat) (v : Option Int) (ex force : Bool) :
    (w.txnPlace t oid v ex force).1.strategies = w.strategies := by
  unfold txnPlace
  simp only
  have hv : (if (ex && !force) = true then (w.modifyOrder oid fun o => { o with client := some t.client }).validateControls oid t.client .place
      else (w.modifyOrder oid fun o => { o with client := some t.client }, none)).1.strategies = w.strategies := by
    split <;> simp
  generalize (if (ex && !force) = true then (w.modifyOrder oid fun o => { o with client := some t.client }).validateControls oid t.client .place
    else (w.modifyOrder oid fun o => { o with client := some t.client }, none)) = vr at hv
  obtain ⟨w1, r⟩ := vr
  simp only at hv ⊢
  cases r with
  | some r => exact hv
  | none =>
    simp only
    repeat' split
    all_goals simp [hv]

theorem txnCancel_strategies (w : World) (t : Txn) (oid : Nat) (red : Option Rat) (f : Bool) : (w.txnCancel t oid red f).1.strategies = w.strategies := by
  unfold txnCancel
  simp only
  split
  · rfl
  · have hv : (if (!f) = true then w.validateControls oid t.client .cancel else (w, none)).1.strategies = w.strategies := by split <;> simp
    generalize (if (!f) = true then w.validateControls oid t.client .cancel else (w, none)) = vr at hv
    obtain ⟨w1, r⟩ := vr
    cases r with
    | some r => exact hv
    | none =>
      simp only at hv ⊢
      cases h : w1.orderCancel oid red with
      | error e => exact hv
      | ok w2 => exact (orderCancel_strategies w1 w2 oid red h).trans hv

theorem txnUpdate_strategies (w : World) (t : Txn) (oid : Nat) (p : String) (f : Bool) : (w.txnUpdate t oid p f).1.strategies = w.strategies := by
  unfold txnUpdate
  simp only
  split
  · rfl
  · have hv : (if (!f) = true then w.validateControls oid t.client .update else (w, none)).1.strategies = w.strategies := by split <;> simp
    generalize (if (!f) = true then w.validateControls oid t.client .update else (w, none)) = vr at hv
    obtain ⟨w1, r⟩ := vr
    cases r with
    | some r => exact hv
    | none =>
      simp only at hv ⊢
      cases h : w1.orderUpdate oid p with
      | error e => exact hv
      | ok w2 => exact (orderUpdate_strategies w1 w2 oid p h).trans hv

theorem txnReplace_strategies (w : World) (t : Txn) (oid : Nat) (p : Rat) (v : Option Int) (f : Bool) : (w.txnReplace t oid p v f).1.strategies = w.strategies := by
  unfold txnReplace
  simp only
  split
  · rfl
  · have hv : (if (!f) = true then w.validateControls oid t.client .replace else (w, none)).1.strategies = w.strategies := by split <;> simp
    generalize (if (!f) = true then w.validateControls oid t.client .replace else (w, none)) = vr at hv
    obtain ⟨w1, r⟩ := vr
    cases r with
    | some r => exact hv
    | none =>
      simp only at hv ⊢
      cases h : w1.orderReplace oid p with
      | error e => exact hv
      | ok w2 => exact (orderReplace_strategies w1 w2 oid p h).trans hv

/-! ### simulated execution -/

@[simp] theorem logPlaced_strategies (w : World) (oid : Nat) (b : Option Nat) : (w.logPlaced oid b).strategies = w.strategies := by
  unfold logPlaced; cases b <;> simp

@[simp] theorem placeStep_strategies (p : Package) (w : World) (oid : Nat) : (placeStep p w oid).strategies = w.strategies := by
  unfold placeStep
  simp only
  split <;> simp

@[simp] theorem cancelStep_strategies (p : Package) (acc : World × Nat) (oid : Nat) : (cancelStep p acc oid).1.strategies = acc.1.strategies := by
  obtain ⟨w, failed⟩ := acc
  unfold cancelStep
  simp only
  repeat' split
  all_goals simp

@[simp] theorem updateStep_strategies (p : Package) (acc : World × Nat) (oid : Nat) : (updateStep p acc oid).1.strategies = acc.1.strategies := by
  obtain ⟨w, failed⟩ := acc
  unfold updateStep
  simp

@[simp] theorem createReplacement_strategies (w : World) (oid : Nat) (np sz : Rat) (cr : Time) : (w.createReplacement oid np sz cr).1.strategies = w.strategies := rfl

@[simp] theorem replacePlace_strategies (p : Package) (w : World) (o : Order) (oid : Nat) (book : Book) (np : Option Rat) (sc : Rat) (failed : Nat) :
    (replacePlace p w o oid book np sc failed).1.strategies = w.strategies := by
  unfold replacePlace
  simp only
  split <;> simp

@[simp] theorem replaceStep_strategies (p : Package) (acc : World × Nat) (pr : Nat × Option Rat) : (replaceStep p acc pr).1.strategies = acc.1.strategies := by
  obtain ⟨w, failed⟩ := acc
  obtain ⟨oid, np⟩ := pr
  unfold replaceStep
  simp only
  split <;> simp

@[simp] theorem executePackage_strategies (w : World) (p : Package) : (w.executePackage p).strategies = w.strategies := by
  unfold executePackage
  cases p.kind with
  | place =>
    simp only; unfold executePlace
    simp only [addTransaction_strategies]
    exact foldl_strategies _ (fun w oid => placeStep_strategies p w oid) _ w
  | cancel =>
    simp only; unfold executeCancel
    simp only
    have := foldl_pair_strategies (cancelStep p) (fun acc oid => cancelStep_strategies p acc oid) (w.packageOrders p) (w, 0)
    generalize (w.packageOrders p).foldl (cancelStep p) (w, 0) = r at this
    obtain ⟨w1, failed⟩ := r
    simp only at this ⊢
    split <;> simp [this]
  | update =>
    simp only; unfold executeUpdate
    simp only
    have := foldl_pair_strategies (updateStep p) (fun acc oid => updateStep_strategies p acc oid) (w.packageOrders p) (w, 0)
    generalize (w.packageOrders p).foldl (updateStep p) (w, 0) = r at this
    obtain ⟨w1, failed⟩ := r
    simp only at this ⊢
    split <;> simp [this]
  | replace =>
    simp only; unfold executeReplace
    simp only
    generalize (((w.packageOrders p).filter fun oid => (w.order! oid).status ≠ some .executionComplete).map fun oid => (oid, (w.order! oid).ud.newPrice)) = zs
    have := foldl_pair_strategies (replaceStep p) (fun acc pr => replaceStep_strategies p acc pr) zs (w, 0)
    generalize zs.foldl (replaceStep p) (w, 0) = r at this
    obtain ⟨w1, failed⟩ := r
    simp only at this ⊢
    split <;> simp [this]

@[simp] theorem checkPendingPackages_strategies (w : World) (mid : Nat) : (w.checkPendingPackages mid).strategies = w.strategies := by
  unfold checkPendingPackages
  simp only
  exact foldl_strategies _ (fun w p => executePackage_strategies w p) _ w

/-! ### middleware, completion loop, closure -/

@[simp] theorem processRunnerRemoval_strategies (w : World) (mid rsel : Nat) (rhc : Rat) (raf : Option Rat) :
    (w.processRunnerRemoval mid rsel rhc raf).strategies = w.strategies := by
  unfold processRunnerRemoval
  simp only
  exact foldl_strategies (fun w1 oid => w1.modifyOrder oid (w1.removalOnOrder (w.market! mid) rsel rhc raf)) (fun w oid => rfl) _ w

@[simp] theorem matchStep_strategies (mid : Nat) (r : Bool) (acc : World × List (Nat × Rat × List (Rat × Rat))) (o0 : Order) :
    (matchStep mid r acc o0).1.strategies = acc.1.strategies := by
  obtain ⟨w, lk⟩ := acc
  unfold matchStep
  simp only
  repeat' split
  all_goals simp

@[simp] theorem matchOrders_strategies (w : World) (mid : Nat) (l : List Order) (r : Bool) : (w.matchOrders mid l r).strategies = w.strategies := by
  unfold matchOrders
  exact foldl_pair_strategies _ (fun acc o => matchStep_strategies mid r acc o) l _

@[simp] theorem matchStrategy_strategies (mid : Nat) (w : World) (sid : Nat) : (matchStrategy mid w sid).strategies = w.strategies := by
  unfold matchStrategy
  simp only
  split <;> simp

@[simp] theorem mwProcessSimulatedOrders_strategies (w : World) (mid : Nat) : (w.mwProcessSimulatedOrders mid).strategies = w.strategies := by
  unfold mwProcessSimulatedOrders
  simp only
  split
  · exact foldl_strategies _ (fun w sid => matchStrategy_strategies mid w sid) _ w
  · split <;> simp

@[simp] theorem mwUpdateAnalytics_strategies (w : World) (mid : Nat) : (w.mwUpdateAnalytics mid).1.strategies = w.strategies := rfl

@[simp] theorem simulatedMiddleware_strategies (w : World) (mid : Nat) : (w.simulatedMiddleware mid).strategies = w.strategies := by
  unfold simulatedMiddleware
  simp only
  have h : (List.foldl (fun w (k : Nat × Rat × Option Rat) => w.processRunnerRemoval mid k.1 k.2.1 k.2.2) (w.mwUpdateAnalytics mid).1 (w.mwUpdateAnalytics mid).2).strategies = w.strategies := by
    rw [foldl_strategies (fun w (k : Nat × Rat × Option Rat) => w.processRunnerRemoval mid k.1 k.2.1 k.2.2) (fun w k => processRunnerRemoval_strategies w mid k.1 k.2.1 k.2.2)]; rfl
  split <;> simp [h]

@[simp] theorem processSimulatedOrders_strategies (w : World) (mid : Nat) : (w.processSimulatedOrders mid).strategies = w.strategies := by
  unfold processSimulatedOrders
  simp only
  rw [foldl_strategies, foldl_strategies]
  · intro w oid
    repeat' split
    all_goals simp
  · intro w s
    split <;> simp

@[simp] theorem blotterProcessClosed_strategies (w : World) (mid : Nat) (book : Book) : (w.blotterProcessClosed mid book).strategies = w.strategies := by
  unfold blotterProcessClosed
  simp only
  apply foldl_strategies
  intro w oid
  split <;> simp

@[simp] theorem processCloseMarket_strategies (w : World) (mid : Nat) (book : Book) : (w.processCloseMarket mid book).strategies = w.strategies := by
  unfold processCloseMarket
  split
  · rfl
  · simp only
    split <;> simp

/-! ### scripted actions and whole updates: the counter never decreases -/

theorem doActionCore_strategies (w : World) (mid : Nat) (batch : Option Txn) (a : Action) : (w.doActionCore mid batch a).1.strategies = w.strategies := by
  unfold doActionCore
  simp only
  split
  · rfl
  · cases a with
    | create o tr => cases tr <;> rfl
    | place tg v force => cases batch <;> simp
    | cancel tg red force => cases batch <;> simp [txnCancel_strategies]
    | update tg pers force => cases batch <;> simp [txnUpdate_strategies]
    | replace tg price v force => cases batch <;> simp [txnReplace_strategies]
    | batchBegin c => cases batch <;> simp
    | batchExecute => cases batch <;> simp
    | batchEnd => cases batch <;> simp

@[simp] theorem noteForeign_strategies (w : World) (mid : Nat) (a : Action) : (w.noteForeign mid a).strategies = w.strategies := by
  unfold noteForeign; split <;> rfl

@[simp] theorem doAction_strategies (w : World) (mid : Nat) (batch : Option Txn) (a : Action) : (w.doAction mid batch a).1.strategies = w.strategies := by
  unfold doAction; rw [doActionCore_strategies]; simp

@[simp] theorem doActions_strategies (w : World) (mid : Nat) (as : List Action) : (w.doActions mid as).1.strategies = w.strategies := by
  unfold doActions
  simp only
  have : ∀ (l : List Action) (acc : World × Option Txn × List String),
      (l.foldl (fun (acc : World × Option Txn × List String) a =>
        ((acc.1.doAction mid acc.2.1 a).1, (acc.1.doAction mid acc.2.1 a).2.1, acc.2.2 ++ [(acc.1.doAction mid acc.2.1 a).2.2])) acc).1.strategies = acc.1.strategies := by
    intro l
    induction l with
    | nil => intro acc; rfl
    | cons a as ih => intro acc; rw [List.foldl_cons, ih]; simp
  have h := this as (w, none, [])
  generalize as.foldl _ (w, none, []) = r at h
  obtain ⟨w1, b, outs⟩ := r
  cases b with
  | some t => simpa using h
  | none => exact h


@[simp] theorem setClock_strategies' (w : World) (t : Time) : (w.setClock t).strategies = w.strategies := rfl

theorem processMarketBook_strategies (w : World) (mid : Nat) (book : Book) (script : Nat → List Action) :
    (w.processMarketBook mid book script).1.strategies = w.strategies := by
  unfold processMarketBook
  simp only
  have h1 : (if (w.setClock book.pt).queue.isEmpty = true then w.setClock book.pt else (w.setClock book.pt).checkPendingPackages mid).strategies = w.strategies := by
    split <;> simp
  generalize (if (w.setClock book.pt).queue.isEmpty = true then w.setClock book.pt else (w.setClock book.pt).checkPendingPackages mid) = w1 at h1
  split
  · simp [h1]
  · have h2 : (if (w1.market? mid).isNone = true then
          ({ w1 with markets := w1.markets ++ [({ id := mid, book := some book } : Market)] } : World).emit (.marketEvent mid)
        else if (w1.market! mid).closed = true then w1.modifyMarket mid (fun m => { m with closed := false }) else w1).strategies = w.strategies := by
      split
      · exact h1
      · split
        · exact h1
        · exact h1
    generalize (if (w1.market? mid).isNone = true then
          ({ w1 with markets := w1.markets ++ [({ id := mid, book := some book } : Market)] } : World).emit (.marketEvent mid)
        else if (w1.market! mid).closed = true then w1.modifyMarket mid (fun m => { m with closed := false }) else w1) = w2 at h2
    have h3 : ((w2.modifyMarket mid fun m => { m with book := some book }).simulatedMiddleware mid).strategies = w.strategies := by simp [h2]
    generalize (w2.modifyMarket mid fun m => { m with book := some book }).simulatedMiddleware mid = w3 at h3
    have h4 : (if (w3.market! mid).active = true then w3.processSimulatedOrders mid else w3).strategies = w.strategies := by
      split <;> simp [h3]
    generalize (if (w3.market! mid).active = true then w3.processSimulatedOrders mid else w3) = w4 at h4
    have key : ∀ (l : List Strategy) (acc : World × List (Nat × List String)),
        (l.foldl (fun (acc : World × List (Nat × List String)) s =>
          if s.streams.contains book.streamId = true then
            ((((if (w1.market? mid).isNone = true then acc.1.emit (.newMarket s.id mid) else acc.1).emit (.bookCallback s.id mid book.pt)).doActions mid (script s.id)).1,
              acc.2 ++ [(s.id, (((if (w1.market? mid).isNone = true then acc.1.emit (.newMarket s.id mid) else acc.1).emit (.bookCallback s.id mid book.pt)).doActions mid (script s.id)).2)])
          else acc) acc).1.strategies = acc.1.strategies := by
      intro l
      induction l with
      | nil => intro acc; rfl
      | cons s rest ih =>
        intro acc
        rw [List.foldl_cons, ih]
        split
        · simp only [doActions_strategies, emit_strategies]
          split <;> rfl
        · rfl
    rw [← h4]
    exact key w4.strategies (w4, [])

theorem runUpdates_strategies (w : World) (us : List (Nat × Book × (Nat → List Action))) : (Inv.runUpdates w us).strategies = w.strategies := by
  unfold Inv.runUpdates
  induction us generalizing w with
  | nil => rfl
  | cons u rest ih => rw [List.foldl_cons, ih, processMarketBook_strategies]

end Flumine.Strat
