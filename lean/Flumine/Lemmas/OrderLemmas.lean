/- Lemmas/OrderLemmas.lean — looking an order up after the world's functional updates. -/
import Flumine.SimLoop
namespace Flumine.OL
open Flumine Flumine.World

/-- the order id is present in the world's order table -/
def HasOrder (w : World) (oid : Nat) : Prop := ∃ o, w.orders.find? (fun x => decide (x.id = oid)) = some o

theorem order!_of_find (w : World) (oid : Nat) (o : Order) (h : w.orders.find? (fun x => decide (x.id = oid)) = some o) :
    w.order! oid = o := by
  unfold order! order?; rw [h]; rfl

theorem order!_id (w : World) (oid : Nat) (h : HasOrder w oid) : (w.order! oid).id = oid := by
  obtain ⟨o, ho⟩ := h
  rw [order!_of_find w oid o ho]
  have := List.find?_some ho
  simpa using this

theorem order!_congr (w w' : World) (h : w'.orders = w.orders) (oid : Nat) : w'.order! oid = w.order! oid := by
  unfold order! order?; rw [h]

theorem hasOrder_congr (w w' : World) (h : w'.orders = w.orders) (oid : Nat) : HasOrder w' oid ↔ HasOrder w oid := by
  unfold HasOrder; rw [h]

theorem find_map_self (l : List Order) (oid : Nat) (f : Order → Order) (o : Order)
    (h : l.find? (fun x => decide (x.id = oid)) = some o) (hf : ∀ x, x.id = oid → (f x).id = oid) :
    (l.map fun x => if x.id = oid then f x else x).find? (fun x => decide (x.id = oid)) = some (f o) := by
  induction l with
  | nil => simp at h
  | cons x xs ih =>
    rw [List.map_cons]
    by_cases hx : x.id = oid
    · rw [List.find?_cons] at h
      simp only [hx, decide_true] at h
      have hxo : x = o := Option.some.inj h
      subst hxo
      rw [if_pos hx, List.find?_cons]
      simp [hf x hx]
    · rw [List.find?_cons] at h
      simp only [hx, decide_false] at h
      rw [if_neg hx, List.find?_cons]
      simp only [hx, decide_false]
      exact ih h

theorem find_map_other (l : List Order) (oid a : Nat) (f : Order → Order) (hne : oid ≠ a)
    (hf : ∀ x, x.id = a → (f x).id = a) :
    (l.map fun x => if x.id = a then f x else x).find? (fun x => decide (x.id = oid)) =
      l.find? (fun x => decide (x.id = oid)) := by
  induction l with
  | nil => rfl
  | cons x xs ih =>
    rw [List.map_cons]
    by_cases hx : x.id = a
    · rw [if_pos hx, List.find?_cons, List.find?_cons]
      have h1 : (f x).id ≠ oid := by rw [hf x hx]; exact fun e => hne e.symm
      have h2 : x.id ≠ oid := by rw [hx]; exact fun e => hne e.symm
      simp only [h1, h2, decide_false]
      exact ih
    · rw [if_neg hx, List.find?_cons, List.find?_cons]
      by_cases hy : x.id = oid
      · simp [hy]
      · simp only [hy, decide_false]; exact ih

theorem order!_modify_self (w : World) (oid : Nat) (f : Order → Order) (h : HasOrder w oid)
    (hf : ∀ x, x.id = oid → (f x).id = oid) : (w.modifyOrder oid f).order! oid = f (w.order! oid) := by
  obtain ⟨o, ho⟩ := h
  rw [order!_of_find w oid o ho]
  apply order!_of_find
  unfold modifyOrder
  exact find_map_self w.orders oid f o ho hf

theorem order!_modify_other (w : World) (oid a : Nat) (f : Order → Order) (hne : oid ≠ a)
    (hf : ∀ x, x.id = a → (f x).id = a) : (w.modifyOrder a f).order! oid = w.order! oid := by
  unfold order! order? modifyOrder
  simp only
  rw [find_map_other w.orders oid a f hne hf]

theorem hasOrder_modify (w : World) (oid a : Nat) (f : Order → Order) (h : HasOrder w oid)
    (hf : ∀ x, x.id = a → (f x).id = a) : HasOrder (w.modifyOrder a f) oid := by
  by_cases e : oid = a
  · subst e
    obtain ⟨o, ho⟩ := h
    exact ⟨f o, find_map_self w.orders oid f o ho hf⟩
  · obtain ⟨o, ho⟩ := h
    refine ⟨o, ?_⟩
    unfold modifyOrder
    simp only
    rw [find_map_other w.orders oid a f e hf]; exact ho

theorem setOrder_eq_modify (w : World) (o : Order) : w.setOrder o = w.modifyOrder o.id (fun _ => o) := rfl

theorem order!_setOrder_self (w : World) (o : Order) (h : HasOrder w o.id) : (w.setOrder o).order! o.id = o := by
  rw [setOrder_eq_modify, order!_modify_self w o.id (fun _ => o) h (fun _ _ => rfl)]

theorem order!_setOrder_other (w : World) (o : Order) (oid : Nat) (hne : oid ≠ o.id) : (w.setOrder o).order! oid = w.order! oid := by
  rw [setOrder_eq_modify, order!_modify_other w oid o.id (fun _ => o) hne (fun _ _ => rfl)]

theorem hasOrder_setOrder (w : World) (o : Order) (oid : Nat) (h : HasOrder w oid) : HasOrder (w.setOrder o) oid := by
  rw [setOrder_eq_modify]; exact hasOrder_modify w oid o.id _ h (fun _ _ => rfl)

/-! ### functions that do not touch the order table -/

theorem setTrade_orders (w : World) (t : Trade) : (w.setTrade t).orders = w.orders := rfl
theorem emit_orders (w : World) (e : Ev) : (w.emit e).orders = w.orders := rfl
theorem setCtx_orders (w : World) (c : RunnerCtx) : (w.setCtx c).orders = w.orders := by
  unfold setCtx; split <;> rfl
theorem ctxReset_orders (w : World) (k : CtxKey) (t : Nat) : (w.ctxReset k t).orders = w.orders := setCtx_orders _ _
theorem ctxPlace_orders (w : World) (k : CtxKey) (t : Nat) : (w.ctxPlace k t).orders = w.orders := setCtx_orders _ _
theorem completeTrade_orders (w : World) (tid : Nat) : (w.completeTrade tid).orders = w.orders := by
  unfold completeTrade; simp only [ctxReset_orders, setTrade_orders]
theorem tradeUpdateStatus_orders (w : World) (tid : Nat) (s : TradeStatus) : (w.tradeUpdateStatus tid s).orders = w.orders := by
  unfold tradeUpdateStatus
  simp only
  split
  · rw [completeTrade_orders, setTrade_orders]
  · rw [setTrade_orders]
theorem tradeEnter_orders (w : World) (tid : Nat) : (w.tradeEnter tid).orders = w.orders := tradeUpdateStatus_orders _ _ _
theorem tradeExit_orders (w : World) (tid : Nat) : (w.tradeExit tid).orders = w.orders := tradeUpdateStatus_orders _ _ _

/-! ### `_update_status` -/

/-- the order as `_update_status(s)` leaves it -/
def stamped (o : Order) (now : Time) (s : Status) : Order :=
  { o with status := some s, log := o.log ++ [s], statusAt := now, complete := statusComplete s }

theorem orderUpdateStatus_orders (w : World) (oid : Nat) (s : Status) :
    (w.orderUpdateStatus oid s).orders = (w.setOrder (stamped (w.order! oid) w.clock s)).orders := by
  unfold orderUpdateStatus
  simp only
  split
  · rw [completeTrade_orders]; rfl
  · rfl

theorem orderUpdateStatus_self (w : World) (oid : Nat) (s : Status) (h : HasOrder w oid) :
    (w.orderUpdateStatus oid s).order! oid = stamped (w.order! oid) w.clock s := by
  rw [order!_congr _ _ (orderUpdateStatus_orders w oid s)]
  have hid : (stamped (w.order! oid) w.clock s).id = oid := order!_id w oid h
  have := order!_setOrder_self w (stamped (w.order! oid) w.clock s) (by rw [hid]; exact h)
  rw [hid] at this
  exact this

theorem orderUpdateStatus_other (w : World) (oid a : Nat) (s : Status) (ha : HasOrder w a) (hne : oid ≠ a) :
    (w.orderUpdateStatus a s).order! oid = w.order! oid := by
  rw [order!_congr _ _ (orderUpdateStatus_orders w a s)]
  apply order!_setOrder_other
  have hid : (stamped (w.order! a) w.clock s).id = a := order!_id w a ha
  rw [hid]; exact hne

theorem hasOrder_orderUpdateStatus (w : World) (oid a : Nat) (s : Status) (h : HasOrder w oid) :
    HasOrder (w.orderUpdateStatus a s) oid := by
  rw [hasOrder_congr _ _ (orderUpdateStatus_orders w a s)]
  exact hasOrder_setOrder w _ oid h

end Flumine.OL
