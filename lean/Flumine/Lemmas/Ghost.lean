/- Lemmas/Ghost.lean — the ghost counter `World.foreign` is written by `noteForeign` only: no other function of
   the model changes it (unconditionally), so it never decreases along a run. -/
import Flumine.SimLoop
import Mathlib.Tactic.SplitIfs
namespace Flumine.Ghost
open Flumine Flumine.World

@[simp] theorem modifyOrder_foreign (w : World) (a : Nat) (f : Order → Order) : (w.modifyOrder a f).foreign = w.foreign := rfl
@[simp] theorem setOrder_foreign (w : World) (o : Order) : (w.setOrder o).foreign = w.foreign := rfl
@[simp] theorem setTrade_foreign (w : World) (t : Trade) : (w.setTrade t).foreign = w.foreign := rfl
@[simp] theorem setMarket_foreign (w : World) (m : Market) : (w.setMarket m).foreign = w.foreign := rfl
@[simp] theorem setClient_foreign (w : World) (c : Client) : (w.setClient c).foreign = w.foreign := rfl
@[simp] theorem modifyMarket_foreign (w : World) (a : Nat) (f : Market → Market) : (w.modifyMarket a f).foreign = w.foreign := rfl
@[simp] theorem emit_foreign (w : World) (e : Ev) : (w.emit e).foreign = w.foreign := rfl
@[simp] theorem bumpBetId_foreign (w : World) : w.bumpBetId.foreign = w.foreign := rfl
@[simp] theorem addTransaction_foreign (w : World) (c n : Nat) (f : Bool) : (w.addTransaction c n f).foreign = w.foreign := rfl
@[simp] theorem blotterAdd_foreign (w : World) (m o : Nat) : (w.blotterAdd m o).foreign = w.foreign := rfl
@[simp] theorem blotterComplete_foreign (w : World) (m o : Nat) : (w.blotterComplete m o).foreign = w.foreign := rfl
@[simp] theorem setClock_foreign (w : World) (t : Time) : (w.setClock t).foreign = w.foreign := rfl

@[simp] theorem setCtx_foreign (w : World) (c : RunnerCtx) : (w.setCtx c).foreign = w.foreign := by
  unfold setCtx; split <;> rfl
@[simp] theorem ctxPlace_foreign (w : World) (k : CtxKey) (t : Nat) : (w.ctxPlace k t).foreign = w.foreign := setCtx_foreign _ _
@[simp] theorem ctxReset_foreign (w : World) (k : CtxKey) (t : Nat) : (w.ctxReset k t).foreign = w.foreign := setCtx_foreign _ _
@[simp] theorem completeTrade_foreign (w : World) (tid : Nat) : (w.completeTrade tid).foreign = w.foreign := by
  unfold completeTrade; simp
@[simp] theorem tradeUpdateStatus_foreign (w : World) (tid : Nat) (s : TradeStatus) : (w.tradeUpdateStatus tid s).foreign = w.foreign := by
  unfold tradeUpdateStatus
  simp only
  split <;> simp
@[simp] theorem tradeEnter_foreign (w : World) (tid : Nat) : (w.tradeEnter tid).foreign = w.foreign := tradeUpdateStatus_foreign _ _ _
@[simp] theorem tradeExit_foreign (w : World) (tid : Nat) : (w.tradeExit tid).foreign = w.foreign := tradeUpdateStatus_foreign _ _ _
@[simp] theorem orderUpdateStatus_foreign (w : World) (oid : Nat) (s : Status) : (w.orderUpdateStatus oid s).foreign = w.foreign := by
  unfold orderUpdateStatus
  simp only
  split <;> simp
@[simp] theorem orderExecutable_foreign (w : World) (oid : Nat) : (w.orderExecutable oid).foreign = w.foreign := by
  unfold orderExecutable; split <;> simp
@[simp] theorem orderExecutionComplete_foreign (w : World) (oid : Nat) : (w.orderExecutionComplete oid).foreign = w.foreign := by
  unfold orderExecutionComplete; simp
@[simp] theorem orderViolation_foreign (w : World) (oid : Nat) (m : String) : (w.orderViolation oid m).foreign = w.foreign := by
  unfold orderViolation; split <;> simp
@[simp] theorem orderPlacing_foreign (w : World) (oid : Nat) : (w.orderPlacing oid).foreign = w.foreign := orderUpdateStatus_foreign _ _ _

theorem foldl_foreign {α} (f : World → α → World) (hf : ∀ w a, (f w a).foreign = w.foreign) (l : List α) (w : World) :
    (l.foldl f w).foreign = w.foreign := by
  induction l generalizing w with
  | nil => rfl
  | cons a as ih => rw [List.foldl_cons, ih, hf]

theorem foldl_pair_foreign {α β} (f : World × β → α → World × β) (hf : ∀ acc a, (f acc a).1.foreign = acc.1.foreign) (l : List α) (acc : World × β) :
    (l.foldl f acc).1.foreign = acc.1.foreign := by
  induction l generalizing acc with
  | nil => rfl
  | cons a as ih => rw [List.foldl_cons, ih, hf]

theorem orderCancel_foreign (w w' : World) (a : Nat) (r : Option Rat) (h : w.orderCancel a r = .ok w') : w'.foreign = w.foreign := by
  unfold orderCancel at h
  simp only at h
  split_ifs at h
  have := (Except.ok.inj h).symm
  subst this
  unfold orderCancelling; simp
theorem orderUpdate_foreign (w w' : World) (a : Nat) (p : String) (h : w.orderUpdate a p = .ok w') : w'.foreign = w.foreign := by
  unfold orderUpdate at h
  simp only at h
  split_ifs at h
  have := (Except.ok.inj h).symm
  subst this
  unfold orderUpdating; simp
theorem orderReplace_foreign (w w' : World) (a : Nat) (p : Rat) (h : w.orderReplace a p = .ok w') : w'.foreign = w.foreign := by
  unfold orderReplace at h
  simp only at h
  split_ifs at h
  have := (Except.ok.inj h).symm
  subst this
  unfold orderReplacing; simp

@[simp] theorem validateControls_foreign (w : World) (oid cid : Nat) (k : PackKind) : (w.validateControls oid cid k).1.foreign = w.foreign := by
  unfold validateControls
  simp only
  repeat' split
  all_goals simp

theorem addPackage_foreign (k : PackKind) (t : Txn) (d bd : Rat) (w : World) (vc : Option Int × List Nat) :
    (addPackage k t d bd w vc).foreign = w.foreign := rfl

@[simp] theorem createPackages_foreign (w : World) (t : Txn) (p : List (Nat × Option Int)) (k : PackKind) :
    (w.createPackages t p k).foreign = w.foreign := by
  unfold createPackages
  exact foldl_foreign _ (fun w vc => addPackage_foreign k t _ _ w vc) _ w

@[simp] theorem txnExecute_foreign (w : World) (t : Txn) : (w.txnExecute t).1.foreign = w.foreign := by
  unfold txnExecute
  simp only
  have h : ∀ (w : World) (c : Bool) (p : List (Nat × Option Int)) (k : PackKind), (if c then w else w.createPackages t p k).foreign = w.foreign := by
    intro w c p k; split <;> simp
  rw [h, h, h, h]

@[simp] theorem txnExit_foreign (w : World) (t : Txn) : (w.txnExit t).foreign = w.foreign := by
  unfold txnExit; split <;> simp

@[simp] theorem txnPlace_foreign (w : World) (t : Txn) (oid : Nat) (v : Option Int) (ex force : Bool) :
    (w.txnPlace t oid v ex force).1.foreign = w.foreign := by
  unfold txnPlace
  simp only
  have hv : (if (ex && !force) = true then (w.modifyOrder oid fun o => { o with client := some t.client }).validateControls oid t.client .place
      else (w.modifyOrder oid fun o => { o with client := some t.client }, none)).1.foreign = w.foreign := by
    split <;> simp
  generalize (if (ex && !force) = true then (w.modifyOrder oid fun o => { o with client := some t.client }).validateControls oid t.client .place
    else (w.modifyOrder oid fun o => { o with client := some t.client }, none)) = vr at hv
  obtain ⟨w1, r⟩ := vr
  simp only at hv ⊢
  cases r with
  | some r => exact hv
  | none =>
    simp only
    repeat' split
    all_goals simp [hv]

theorem txnCancel_foreign (w : World) (t : Txn) (oid : Nat) (red : Option Rat) (f : Bool) : (w.txnCancel t oid red f).1.foreign = w.foreign := by
  unfold txnCancel
  simp only
  split
  · rfl
  · have hv : (if (!f) = true then w.validateControls oid t.client .cancel else (w, none)).1.foreign = w.foreign := by split <;> simp
    generalize (if (!f) = true then w.validateControls oid t.client .cancel else (w, none)) = vr at hv
    obtain ⟨w1, r⟩ := vr
    cases r with
    | some r => exact hv
    | none =>
      simp only at hv ⊢
      cases h : w1.orderCancel oid red with
      | error e => exact hv
      | ok w2 => exact (orderCancel_foreign w1 w2 oid red h).trans hv

theorem txnUpdate_foreign (w : World) (t : Txn) (oid : Nat) (p : String) (f : Bool) : (w.txnUpdate t oid p f).1.foreign = w.foreign := by
  unfold txnUpdate
  simp only
  split
  · rfl
  · have hv : (if (!f) = true then w.validateControls oid t.client .update else (w, none)).1.foreign = w.foreign := by split <;> simp
    generalize (if (!f) = true then w.validateControls oid t.client .update else (w, none)) = vr at hv
    obtain ⟨w1, r⟩ := vr
    cases r with
    | some r => exact hv
    | none =>
      simp only at hv ⊢
      cases h : w1.orderUpdate oid p with
      | error e => exact hv
      | ok w2 => exact (orderUpdate_foreign w1 w2 oid p h).trans hv

theorem txnReplace_foreign (w : World) (t : Txn) (oid : Nat) (p : Rat) (v : Option Int) (f : Bool) : (w.txnReplace t oid p v f).1.foreign = w.foreign := by
  unfold txnReplace
  simp only
  split
  · rfl
  · have hv : (if (!f) = true then w.validateControls oid t.client .replace else (w, none)).1.foreign = w.foreign := by split <;> simp
    generalize (if (!f) = true then w.validateControls oid t.client .replace else (w, none)) = vr at hv
    obtain ⟨w1, r⟩ := vr
    cases r with
    | some r => exact hv
    | none =>
      simp only at hv ⊢
      cases h : w1.orderReplace oid p with
      | error e => exact hv
      | ok w2 => exact (orderReplace_foreign w1 w2 oid p h).trans hv

/-! ### simulated execution -/

@[simp] theorem logPlaced_foreign (w : World) (oid : Nat) (b : Option Nat) : (w.logPlaced oid b).foreign = w.foreign := by
  unfold logPlaced; cases b <;> simp

@[simp] theorem placeStep_foreign (p : Package) (w : World) (oid : Nat) : (placeStep p w oid).foreign = w.foreign := by
  unfold placeStep
  simp only
  split <;> simp

@[simp] theorem cancelStep_foreign (p : Package) (acc : World × Nat) (oid : Nat) : (cancelStep p acc oid).1.foreign = acc.1.foreign := by
  obtain ⟨w, failed⟩ := acc
  unfold cancelStep
  simp only
  repeat' split
  all_goals simp

@[simp] theorem updateStep_foreign (p : Package) (acc : World × Nat) (oid : Nat) : (updateStep p acc oid).1.foreign = acc.1.foreign := by
  obtain ⟨w, failed⟩ := acc
  unfold updateStep
  simp

@[simp] theorem createReplacement_foreign (w : World) (oid : Nat) (np sz : Rat) (cr : Time) : (w.createReplacement oid np sz cr).1.foreign = w.foreign := rfl

@[simp] theorem replacePlace_foreign (p : Package) (w : World) (o : Order) (oid : Nat) (book : Book) (np : Option Rat) (sc : Rat) (failed : Nat) :
    (replacePlace p w o oid book np sc failed).1.foreign = w.foreign := by
  unfold replacePlace
  simp only
  split <;> simp

@[simp] theorem replaceStep_foreign (p : Package) (acc : World × Nat) (pr : Nat × Option Rat) : (replaceStep p acc pr).1.foreign = acc.1.foreign := by
  obtain ⟨w, failed⟩ := acc
  obtain ⟨oid, np⟩ := pr
  unfold replaceStep
  simp only
  split <;> simp

@[simp] theorem executePackage_foreign (w : World) (p : Package) : (w.executePackage p).foreign = w.foreign := by
  unfold executePackage
  cases p.kind with
  | place =>
    simp only; unfold executePlace
    simp only [addTransaction_foreign]
    exact foldl_foreign _ (fun w oid => placeStep_foreign p w oid) _ w
  | cancel =>
    simp only; unfold executeCancel
    simp only
    have := foldl_pair_foreign (cancelStep p) (fun acc oid => cancelStep_foreign p acc oid) (w.packageOrders p) (w, 0)
    generalize (w.packageOrders p).foldl (cancelStep p) (w, 0) = r at this
    obtain ⟨w1, failed⟩ := r
    simp only at this ⊢
    split <;> simp [this]
  | update =>
    simp only; unfold executeUpdate
    simp only
    have := foldl_pair_foreign (updateStep p) (fun acc oid => updateStep_foreign p acc oid) (w.packageOrders p) (w, 0)
    generalize (w.packageOrders p).foldl (updateStep p) (w, 0) = r at this
    obtain ⟨w1, failed⟩ := r
    simp only at this ⊢
    split <;> simp [this]
  | replace =>
    simp only; unfold executeReplace
    simp only
    generalize (((w.packageOrders p).filter fun oid => (w.order! oid).status ≠ some .executionComplete).map fun oid => (oid, (w.order! oid).ud.newPrice)) = zs
    have := foldl_pair_foreign (replaceStep p) (fun acc pr => replaceStep_foreign p acc pr) zs (w, 0)
    generalize zs.foldl (replaceStep p) (w, 0) = r at this
    obtain ⟨w1, failed⟩ := r
    simp only at this ⊢
    split <;> simp [this]

@[simp] theorem checkPendingPackages_foreign (w : World) (mid : Nat) : (w.checkPendingPackages mid).foreign = w.foreign := by
  unfold checkPendingPackages
  simp only
  exact foldl_foreign _ (fun w p => executePackage_foreign w p) _ w

/-! ### middleware, completion loop, closure -/

@[simp] theorem processRunnerRemoval_foreign (w : World) (mid rsel : Nat) (rhc : Rat) (raf : Option Rat) :
    (w.processRunnerRemoval mid rsel rhc raf).foreign = w.foreign := by
  unfold processRunnerRemoval
  simp only
  exact foldl_foreign (fun w1 oid => w1.modifyOrder oid (w1.removalOnOrder (w.market! mid) rsel rhc raf)) (fun w oid => rfl) _ w

@[simp] theorem matchStep_foreign (mid : Nat) (r : Bool) (acc : World × List (Nat × Rat × List (Rat × Rat))) (o0 : Order) :
    (matchStep mid r acc o0).1.foreign = acc.1.foreign := by
  obtain ⟨w, lk⟩ := acc
  unfold matchStep
  simp only
  repeat' split
  all_goals simp

@[simp] theorem matchOrders_foreign (w : World) (mid : Nat) (l : List Order) (r : Bool) : (w.matchOrders mid l r).foreign = w.foreign := by
  unfold matchOrders
  exact foldl_pair_foreign _ (fun acc o => matchStep_foreign mid r acc o) l _

@[simp] theorem matchStrategy_foreign (mid : Nat) (w : World) (sid : Nat) : (matchStrategy mid w sid).foreign = w.foreign := by
  unfold matchStrategy
  simp only
  split <;> simp

@[simp] theorem mwProcessSimulatedOrders_foreign (w : World) (mid : Nat) : (w.mwProcessSimulatedOrders mid).foreign = w.foreign := by
  unfold mwProcessSimulatedOrders
  simp only
  split
  · exact foldl_foreign _ (fun w sid => matchStrategy_foreign mid w sid) _ w
  · split <;> simp

@[simp] theorem mwUpdateAnalytics_foreign (w : World) (mid : Nat) : (w.mwUpdateAnalytics mid).1.foreign = w.foreign := rfl

@[simp] theorem simulatedMiddleware_foreign (w : World) (mid : Nat) : (w.simulatedMiddleware mid).foreign = w.foreign := by
  unfold simulatedMiddleware
  simp only
  have h : (List.foldl (fun w (k : Nat × Rat × Option Rat) => w.processRunnerRemoval mid k.1 k.2.1 k.2.2) (w.mwUpdateAnalytics mid).1 (w.mwUpdateAnalytics mid).2).foreign = w.foreign := by
    rw [foldl_foreign (fun w (k : Nat × Rat × Option Rat) => w.processRunnerRemoval mid k.1 k.2.1 k.2.2) (fun w k => processRunnerRemoval_foreign w mid k.1 k.2.1 k.2.2)]; rfl
  split <;> simp [h]

@[simp] theorem processSimulatedOrders_foreign (w : World) (mid : Nat) : (w.processSimulatedOrders mid).foreign = w.foreign := by
  unfold processSimulatedOrders
  simp only
  rw [foldl_foreign, foldl_foreign]
  · intro w oid
    repeat' split
    all_goals simp
  · intro w s
    split <;> simp

@[simp] theorem blotterProcessClosed_foreign (w : World) (mid : Nat) (book : Book) : (w.blotterProcessClosed mid book).foreign = w.foreign := by
  unfold blotterProcessClosed
  simp only
  apply foldl_foreign
  intro w oid
  split <;> simp

@[simp] theorem processCloseMarket_foreign (w : World) (mid : Nat) (book : Book) : (w.processCloseMarket mid book).foreign = w.foreign := by
  unfold processCloseMarket
  split
  · rfl
  · simp only
    split <;> simp

/-! ### scripted actions and whole updates: the counter never decreases -/

theorem doActionCore_foreign (w : World) (mid : Nat) (batch : Option Txn) (a : Action) : (w.doActionCore mid batch a).1.foreign = w.foreign := by
  unfold doActionCore
  simp only
  split
  · rfl
  · cases a with
    | create o tr => cases tr <;> rfl
    | place tg v force => cases batch <;> simp
    | cancel tg red force => cases batch <;> simp [txnCancel_foreign]
    | update tg pers force => cases batch <;> simp [txnUpdate_foreign]
    | replace tg price v force => cases batch <;> simp [txnReplace_foreign]
    | batchBegin c => cases batch <;> simp
    | batchExecute => cases batch <;> simp
    | batchEnd => cases batch <;> simp

theorem noteForeign_le (w : World) (mid : Nat) (a : Action) : w.foreign ≤ (w.noteForeign mid a).foreign := by
  unfold noteForeign; split
  · exact Nat.le_succ _
  · exact Nat.le_refl _

theorem doAction_le (w : World) (mid : Nat) (batch : Option Txn) (a : Action) : w.foreign ≤ (w.doAction mid batch a).1.foreign := by
  unfold doAction; rw [doActionCore_foreign]; exact noteForeign_le w mid a

/-- a local action leaves the counter alone; a foreign one makes it positive -/
theorem doAction_foreign_zero (w : World) (mid : Nat) (batch : Option Txn) (a : Action) (h : (w.doAction mid batch a).1.foreign = 0) :
    a.foreign w mid = false ∧ w.noteForeign mid a = w := by
  unfold doAction at h
  rw [doActionCore_foreign] at h
  unfold noteForeign at h ⊢
  split at h
  · simp at h
  · rename_i hf
    exact ⟨by simpa using hf, by rw [if_neg hf]⟩

theorem actsFold_le (mid : Nat) (l : List Action) (acc : World × Option Txn × List String) :
    acc.1.foreign ≤ (l.foldl (fun (acc : World × Option Txn × List String) a =>
      ((acc.1.doAction mid acc.2.1 a).1, (acc.1.doAction mid acc.2.1 a).2.1, acc.2.2 ++ [(acc.1.doAction mid acc.2.1 a).2.2])) acc).1.foreign := by
  induction l generalizing acc with
  | nil => exact Nat.le_refl _
  | cons a as ih =>
    rw [List.foldl_cons]
    exact Nat.le_trans (doAction_le acc.1 mid acc.2.1 a) (ih ((acc.1.doAction mid acc.2.1 a).1, (acc.1.doAction mid acc.2.1 a).2.1, acc.2.2 ++ [(acc.1.doAction mid acc.2.1 a).2.2]))

theorem doActions_le (w : World) (mid : Nat) (as : List Action) : w.foreign ≤ (w.doActions mid as).1.foreign := by
  unfold doActions
  simp only
  have := actsFold_le mid as (w, none, [])
  generalize as.foldl _ (w, none, []) = r at this
  obtain ⟨w1, b, outs⟩ := r
  cases b with
  | some t => simpa using this
  | none => exact this

end Flumine.Ghost
