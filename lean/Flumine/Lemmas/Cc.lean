/- Lemmas/Cc.lean — the closed-market callbacks observed so far (`World.cc`: the `closedCallback` events of `out`) are written by
   `processCloseMarket` only: every other function of the model leaves them as they are. -/
import Flumine.SimLoop
import Flumine.Lemmas.Inv
import Flumine.Lemmas.Strat
import Mathlib.Tactic.SplitIfs
namespace Flumine

/-- is the event a `process_closed_market` callback? -/
def Ev.isCC : Ev → Bool
  | .closedCallback _ _ _ => true
  | _ => false

@[simp] theorem Ev.isCC_closedCallback (s m : Nat) (t : Time) : (Ev.closedCallback s m t).isCC = true := rfl
@[simp] theorem Ev.isCC_clearedOrders (m n : Nat) : (Ev.clearedOrders m n).isCC = false := rfl
@[simp] theorem Ev.isCC_clearedMarket (m c : Nat) (p q : Rat) (b : Nat) : (Ev.clearedMarket m c p q b).isCC = false := rfl
@[simp] theorem Ev.isCC_closeEvent (m : Nat) : (Ev.closeEvent m).isCC = false := rfl
@[simp] theorem Ev.isCC_marketEvent (m : Nat) : (Ev.marketEvent m).isCC = false := rfl
@[simp] theorem Ev.isCC_tradeEvent (m : Nat) : (Ev.tradeEvent m).isCC = false := rfl
@[simp] theorem Ev.isCC_orderEvent (m : Nat) : (Ev.orderEvent m).isCC = false := rfl
@[simp] theorem Ev.isCC_processOrders (s m n : Nat) : (Ev.processOrders s m n).isCC = false := rfl
@[simp] theorem Ev.isCC_newMarket (s m : Nat) : (Ev.newMarket s m).isCC = false := rfl
@[simp] theorem Ev.isCC_bookCallback (s m : Nat) (t : Time) : (Ev.bookCallback s m t).isCC = false := rfl
@[simp] theorem Ev.isCC_warnNoMarket (m : Nat) : (Ev.warnNoMarket m).isCC = false := rfl
@[simp] theorem Ev.isCC_removedMarket (m : Nat) : (Ev.removedMarket m).isCC = false := rfl

/-- the closed-market callbacks emitted so far, in order -/
def World.cc (w : World) : List Ev := w.out.filter Ev.isCC

namespace Cc
open Flumine Flumine.World

@[simp] theorem modifyOrder_cc (w : World) (a : Nat) (f : Order → Order) : (w.modifyOrder a f).cc = w.cc := rfl
@[simp] theorem setOrder_cc (w : World) (o : Order) : (w.setOrder o).cc = w.cc := rfl
@[simp] theorem setTrade_cc (w : World) (t : Trade) : (w.setTrade t).cc = w.cc := rfl
@[simp] theorem setMarket_cc (w : World) (m : Market) : (w.setMarket m).cc = w.cc := rfl
@[simp] theorem setClient_cc (w : World) (c : Client) : (w.setClient c).cc = w.cc := rfl
@[simp] theorem modifyMarket_cc (w : World) (a : Nat) (f : Market → Market) : (w.modifyMarket a f).cc = w.cc := rfl
@[simp] theorem emit_cc (w : World) (e : Ev) : (w.emit e).cc = w.cc ++ (if e.isCC then [e] else []) := by
  unfold World.cc emit
  simp only [List.filter_append, List.filter_cons, List.filter_nil]
@[simp] theorem bumpBetId_cc (w : World) : w.bumpBetId.cc = w.cc := rfl
@[simp] theorem addTransaction_cc (w : World) (c n : Nat) (f : Bool) : (w.addTransaction c n f).cc = w.cc := rfl
@[simp] theorem blotterAdd_cc (w : World) (m o : Nat) : (w.blotterAdd m o).cc = w.cc := rfl
@[simp] theorem blotterComplete_cc (w : World) (m o : Nat) : (w.blotterComplete m o).cc = w.cc := rfl
@[simp] theorem setClock_cc (w : World) (t : Time) : (w.setClock t).cc = w.cc := rfl

@[simp] theorem setCtx_cc (w : World) (c : RunnerCtx) : (w.setCtx c).cc = w.cc := by
  unfold setCtx; split <;> rfl
@[simp] theorem ctxPlace_cc (w : World) (k : CtxKey) (t : Nat) : (w.ctxPlace k t).cc = w.cc := setCtx_cc _ _
@[simp] theorem ctxReset_cc (w : World) (k : CtxKey) (t : Nat) : (w.ctxReset k t).cc = w.cc := setCtx_cc _ _
@[simp] theorem completeTrade_cc (w : World) (tid : Nat) : (w.completeTrade tid).cc = w.cc := by
  unfold completeTrade; simp
@[simp] theorem tradeUpdateStatus_cc (w : World) (tid : Nat) (s : TradeStatus) : (w.tradeUpdateStatus tid s).cc = w.cc := by
  unfold tradeUpdateStatus
  simp only
  split <;> simp
@[simp] theorem tradeEnter_cc (w : World) (tid : Nat) : (w.tradeEnter tid).cc = w.cc := tradeUpdateStatus_cc _ _ _
@[simp] theorem tradeExit_cc (w : World) (tid : Nat) : (w.tradeExit tid).cc = w.cc := tradeUpdateStatus_cc _ _ _
@[simp] theorem orderUpdateStatus_cc (w : World) (oid : Nat) (s : Status) : (w.orderUpdateStatus oid s).cc = w.cc := by
  unfold orderUpdateStatus
  simp only
  split <;> simp
@[simp] theorem orderExecutable_cc (w : World) (oid : Nat) : (w.orderExecutable oid).cc = w.cc := by
  unfold orderExecutable; split <;> simp
@[simp] theorem orderExecutionComplete_cc (w : World) (oid : Nat) : (w.orderExecutionComplete oid).cc = w.cc := by
  unfold orderExecutionComplete; simp
@[simp] theorem orderViolation_cc (w : World) (oid : Nat) (m : String) : (w.orderViolation oid m).cc = w.cc := by
  unfold orderViolation; split <;> simp
@[simp] theorem orderPlacing_cc (w : World) (oid : Nat) : (w.orderPlacing oid).cc = w.cc := orderUpdateStatus_cc _ _ _

theorem foldl_cc {α} (f : World → α → World) (hf : ∀ w a, (f w a).cc = w.cc) (l : List α) (w : World) :
    (l.foldl f w).cc = w.cc := by
  induction l generalizing w with
  | nil => rfl
  | cons a as ih => rw [List.foldl_cons, ih, hf]

theorem foldl_pair_cc {α β} (f : World × β → α → World × β) (hf : ∀ acc a, (f acc a).1.cc = acc.1.cc) (l : List α) (acc : World × β) :
    (l.foldl f acc).1.cc = acc.1.cc := by
  induction l generalizing acc with
  | nil => rfl
  | cons a as ih => rw [List.foldl_cons, ih, hf]

theorem orderCancel_cc (w w' : World) (a : Nat) (r : Option Rat) (h : w.orderCancel a r = .ok w') : w'.cc = w.cc := by
  unfold orderCancel at h
  simp only at h
  split_ifs at h
  have := (Except.ok.inj h).symm
  subst this
  unfold orderCancelling; simp
theorem orderUpdate_cc (w w' : World) (a : Nat) (p : String) (h : w.orderUpdate a p = .ok w') : w'.cc = w.cc := by
  unfold orderUpdate at h
  simp only at h
  split_ifs at h
  have := (Except.ok.inj h).symm
  subst this
  unfold orderUpdating; simp
theorem orderReplace_cc (w w' : World) (a : Nat) (p : Rat) (h : w.orderReplace a p = .ok w') : w'.cc = w.cc := by
  unfold orderReplace at h
  simp only at h
  split_ifs at h
  have := (Except.ok.inj h).symm
  subst this
  unfold orderReplacing; simp

@[simp] theorem validateControls_cc (w : World) (oid cid : Nat) (k : PackKind) : (w.validateControls oid cid k).1.cc = w.cc := by
  unfold validateControls
  simp only
  repeat' split
  all_goals simp

theorem addPackage_cc (k : PackKind) (t : Txn) (d bd : Rat) (w : World) (vc : Option Int × List Nat) :
    (addPackage k t d bd w vc).cc = w.cc := rfl

@[simp] theorem createPackages_cc (w : World) (t : Txn) (p : List (Nat × Option Int)) (k : PackKind) :
    (w.createPackages t p k).cc = w.cc := by
  unfold createPackages
  exact foldl_cc _ (fun w vc => addPackage_cc k t _ _ w vc) _ w

@[simp] theorem txnExecute_cc (w : World) (t : Txn) : (w.txnExecute t).1.cc = w.cc := by
  unfold txnExecute
  simp only
  have h : ∀ (w : World) (c : Bool) (p : List (Nat × Option Int)) (k : PackKind), (if c then w else w.createPackages t p k).cc = w.cc := by
    intro w c p k; split <;> simp
  rw [h, h, h, h]

@[simp] theorem txnExit_cc (w : World) (t : Txn) : (w.txnExit t).cc = w.cc := by
  unfold txnExit; split <;> simp

@[simp] theorem txnPlace_cc (w : World) (t : Txn) (oid : Nat) (v : Option Int) (ex force : Bool) :
    (w.txnPlace t oid v ex force).1.cc = w.cc := by
  unfold txnPlace
  simp only
  have hv : (if (ex && !force) = true then (w.modifyOrder oid fun o => { o with client := some t.client }).validateControls oid t.client .place
      else (w.modifyOrder oid fun o => { o with client := some t.client }, none)).1.cc = w.cc := by
    split <;> simp
  generalize (if (ex && !force) = true then (w.modifyOrder oid fun o => { o with client := some t.client }).validateControls oid t.client .place
    else (w.modifyOrder oid fun o => { o with client := some t.client }, none)) = vr at hv
  obtain ⟨w1, r⟩ := vr
  simp only at hv ⊢
  cases r with
  | some r => exact hv
  | none =>
    simp only
    repeat' split
    all_goals simp [hv]

theorem txnCancel_cc (w : World) (t : Txn) (oid : Nat) (red : Option Rat) (f : Bool) : (w.txnCancel t oid red f).1.cc = w.cc := by
  unfold txnCancel
  simp only
  split
  · rfl
  · have hv : (if (!f) = true then w.validateControls oid t.client .cancel else (w, none)).1.cc = w.cc := by split <;> simp
    generalize (if (!f) = true then w.validateControls oid t.client .cancel else (w, none)) = vr at hv
    obtain ⟨w1, r⟩ := vr
    cases r with
    | some r => exact hv
    | none =>
      simp only at hv ⊢
      cases h : w1.orderCancel oid red with
      | error e => exact hv
      | ok w2 => exact (orderCancel_cc w1 w2 oid red h).trans hv

theorem txnUpdate_cc (w : World) (t : Txn) (oid : Nat) (p : String) (f : Bool) : (w.txnUpdate t oid p f).1.cc = w.cc := by
  unfold txnUpdate
  simp only
  split
  · rfl
  · have hv : (if (!f) = true then w.validateControls oid t.client .update else (w, none)).1.cc = w.cc := by split <;> simp
    generalize (if (!f) = true then w.validateControls oid t.client .update else (w, none)) = vr at hv
    obtain ⟨w1, r⟩ := vr
    cases r with
    | some r => exact hv
    | none =>
      simp only at hv ⊢
      cases h : w1.orderUpdate oid p with
      | error e => exact hv
      | ok w2 => exact (orderUpdate_cc w1 w2 oid p h).trans hv

theorem txnReplace_cc (w : World) (t : Txn) (oid : Nat) (p : Rat) (v : Option Int) (f : Bool) : (w.txnReplace t oid p v f).1.cc = w.cc := by
  unfold txnReplace
  simp only
  split
  · rfl
  · have hv : (if (!f) = true then w.validateControls oid t.client .replace else (w, none)).1.cc = w.cc := by split <;> simp
    generalize (if (!f) = true then w.validateControls oid t.client .replace else (w, none)) = vr at hv
    obtain ⟨w1, r⟩ := vr
    cases r with
    | some r => exact hv
    | none =>
      simp only at hv ⊢
      cases h : w1.orderReplace oid p with
      | error e => exact hv
      | ok w2 => exact (orderReplace_cc w1 w2 oid p h).trans hv

/-! ### simulated execution -/

@[simp] theorem logPlaced_cc (w : World) (oid : Nat) (b : Option Nat) : (w.logPlaced oid b).cc = w.cc := by
  unfold logPlaced; cases b <;> simp

@[simp] theorem placeStep_cc (p : Package) (w : World) (oid : Nat) : (placeStep p w oid).cc = w.cc := by
  unfold placeStep
  simp only
  split <;> simp

@[simp] theorem cancelStep_cc (p : Package) (acc : World × Nat) (oid : Nat) : (cancelStep p acc oid).1.cc = acc.1.cc := by
  obtain ⟨w, failed⟩ := acc
  unfold cancelStep
  simp only
  repeat' split
  all_goals simp

@[simp] theorem updateStep_cc (p : Package) (acc : World × Nat) (oid : Nat) : (updateStep p acc oid).1.cc = acc.1.cc := by
  obtain ⟨w, failed⟩ := acc
  unfold updateStep
  simp

@[simp] theorem createReplacement_cc (w : World) (oid : Nat) (np sz : Rat) (cr : Time) : (w.createReplacement oid np sz cr).1.cc = w.cc := rfl

@[simp] theorem replacePlace_cc (p : Package) (w : World) (o : Order) (oid : Nat) (book : Book) (np : Option Rat) (sc : Rat) (failed : Nat) :
    (replacePlace p w o oid book np sc failed).1.cc = w.cc := by
  unfold replacePlace
  simp only
  split <;> simp

@[simp] theorem replaceStep_cc (p : Package) (acc : World × Nat) (pr : Nat × Option Rat) : (replaceStep p acc pr).1.cc = acc.1.cc := by
  obtain ⟨w, failed⟩ := acc
  obtain ⟨oid, np⟩ := pr
  unfold replaceStep
  simp only
  split <;> simp

@[simp] theorem executePackage_cc (w : World) (p : Package) : (w.executePackage p).cc = w.cc := by
  unfold executePackage
  cases p.kind with
  | place =>
    simp only; unfold executePlace
    simp only [addTransaction_cc]
    exact foldl_cc _ (fun w oid => placeStep_cc p w oid) _ w
  | cancel =>
    simp only; unfold executeCancel
    simp only
    have := foldl_pair_cc (cancelStep p) (fun acc oid => cancelStep_cc p acc oid) (w.packageOrders p) (w, 0)
    generalize (w.packageOrders p).foldl (cancelStep p) (w, 0) = r at this
    obtain ⟨w1, failed⟩ := r
    simp only at this ⊢
    split <;> simp [this]
  | update =>
    simp only; unfold executeUpdate
    simp only
    have := foldl_pair_cc (updateStep p) (fun acc oid => updateStep_cc p acc oid) (w.packageOrders p) (w, 0)
    generalize (w.packageOrders p).foldl (updateStep p) (w, 0) = r at this
    obtain ⟨w1, failed⟩ := r
    simp only at this ⊢
    split <;> simp [this]
  | replace =>
    simp only; unfold executeReplace
    simp only
    generalize (((w.packageOrders p).filter fun oid => (w.order! oid).status ≠ some .executionComplete).map fun oid => (oid, (w.order! oid).ud.newPrice)) = zs
    have := foldl_pair_cc (replaceStep p) (fun acc pr => replaceStep_cc p acc pr) zs (w, 0)
    generalize zs.foldl (replaceStep p) (w, 0) = r at this
    obtain ⟨w1, failed⟩ := r
    simp only at this ⊢
    split <;> simp [this]

@[simp] theorem checkPendingPackages_cc (w : World) (mid : Nat) : (w.checkPendingPackages mid).cc = w.cc := by
  unfold checkPendingPackages
  simp only
  exact foldl_cc _ (fun w p => executePackage_cc w p) _ w

/-! ### middleware, completion loop, closure -/

@[simp] theorem processRunnerRemoval_cc (w : World) (mid rsel : Nat) (rhc : Rat) (raf : Option Rat) :
    (w.processRunnerRemoval mid rsel rhc raf).cc = w.cc := by
  unfold processRunnerRemoval
  simp only
  exact foldl_cc (fun w1 oid => w1.modifyOrder oid (w1.removalOnOrder (w.market! mid) rsel rhc raf)) (fun w oid => rfl) _ w

@[simp] theorem matchStep_cc (mid : Nat) (r : Bool) (acc : World × List (Nat × Rat × List (Rat × Rat))) (o0 : Order) :
    (matchStep mid r acc o0).1.cc = acc.1.cc := by
  obtain ⟨w, lk⟩ := acc
  unfold matchStep
  simp only
  repeat' split
  all_goals simp

@[simp] theorem matchOrders_cc (w : World) (mid : Nat) (l : List Order) (r : Bool) : (w.matchOrders mid l r).cc = w.cc := by
  unfold matchOrders
  exact foldl_pair_cc _ (fun acc o => matchStep_cc mid r acc o) l _

@[simp] theorem matchStrategy_cc (mid : Nat) (w : World) (sid : Nat) : (matchStrategy mid w sid).cc = w.cc := by
  unfold matchStrategy
  simp only
  split <;> simp

@[simp] theorem mwProcessSimulatedOrders_cc (w : World) (mid : Nat) : (w.mwProcessSimulatedOrders mid).cc = w.cc := by
  unfold mwProcessSimulatedOrders
  simp only
  split
  · exact foldl_cc _ (fun w sid => matchStrategy_cc mid w sid) _ w
  · split <;> simp

@[simp] theorem mwUpdateAnalytics_cc (w : World) (mid : Nat) : (w.mwUpdateAnalytics mid).1.cc = w.cc := rfl

@[simp] theorem simulatedMiddleware_cc (w : World) (mid : Nat) : (w.simulatedMiddleware mid).cc = w.cc := by
  unfold simulatedMiddleware
  simp only
  have h : (List.foldl (fun w (k : Nat × Rat × Option Rat) => w.processRunnerRemoval mid k.1 k.2.1 k.2.2) (w.mwUpdateAnalytics mid).1 (w.mwUpdateAnalytics mid).2).cc = w.cc := by
    rw [foldl_cc (fun w (k : Nat × Rat × Option Rat) => w.processRunnerRemoval mid k.1 k.2.1 k.2.2) (fun w k => processRunnerRemoval_cc w mid k.1 k.2.1 k.2.2)]; rfl
  split <;> simp [h]

@[simp] theorem processSimulatedOrders_cc (w : World) (mid : Nat) : (w.processSimulatedOrders mid).cc = w.cc := by
  unfold processSimulatedOrders
  simp only
  rw [foldl_cc, foldl_cc]
  · intro w oid
    repeat' split
    all_goals simp
  · intro w s
    split <;> simp

@[simp] theorem blotterProcessClosed_cc (w : World) (mid : Nat) (book : Book) : (w.blotterProcessClosed mid book).cc = w.cc := by
  unfold blotterProcessClosed
  simp only
  apply foldl_cc
  intro w oid
  split <;> simp

/-! ### scripted actions and whole updates: the counter never decreases -/

theorem doActionCore_cc (w : World) (mid : Nat) (batch : Option Txn) (a : Action) : (w.doActionCore mid batch a).1.cc = w.cc := by
  unfold doActionCore
  simp only
  split
  · rfl
  · cases a with
    | create o tr => cases tr <;> rfl
    | place tg v force => cases batch <;> simp
    | cancel tg red force => cases batch <;> simp [txnCancel_cc]
    | update tg pers force => cases batch <;> simp [txnUpdate_cc]
    | replace tg price v force => cases batch <;> simp [txnReplace_cc]
    | batchBegin c => cases batch <;> simp
    | batchExecute => cases batch <;> simp
    | batchEnd => cases batch <;> simp


/-! ### the one writer: `processCloseMarket` -/

theorem closeCallbacks_congr {w w' : World} (h : w'.strategies = w.strategies) (mid : Nat) (book : Book) :
    w'.closeCallbacks mid book = w.closeCallbacks mid book := by
  unfold closeCallbacks; rw [h]

theorem filter_closeCallbacks (w : World) (mid : Nat) (book : Book) : (w.closeCallbacks mid book).filter Ev.isCC = w.closeCallbacks mid book := by
  unfold closeCallbacks
  rw [List.filter_eq_self]
  intro e he
  obtain ⟨s, _, rfl⟩ := List.mem_map.mp he
  rfl

theorem filter_clearedEvents (w : World) (mid : Nat) : (w.clearedEvents mid).filter Ev.isCC = [] := by
  unfold clearedEvents
  rw [List.filter_eq_nil_iff]
  intro e he
  simp only [List.mem_append, List.mem_map] at he
  rcases he with he | ⟨c, _, rfl⟩
  · split at he
    · simp only [List.mem_singleton] at he; subst he; simp
    · cases he
  · simp

/-- a closing update of a market the framework knows appends the callbacks of the subscribed strategies (computed from the
    strategy list, which nothing changes) and no other closed-market callback; for a market it does not know, nothing -/
theorem processCloseMarket_cc (w : World) (mid : Nat) (book : Book) :
    (w.processCloseMarket mid book).cc = w.cc ++ (if (w.market? mid).isSome then w.closeCallbacks mid book else []) := by
  unfold processCloseMarket
  split
  · rename_i h
    rw [h]; simp
  · rename_i m h
    rw [h]
    simp only [Option.isSome_some, if_true]
    have hcc : ∀ (wa : World), wa.cc = w.cc → wa.strategies = w.strategies →
        (({ (wa.blotterProcessClosed mid book) with out := (wa.blotterProcessClosed mid book).out ++ (wa.blotterProcessClosed mid book).closeCallbacks mid book ++
          (wa.blotterProcessClosed mid book).clearedEvents mid ++ [Ev.closeEvent mid] } : World).modifyMarket mid fun m => { m with analytics := [], hasAnalytics := false }).cc =
        w.cc ++ w.closeCallbacks mid book := by
      intro wa h1 h2
      have e1 : (wa.blotterProcessClosed mid book).cc = w.cc := by rw [blotterProcessClosed_cc, h1]
      have e2 : (wa.blotterProcessClosed mid book).strategies = w.strategies := by rw [Strat.blotterProcessClosed_strategies, h2]
      generalize wa.blotterProcessClosed mid book = wb at e1 e2
      show (wb.out ++ wb.closeCallbacks mid book ++ wb.clearedEvents mid ++ [Ev.closeEvent mid]).filter Ev.isCC = _
      rw [List.filter_append, List.filter_append, List.filter_append, filter_closeCallbacks, filter_clearedEvents, closeCallbacks_congr e2]
      have : wb.out.filter Ev.isCC = w.cc := e1
      rw [this]
      simp
    split
    · exact hcc _ (by simp) (by simp)
    · exact hcc _ (by simp) (by simp)

@[simp] theorem noteForeign_cc (w : World) (mid : Nat) (a : Action) : (w.noteForeign mid a).cc = w.cc := by
  unfold noteForeign; split <;> rfl

@[simp] theorem doAction_cc (w : World) (mid : Nat) (batch : Option Txn) (a : Action) : (w.doAction mid batch a).1.cc = w.cc := by
  unfold doAction; rw [doActionCore_cc]; simp

@[simp] theorem doActions_cc (w : World) (mid : Nat) (as : List Action) : (w.doActions mid as).1.cc = w.cc := by
  unfold doActions
  simp only
  have : ∀ (l : List Action) (acc : World × Option Txn × List String),
      (l.foldl (fun (acc : World × Option Txn × List String) a =>
        ((acc.1.doAction mid acc.2.1 a).1, (acc.1.doAction mid acc.2.1 a).2.1, acc.2.2 ++ [(acc.1.doAction mid acc.2.1 a).2.2])) acc).1.cc = acc.1.cc := by
    intro l
    induction l with
    | nil => intro acc; rfl
    | cons a as ih => intro acc; rw [List.foldl_cons, ih]; simp
  have h := this as (w, none, [])
  generalize as.foldl _ (w, none, []) = r at h
  obtain ⟨w1, b, outs⟩ := r
  cases b with
  | some t => simpa using h
  | none => exact h

end Cc
end Flumine
